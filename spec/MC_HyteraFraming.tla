---------------------------- MODULE MC_HyteraFraming ----------------------------
(* C12: TLC judges Hytera application PDUs built from fields, alone and nested.        *)
EXTENDS HyteraFraming, HyteraPayloads, Json, IOUtils, TLC
D == JsonDeserialize(IOEnv.DATA_FILE)
VARIABLES chunk, idx
vars == <<chunk, idx>>
ChunkSize == 32
N == Len(D.samples)
Init == chunk \in 0..((N + ChunkSize - 1) \div ChunkSize - 1) /\ idx = -1
Next == idx = -1 /\ idx' \in (chunk * ChunkSize)..((chunk + 1) * ChunkSize - 1) /\ idx' < N /\ UNCHANGED chunk
Spec == Init /\ [][Next]_vars

Judge(i) ==
  LET s == D.samples[i + 1]
      h == HdapWhy(s.frame, s.proto, s.reliable, s.proto = "RCP", s.len)
  IN IF s.err # "" THEN "BuildSerialiseParse/" \o s.err
     ELSE IF h # "ok" THEN h
     ELSE IF s.frame2 # s.frame THEN "ParseThenSerialiseGivesSameBytes"
     ELSE IF ~s.fields_equal THEN "FieldsComeBackEqual"
     ELSE IF HrnpWhy(s.hrnp, s.frame) # "ok" THEN HrnpWhy(s.hrnp, s.frame)
     ELSE IF s.hrnp2 # s.hrnp \/ ~s.hrnp_ok THEN "HrnpNestingRoundTrips"
     ELSE IF HstrpWhy(s.hstrp, s.sn, s.opts, s.frame) # "ok" THEN HstrpWhy(s.hstrp, s.sn, s.opts, s.frame)
     ELSE IF s.hstrp2 # s.hstrp THEN "HstrpNestingRoundTrips"
     ELSE "ok"

\* design level: the payload between length field and checksum against the per-opcode layout of HyteraPayloads.tla
\* (the statement promises framing and round trip, not field positions: informational)
PayloadDrift(i) ==
  LET s == D.samples[i + 1] IN
  IF s.err # "" \/ s.proto \notin {"RRS", "LP", "TMP", "RCP"} \/ Len(s.frame) < 7 THEN "ok"
  ELSE IF SubSeq(s.frame, 6, Len(s.frame) - 2) # Payload(s.proto, s.op, s.lay) THEN "payload-differs-from-layout/" \o s.proto \o "/" \o s.op
  ELSE IF s.proto = "TMP" /\ s.frame[2] # TmpFlags(s.lay) THEN "tmp-flag-octet-differs-from-layout"
  ELSE "ok"

Report == LET w == Judge(idx') IN
          /\ w # "ok" => PrintT(ToJson([tag |-> "REJECT", idx |-> idx', why |-> w]))
          /\ PayloadDrift(idx') # "ok" => PrintT(ToJson([tag |-> "DRIFT", idx |-> idx', why |-> PayloadDrift(idx')]))
=============================================================================
