----------------------------- MODULE PcapFilter -----------------------------
(* Growth beyond the listed properties: the capture iterator of tools/pcap_tool.py        *)
(* (PcapTool.iter_pcap), the front door of every analysis tool of the repository.         *)
(* A capture is a sequence of packets; the iterator keeps port statistics over every UDP  *)
(* packet in an Ethernet frame and hands the payload of those that pass the filters to a  *)
(* callback, in order; a raising callback does not stop the iteration.                    *)
(*                                                                                        *)
(* packet = [ether, udp, ip4, load : BOOLEAN, src : address, sport, dport : port,         *)
(*           raises : BOOLEAN]   (raises: the callback raises an Exception for it)        *)
(* cfg    = [ipw : set of addresses, pw, pb : sets of ports]   (empty list = no filter)   *)
EXTENDS Integers, Sequences, FiniteSets, SequencesExt

Counted(p) == p.ether /\ p.udp

\* the order of the tests is the code's: IP whitelist (source address only, and only for IPv4),
\* port whitelist (either port), port blacklist (either port), then "IPv4 with a payload"
Passes(p, cfg) ==
  /\ Counted(p)
  /\ (cfg.ipw # {} => ~(p.ip4 /\ p.src \notin cfg.ipw))
  /\ (cfg.pw # {} => (p.sport \in cfg.pw \/ p.dport \in cfg.pw))
  /\ (cfg.pb # {} => ~(p.sport \in cfg.pb \/ p.dport \in cfg.pb))
  /\ p.ip4 /\ p.load

Indices(pkts, P(_)) == {i \in 1..Len(pkts) : P(pkts[i])}

\* the callback sees these packets (by index), in capture order
Calls(pkts, cfg) == SetToSortSeq(Indices(pkts, LAMBDA p : Passes(p, cfg)), <)

\* port -> number of times it occurs as source or destination port of a counted packet
PortsOf(pkts) == UNION {{pkts[i].sport, pkts[i].dport} : i \in Indices(pkts, Counted)}
Stats(pkts) ==
  [q \in PortsOf(pkts) |->
     Cardinality({i \in Indices(pkts, Counted) : pkts[i].sport = q})
     + Cardinality({i \in Indices(pkts, Counted) : pkts[i].dport = q})]

\* ---------------------------------------------------------------- design facts (checked by MC_PcapFilter)
SumOf(f) == LET RECURSIVE S(_) S(D) == IF D = {} THEN 0 ELSE LET x == CHOOSE x \in D : TRUE IN f[x] + S(D \ {x})
            IN S(DOMAIN f)
StatsCountEveryUdpPacketTwice(pkts) == SumOf(Stats(pkts)) = 2 * Cardinality(Indices(pkts, Counted))
\* statistics do not depend on the filters (they are taken first)
\* a blacklisted port wins over a whitelisted one
BlacklistWins(pkts, cfg) ==
  \A i \in 1..Len(pkts) : (pkts[i].sport \in cfg.pb \/ pkts[i].dport \in cfg.pb) => ~Passes(pkts[i], cfg)
\* growing the blacklist never adds calls; growing a NON-EMPTY whitelist never removes calls
BlacklistMonotone(pkts, cfg, q) ==
  Indices(pkts, LAMBDA p : Passes(p, [cfg EXCEPT !.pb = @ \cup {q}])) \subseteq Indices(pkts, LAMBDA p : Passes(p, cfg))
WhitelistMonotone(pkts, cfg, q) ==
  cfg.pw # {} => Indices(pkts, LAMBDA p : Passes(p, cfg)) \subseteq Indices(pkts, LAMBDA p : Passes(p, [cfg EXCEPT !.pw = @ \cup {q}]))
=============================================================================
