---------------------------- MODULE MC_BurstNear ----------------------------
(* Spec -> code, directed: the valid embedded-signalling words nearest to each SYNC pattern (with the QR(16,7,6) rows learned   *)
(* from the implementation), printed as cases for the harness: voice bursts carrying such an EMB word and the pattern's middle   *)
(* 32 bits as embedded bits are the ones a tolerant SYNC matcher would mistake for a sync burst.                                *)
EXTENDS Burst, Json, IOUtils, TLC
D == JsonDeserialize(IOEnv.DATA_FILE)
VARIABLE done
Init == done = FALSE
Next == ~done /\ done' = TRUE
Spec == Init /\ [][Next]_done
Report == \A r \in NearSync(D.qr, 4) : PrintT(ToJson([tag |-> "NEAR", cc |-> r.cc, pi |-> r.pi, lcss |-> r.lcss, sync |-> r.sync, dist |-> r.dist, mid |-> r.mid]))
=============================================================================
