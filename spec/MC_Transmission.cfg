SPECIFICATION Spec
CONSTANTS
  GuardEndData = TRUE
  MaxDepth = 14
  Slots = {1}
  Btfs = {0, 1, 2, 3}
  WithEndAll = FALSE
INVARIANT PropertyHolds
INVARIANT TypeHeader
PROPERTY SlotsIndependent
CONSTRAINT Bound
VIEW View
CHECK_DEADLOCK FALSE
