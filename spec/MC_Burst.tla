-------------------------------- MODULE MC_Burst --------------------------------
(* C01: TLC judges bursts assembled, serialised, parsed and re-serialised by the library, *)
(* re-derives slot type / sync / EMB / rate-1 / BPTC coded info bits from the fields      *)
(* (drift) and checks the classification decision table exhaustively.                     *)
EXTENDS Burst, Json, IOUtils, TLC

D == JsonDeserialize(IOEnv.DATA_FILE)
VARIABLES phase, chunk, idx
vars == <<phase, chunk, idx>>
ChunkSize == 32
Size(ph) == CASE ph = "data" -> Len(D.data) [] ph = "voice" -> Len(D.voice) [] ph = "table" -> Len(D.table) [] ph = "design" -> 1
Init == phase \in {"data", "voice", "table", "design"} /\ chunk \in 0..((Size(phase) + ChunkSize - 1) \div ChunkSize - 1) /\ idx = -1
Next == idx = -1 /\ idx' \in (chunk * ChunkSize)..((chunk + 1) * ChunkSize - 1) /\ idx' < Size(phase) /\ UNCHANGED <<phase, chunk>>
Spec == Init /\ [][Next]_vars

SeqSet(s) == {s[j] : j \in 1..Len(s)}
BptcTypes == {"PIHeader", "VoiceLCHeader", "TerminatorWithLC", "CSBK", "DataHeader", "Rate12Data"}
\* BPTC(196,96) codeword of a 96-bit payload by superposition of the learned basis codewords (sets of positions)
BptcBit(payload, t) ==
  Cardinality({i \in 0..95 : BitAt(payload, i) = 1 /\ t \in SeqSet(D.basis[i + 1])}) % 2

\* rate 3/4: the trellis pipeline of Trellis34.tla over the tables learned for C10 (D.trellis = [T, PD, DB, I])
TR == INSTANCE Trellis34
TrellisBit(payload, t) == TR!EncBit(D.trellis.T, D.trellis.PD, D.trellis.DB, D.trellis.I, payload, t)

Judge(ph, i) ==
  CASE ph = "data" ->
         LET b == D.data[i + 1]
             gw == GolayWord(D.golay, b.cc, b.dtv)
             slotBad == \E j \in 0..19 : SlotBit(b.bytes, j) # Bit(gw, 19 - j)
             syncBad == \E j \in 0..47 : CentreBit(b.bytes, j) # SyncBit(b.sync, j)
             infoBad == IF b.dt \in BptcTypes THEN \E t \in 0..195 : InfoBit(b.bytes, t) # BptcBit(b.payload, t)
                        ELSE IF b.dt = "Rate1Data" THEN
                             \E t \in 0..195 : InfoBit(b.bytes, t) # (IF t < 96 THEN BitAt(b.payload, t)
                                                                     ELSE IF t < 100 THEN 0 ELSE BitAt(b.payload, t - 4))
                        ELSE IF b.dt = "Rate34Data" THEN \E t \in 0..195 : InfoBit(b.bytes, t) # TrellisBit(b.payload, t)
                        ELSE FALSE
         IN [why |-> IF b.err # "" THEN "AssembleParse/" \o b.err
                     ELSE IF b.nbytes # 33 THEN "BurstIs33Bytes"
                     ELSE IF b.pdt # b.dt THEN "SameDataType"
                     ELSE IF b.pcc # b.cc THEN "SameColourCode"
                     ELSE IF ~b.fields_equal THEN "SamePayloadFields"
                     ELSE IF b.bytes2 # b.bytes THEN "ReserialisedBytesIdentical"
                     ELSE "ok",
             dr |-> IF b.err # "" THEN "ok" ELSE IF slotBad THEN "slot-type-bits-differ-from-golay(cc,dt)"
                    ELSE IF syncBad THEN "centre-differs-from-sync-pattern"
                    ELSE IF infoBad THEN "info-bits-differ-from-coding-of-payload" ELSE "ok"]
    [] ph = "voice" ->
         LET v == D.voice[i + 1]
             qw == QrWord(D.qr, v.cc, v.pi, v.lcss)
             embBad == v.kind = "emb" /\ \E j \in 0..15 : EmbBit(v.bytes, j) # Bit(qw, 15 - j)
         IN [why |-> IF v.err # "" THEN "ParseVoiceBurst/" \o v.err
                     ELSE IF v.bytes2 # v.bytes THEN "VoiceBurstSurvivesBitForBit"
                     ELSE IF v.kind = "emb" /\ (~v.has_emb \/ v.pcc # v.cc) THEN "EmbeddedSignallingRecognised"
                     ELSE IF v.kind = "sync" /\ ~v.is_start THEN "VoiceSyncRecognised" ELSE "ok",
             dr |-> IF embBad THEN "harness-emb-word-differs-from-qr(cc,pi,lcss)" ELSE "ok"]
    [] ph = "table" ->
         LET t == D.table[i + 1]
             c == Classify(t.centre, t.bt)
         IN [why |-> "ok",
             dr |-> IF t.err # "" THEN (IF c.is_data_or_control THEN "ok" ELSE "classification-raised")
                    ELSE IF <<t.is_vocoder, t.has_emb, t.has_slot_type, t.is_start>> # <<c.is_vocoder, c.has_emb, c.has_slot_type, c.is_voice_superframe_start>>
                    THEN "classification-differs-from-decision-table" ELSE "ok"]
    [] ph = "design" ->
         [why |-> "ok", dr |-> IF ~NoSyncLooksLikeEmb(D.qr) THEN "a-sync-pattern-is-a-valid-emb-word" ELSE "ok"]

Report ==
  LET j == Judge(phase, idx') IN
  /\ j.why # "ok" => PrintT(ToJson([tag |-> "REJECT", phase |-> phase, idx |-> idx', why |-> j.why]))
  /\ j.dr # "ok" => PrintT(ToJson([tag |-> "DRIFT", phase |-> phase, idx |-> idx', why |-> j.dr]))
=============================================================================
