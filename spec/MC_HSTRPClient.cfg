SPECIFICATION Spec
CONSTANTS
  Sequential = TRUE
  MaxWake = 3
PROPERTY EveryServiceAsksToConnect
CHECK_DEADLOCK FALSE
