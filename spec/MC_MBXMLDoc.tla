------------------------------ MODULE MC_MBXMLDoc ------------------------------
(* C15: TLC frames every observed buffer itself, walks the token chains with the learned *)
(* per-document token tables and judges what MBXML.from_bytes / as_bytes did.            *)
(* sample = [buf, err, ndocs, ids (per doc), tokens (per doc: seq of token ids), reser   *)
(*           (concatenation of as_bytes of the parsed docs), built (TRUE if the buffer   *)
(*           was produced by as_bytes from objects: then values must come back equal),   *)
(*           values_equal]                                                               *)
EXTENDS MBXMLDoc, Json, IOUtils, TLC

D == JsonDeserialize(IOEnv.DATA_FILE)
VARIABLES chunk, idx
vars == <<chunk, idx>>
ChunkSize == 32
N == Len(D.samples)
Init == chunk \in 0..((N + ChunkSize - 1) \div ChunkSize - 1) /\ idx = -1
Next == idx = -1 /\ idx' \in (chunk * ChunkSize)..((chunk + 1) * ChunkSize - 1) /\ idx' < N /\ UNCHANGED chunk
Spec == Init /\ [][Next]_vars

Judge(i) ==
  LET s == D.samples[i + 1]
      fr == Frames(s.buf, 0)
      framed == Len(fr) >= 1 /\ fr[Len(fr)].id # -1
      specTokens == [d \in 1..Len(fr) |->
                       LET key == ToString(fr[d].id)
                       IN IF key \notin DOMAIN D.tables THEN <<-1>>
                          ELSE TokenIds(s.buf, BodyStart(s.buf, fr[d], D.tables[key].has_cdt), fr[d].to, D.tables[key].tokens)]
      wellFormed == framed /\ \A d \in 1..Len(fr) : \A t \in 1..Len(specTokens[d]) : specTokens[d][t] # -1
  IN [why |-> IF ~wellFormed THEN (IF s.built THEN "SerialisedBufferIsWellFormed" ELSE "ok")   \* a harness-made raw buffer outside the grammar proves nothing
              ELSE IF s.err # "" THEN "ParsingTerminatesWithoutError/" \o s.err
              ELSE IF s.ndocs # Len(fr) THEN "OneDocumentPerAnnouncedLength"
              ELSE IF s.ids # [d \in 1..Len(fr) |-> fr[d].id] THEN "DocumentIds"
              ELSE IF s.tokens # specTokens THEN "TokenIdsAsInTheBuffer"
              ELSE IF s.reser # s.buf THEN "ReserialisesToIdenticalBytes"
              ELSE IF s.built /\ ~s.values_equal THEN "TokenValuesComeBack"
              ELSE "ok",
      dr |-> "ok"]

Report == LET j == Judge(idx') IN j.why # "ok" => PrintT(ToJson([tag |-> "REJECT", idx |-> idx', why |-> j.why]))
=============================================================================
