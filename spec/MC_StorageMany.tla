--------------------------- MODULE MC_StorageMany ---------------------------
(* C20 beyond the small pool of MC_Storage: N distinct addresses are auto-created one      *)
(* after the other and every one of them is looked up again afterwards (without and with   *)
(* auto-creation).  D = [n, first, again, againauto, len]: creation indices (1..n) of the  *)
(* records returned, 0 = nothing returned, -k = another object with the id of record k.    *)
(* The clauses are those of Storage.tla, on this one long history: the same address gives  *)
(* the same record, records grow only by auto-creation of unseen addresses, ids are unique. *)
EXTENDS Integers, Sequences, Json, IOUtils, TLC

D == JsonDeserialize(IOEnv.DATA_FILE)
VARIABLES k
Init == k \in 1..D.n
Next == UNCHANGED k
Spec == Init /\ [][Next]_k

Why(i) ==
  IF D.first[i] # i THEN "GrowRule(the i-th unseen address creates the i-th record)"
  ELSE IF D.again[i] # i THEN "SameAddressSameId(lookup)"
  ELSE IF D.againauto[i] # i THEN "SameAddressSameId(auto-creating lookup of a seen address)"
  ELSE IF D.len # D.n THEN "GrowRule(one record per address)"
  ELSE "ok"
Judge == Why(k) # "ok" => PrintT(ToJson([tag |-> "REJECT", idx |-> k, why |-> Why(k)]))
=============================================================================
