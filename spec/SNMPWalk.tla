------------------------------- MODULE SNMPWalk -------------------------------
(* Growth beyond the listed properties: the SNMP read that follows a completed RDAC       *)
(* identification (hytera/snmp.py SNMP.walk_ip, called through Repeater.read_snmp_values  *)
(* by the RDAC handler, result patched into the repeater's record).                       *)
(*                                                                                        *)
(* The repeater answers N object identifiers one after the other; an attempt under        *)
(* community c follows the environment's script env[c] = <<kind, k>>: kind "success"      *)
(* (all N values), "timeout" or "refused" at the k-th request (k - 1 values were read).   *)
(* As the code is written: a timeout on the first try falls back to the other community   *)
(* once, and the values collected by the call itself are returned.                        *)
(* TupleValid = FALSE models the except clause as it is in the repository: its tuple      *)
(* names a module (puresnmp.api), so matching ANY exception against it raises TypeError.  *)
EXTENDS Integers, Sequences

CONSTANTS N, TupleValid

Communities == {"public", "hytera"}
Other(c) == IF c = "public" THEN "hytera" ELSE "public"

Collected(s) == IF s[1] = "success" THEN N ELSE s[2] - 1

\* returns [ret (number of values returned), tried (communities in order), out]
RECURSIVE Walk(_, _, _)
Walk(c, first, env) ==
  LET s == env[c] IN
  IF s[1] = "success" THEN [ret |-> N, tried |-> <<c>>, out |-> "ok"]
  ELSE IF s[1] = "refused" THEN [ret |-> Collected(s), tried |-> <<c>>, out |-> "ok"]
  ELSE IF ~TupleValid THEN [ret |-> 0, tried |-> <<c>>, out |-> "raise"]
  ELSE IF first THEN LET f == Walk(Other(c), FALSE, env)
                     IN [ret |-> Collected(s), tried |-> <<c>> \o f.tried, out |-> f.out]     \* the fallback's values are dropped
  ELSE [ret |-> Collected(s), tried |-> <<c>>, out |-> "ok"]

\* ---------------------------------------------------------------- what one would expect of it (checked by MC_SNMPWalk)
NeverRaises(r) == r.out = "ok"
AllOrNothing(r) == r.ret \in {0, N}                       \* a record is not patched with half a read
FallbackIsUsed(c, env, r) ==                              \* if the other community would answer, its values are returned
  (env[c][1] = "timeout" /\ env[Other(c)][1] = "success") => r.ret = N
AtMostTwoAttempts(r) == Len(r.tried) <= 2
=============================================================================
