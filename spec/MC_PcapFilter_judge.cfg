SPECIFICATION Spec
CONSTANTS
  MaxLen = 0
  Mode = "judge"
INVARIANT JudgeAll
CHECK_DEADLOCK FALSE
