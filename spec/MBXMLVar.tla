------------------------------- MODULE MBXMLVar -------------------------------
(* Motorola MBXML variable length numbers (motorola/mbxml.py, the read_ and write_ methods). *)
(* uintvar : big-endian septets, continuation bit 0x80 on all but the last octet;         *)
(*           canonical = shortest (no leading zero septet).                               *)
(* sintvar : as uintvar, but bit 6 of the FIRST octet is the sign and that octet carries  *)
(*           only 6 magnitude bits; canonical = shortest that leaves bit 6 for the sign.  *)
(* floatvar: integer part (uintvar / sintvar) followed by the fraction as septets: n      *)
(*           septets mean numerator / 128^n; canonical for precision p = p septets with   *)
(*           trailing zero septets dropped (at least one septet).                         *)
(* Unsigned 32-bit values are pairs <<hi, lo>> of 16-bit limbs (TLC integers are 32 bit). *)
EXTENDS Integers, Sequences, FiniteSets, SequencesExt

BitOf(v, i) == IF i < 16 THEN (v[2] \div (2 ^ i)) % 2 ELSE IF i < 32 THEN (v[1] \div (2 ^ (i - 16))) % 2 ELSE 0
Septet(v, k) == LET S[j \in 0..6] == BitOf(v, 7 * k + j) * (2 ^ j) + (IF j = 0 THEN 0 ELSE S[j - 1]) IN S[6]     \* bits 7k..7k+6
BitLen(v) == LET S == {i \in 0..31 : BitOf(v, i) = 1} IN IF S = {} THEN 0 ELSE 1 + CHOOSE i \in S : \A j \in S : j <= i

\* septets (most significant first) with continuation bits
WithCont(septets) == [i \in 1..Len(septets) |-> septets[i] + (IF i < Len(septets) THEN 128 ELSE 0)]

NSeptets(v) == IF BitLen(v) = 0 THEN 1 ELSE (BitLen(v) + 6) \div 7
CanonicalU(v) == LET n == NSeptets(v) IN WithCont([i \in 1..n |-> Septet(v, n - i)])

\* signed: n septets hold 6 + 7(n-1) magnitude bits
NSeptetsS(v) == IF BitLen(v) <= 6 THEN 1 ELSE 1 + (BitLen(v) - 6 + 6) \div 7
CanonicalS(v, neg) ==
  LET n == NSeptetsS(v)
      raw == [i \in 1..n |-> Septet(v, n - i)]            \* the first one is < 64 by the choice of n
  IN WithCont([i \in 1..n |-> IF i = 1 THEN raw[1] + (IF neg THEN 64 ELSE 0) ELSE raw[i]])

\* fraction k / 128^p, 0 <= k < 128^p (k fits 21 bits for p <= 3)
RECURSIVE Strip(_, _)
Strip(k, p) == IF p > 1 /\ k % 128 = 0 THEN Strip(k \div 128, p - 1) ELSE <<k, p>>
Fraction(k, p) == LET s == Strip(k, p) IN WithCont([i \in 1..s[2] |-> (s[1] \div (128 ^ (s[2] - i))) % 128])

CanonicalUFloat(v, k, p) == CanonicalU(v) \o Fraction(k, p)
CanonicalSFloat(v, neg, k, p) == CanonicalS(v, neg) \o Fraction(k, p)

\* ---------------------------------------------------------------- the reader as a state machine
\* state [acc (pair), idx, more]; one step consumes one octet
Mul128Add(v, s) == LET hi == ((v[1] * 128) + (v[2] \div 512)) % 65536
                       lo == ((v[2] % 512) * 128) + s
                   IN <<hi, lo>>
ReadU(bytes, start) ==
  LET Step(st, dummy) == IF ~st.more THEN st
                         ELSE LET o == bytes[st.idx + 1]
                              IN [acc |-> Mul128Add(st.acc, o % 128), idx |-> st.idx + 1, more |-> o >= 128]
      fin == FoldLeft(Step, [acc |-> <<0, 0>>, idx |-> start, more |-> TRUE], [i \in 1..(Len(bytes) - start) |-> i])
  IN <<fin.acc, fin.idx, ~fin.more>>
ReadS(bytes, start) ==
  LET first == bytes[start + 1]
      Step(st, dummy) == IF ~st.more THEN st
                         ELSE LET o == bytes[st.idx + 1]
                              IN [acc |-> Mul128Add(st.acc, o % 128), idx |-> st.idx + 1, more |-> o >= 128]
      fin == FoldLeft(Step, [acc |-> <<0, first % 64>>, idx |-> start + 1, more |-> first >= 128],
                      [i \in 1..(Len(bytes) - start - 1) |-> i])
  IN <<fin.acc, (first \div 64) % 2 = 1, fin.idx, ~fin.more>>

\* design-level facts checked by TLC on enumerated values
UOk(v) == LET c == CanonicalU(v) IN ReadU(c, 0) = <<v, Len(c), TRUE>> /\ (Len(c) > 1 => c[1] # 128)
SOk(v, neg) == LET c == CanonicalS(v, neg) IN ReadS(c, 0) = <<v, neg, Len(c), TRUE>>

\* info-time: 40 bits = year(14) month(4) day(5) hour(5) minute(6) second(6)
InfoTimeOctets(y, mo, d, h, mi, s) ==
  LET b == [i \in 0..39 |->
              IF i < 14 THEN (y \div (2 ^ (13 - i))) % 2 ELSE IF i < 18 THEN (mo \div (2 ^ (17 - i))) % 2
              ELSE IF i < 23 THEN (d \div (2 ^ (22 - i))) % 2 ELSE IF i < 28 THEN (h \div (2 ^ (27 - i))) % 2
              ELSE IF i < 34 THEN (mi \div (2 ^ (33 - i))) % 2 ELSE (s \div (2 ^ (39 - i))) % 2]
  IN [o \in 1..5 |-> LET F[j \in 0..7] == b[8 * (o - 1) + j] * (2 ^ (7 - j)) + (IF j = 0 THEN 0 ELSE F[j - 1]) IN F[7]]
=============================================================================
