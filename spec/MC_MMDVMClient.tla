--------------------------- MODULE MC_MMDVMClient ---------------------------
(* The client of MMDVMClient.tla in a closed loop with a Homebrew master (an environment assumption:   *)
(* RPTL -> RPTACK with a fresh challenge; RPTK answering the current challenge -> RPTACK, otherwise     *)
(* MSTNAK; RPTC after authentication -> RPTACK; RPTPING of a configured repeater -> MSTPONG, of an      *)
(* unknown one -> MSTNAK; RPTCL -> forgotten) over two FIFO channels that may lose a bounded number of  *)
(* datagrams; the master may forget the repeater (its own time-out) or close (MSTCL) a bounded number   *)
(* of times, the socket may drop and come back once.  The timer of periodic_maintenance (5 s) is long   *)
(* against the round trip: unless Impatient, Tick is enabled only when nothing is in flight.            *)
(*                                                                                                      *)
(* Questions TLC answers:                                                                               *)
(*  EventuallyInSync     <>[] (client Ok /\ master Configured) under weak fairness - with the code as     *)
(*                       committed (ResendInRespSent = FALSE) one lost datagram of the challenge         *)
(*                       exchange leaves the client in CON_LOGIN_RESPONSE_SENT for ever: no timer branch  *)
(*                       covers that status.                                                             *)
(*  AcceptOnlyOnAccept   the client declares "Master Login Accept" only on the RPTACK that answers its    *)
(*                       RPTK - an action property; refuted as soon as two login requests are in flight   *)
(*                       (Impatient, or a socket that came back): the second challenge is taken for the   *)
(*                       acceptance, the client sends its configuration to a master that is about to      *)
(*                       refuse the stale response.                                                      *)
(*  DmrOnlyWhenLoggedIn  DMR data is put on queue_incoming only while the client is logged in - refuted: the       *)
(*                       branch for DMRD looks at no status, a datagram that arrives after the socket dropped    *)
(*                       (status New) is forwarded all the same.                                                *)
(* `last` holds the client-level event of the step (bounded, not a history) so that a counterexample    *)
(* written with -dumpTrace json can be replayed on the real class.                                      *)
EXTENDS MMDVMClient, TLC

CONSTANTS MaxLoss, MaxForget, MaxDrop, MaxDmr, Impatient, MaxFlight
VARIABLES c, ms, c2m, m2c, lost, forgot, drops, dmr, last
vars == <<c, ms, c2m, m2c, lost, forgot, drops, dmr, last>>

M0 == [ph |-> "Idle", ch |-> 0]
Ack(f, ch) == Msg("ACK", ch, f)
Nak == Msg("NAK", 0, "")

\* the master's reaction to one datagram: [s |-> state', r |-> replies]
MasterRecv(s, m) ==
  CASE m.k = "RPTL"    -> [s |-> [ph |-> "Challenged", ch |-> s.ch + 1], r |-> <<Ack("L", s.ch + 1)>>]
    [] m.k = "RPTK"    -> IF s.ph = "Challenged" /\ m.ch = s.ch
                          THEN [s |-> [s EXCEPT !.ph = "Authed"], r |-> <<Ack("K", 0)>>]
                          ELSE [s |-> [s EXCEPT !.ph = "Idle"], r |-> <<Nak>>]
    [] m.k = "RPTC"    -> IF s.ph \in {"Authed", "Configured"}
                          THEN [s |-> [s EXCEPT !.ph = "Configured"], r |-> <<Ack("C", 0)>>]
                          ELSE [s |-> [s EXCEPT !.ph = "Idle"], r |-> <<Nak>>]
    [] m.k = "RPTPING" -> IF s.ph = "Configured" THEN [s |-> s, r |-> <<Msg("PONG", 0, "")>>]
                          ELSE [s |-> [s EXCEPT !.ph = "Idle"], r |-> <<Nak>>]
    [] m.k = "RPTCL"   -> [s |-> [s EXCEPT !.ph = "Idle"], r |-> <<>>]
    [] OTHER           -> [s |-> s, r |-> <<>>]

Init == /\ c = C0 /\ ms = M0 /\ c2m = <<>> /\ m2c = <<>>
        /\ lost = 0 /\ forgot = 0 /\ drops = 0 /\ dmr = 0 /\ last = Ev("init")

Quiet == c2m = <<>> /\ m2c = <<>> /\ c.outq = <<>>
ClientDoes(e) == LET r == Client(c, e) IN c' = r.c /\ c2m' = c2m \o r.sent /\ last' = e

Tick == /\ Impatient \/ (Quiet /\ c.tr # "none")            \* the maintenance task is started with the endpoint
        /\ Len(c2m) + Len(c.outq) < MaxFlight
        /\ ClientDoes(Ev("tick")) /\ UNCHANGED <<ms, m2c, lost, forgot, drops, dmr>>
Made == /\ c.tr # "open"
        /\ ClientDoes(Ev("made")) /\ UNCHANGED <<ms, m2c, lost, forgot, drops, dmr>>
PumpOne == /\ c.outq # <<>>
           /\ ClientDoes(Ev("pump")) /\ UNCHANGED <<ms, m2c, lost, forgot, drops, dmr>>
\* the socket goes away: the transport closes, connection_lost runs (two client events; `last` names the second)
Drop == /\ c.tr = "open" /\ drops < MaxDrop
        /\ c' = ConnectionLost(TransportCloses(c)) /\ last' = Ev("lost") /\ drops' = drops + 1
        /\ UNCHANGED <<ms, c2m, m2c, lost, forgot, dmr>>
DeliverToClient == /\ m2c # <<>>
                   /\ ClientDoes([a |-> "recv", m |-> Head(m2c)]) /\ m2c' = Tail(m2c)
                   /\ UNCHANGED <<ms, lost, forgot, drops, dmr>>
DeliverToMaster == /\ c2m # <<>>
                   /\ LET r == MasterRecv(ms, Head(c2m)) IN ms' = r.s /\ m2c' = m2c \o r.r
                   /\ c2m' = Tail(c2m) /\ last' = Ev("env")
                   /\ UNCHANGED <<c, lost, forgot, drops, dmr>>
LoseToMaster == /\ c2m # <<>> /\ lost < MaxLoss /\ c2m' = Tail(c2m) /\ lost' = lost + 1 /\ last' = Ev("env")
                /\ UNCHANGED <<c, ms, m2c, forgot, drops, dmr>>
LoseToClient == /\ m2c # <<>> /\ lost < MaxLoss /\ m2c' = Tail(m2c) /\ lost' = lost + 1 /\ last' = Ev("env")
                /\ UNCHANGED <<c, ms, c2m, forgot, drops, dmr>>
MasterForgets == /\ ms.ph # "Idle" /\ forgot < MaxForget /\ ms' = [ms EXCEPT !.ph = "Idle"] /\ forgot' = forgot + 1
                 /\ last' = Ev("env") /\ UNCHANGED <<c, c2m, m2c, lost, drops, dmr>>
MasterCloses == /\ ms.ph # "Idle" /\ forgot < MaxForget /\ ms' = [ms EXCEPT !.ph = "Idle"] /\ forgot' = forgot + 1
                /\ m2c' = Append(m2c, Msg("CL", 0, "")) /\ last' = Ev("env") /\ UNCHANGED <<c, c2m, lost, drops, dmr>>
MasterSendsDmr == /\ ms.ph = "Configured" /\ dmr < MaxDmr /\ dmr' = dmr + 1
                  /\ m2c' = Append(m2c, Msg("DMRD", 0, "")) /\ last' = Ev("env") /\ UNCHANGED <<c, ms, c2m, lost, forgot, drops>>

Next == Tick \/ Made \/ PumpOne \/ Drop \/ DeliverToClient \/ DeliverToMaster \/ LoseToMaster \/ LoseToClient
        \/ MasterForgets \/ MasterCloses \/ MasterSendsDmr
Spec == Init /\ [][Next]_vars
FairSpec == Spec /\ WF_vars(Tick) /\ WF_vars(Made) /\ WF_vars(PumpOne) /\ WF_vars(DeliverToClient) /\ WF_vars(DeliverToMaster)

TypeOK == /\ c.st \in {"New", "ReqSent", "RespSent", "Ok", "AuthFailed"} /\ c.tr \in {"none", "open", "closing"}
          /\ ms.ph \in {"Idle", "Challenged", "Authed", "Configured"}
StatusReachable == c.st # "AuthFailed"              \* CON_AUTHENTICATION_FAILED is never assigned anywhere in the class
InSync == c.st = "Ok" /\ ms.ph = "Configured"
EventuallyInSync == <>[]InSync
AcceptOnlyOnAccept == [][(c.st = "RespSent" /\ c'.st = "Ok") => (m2c # <<>> /\ Head(m2c).for = "K")]_vars
ConfigurationOnlyOnAccept ==
  [][(Len(c'.outq) > Len(c.outq) /\ c'.outq[Len(c'.outq)].k = "RPTC") => (m2c # <<>> /\ Head(m2c).for = "K")]_vars
DmrOnlyWhenLoggedIn == [][c'.inq > c.inq => c.st = "Ok"]_vars
Bounded == Len(c2m) <= MaxFlight + 1 /\ Len(m2c) <= MaxFlight + 3 /\ ms.ch <= MaxFlight + MaxLoss + MaxForget + MaxDrop + 6
=============================================================================
