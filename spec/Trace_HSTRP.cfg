SPECIFICATION Spec
CONSTANTS
  AckTheAcks = FALSE
ACTION_CONSTRAINT Report
CHECK_DEADLOCK FALSE
