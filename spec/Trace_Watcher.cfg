SPECIFICATION Spec
CONSTANTS
  GuardEndData = TRUE
ACTION_CONSTRAINT Report
CHECK_DEADLOCK FALSE
