----------------------------- MODULE Trace_HSTRP -----------------------------
(* Code -> spec for the HSTRP/RRS handler.  An event is one datagram_received call on   *)
(* handler `who` (1 or 2; 2 only in closed-loop runs):                                  *)
(*   [who, m, out]  m = the datagram as built / classified by the harness,              *)
(*   out = [outcome, sent, connected, sn, reg, handled, pdu] observed after the call.   *)
EXTENDS HSTRPHandler, Json, IOUtils

Traces == JsonDeserialize(IOEnv.TRACE_FILE)

VARIABLES tid, l, hs, mons, why, dr
vars == <<tid, l, hs, mons, why, dr>>

Init == /\ tid \in 1..Len(Traces) /\ l = 0
        /\ hs = <<[InitH EXCEPT !.sn = Traces[tid].init.sn0], InitH>>      \* sn0: own counter at the start of the run
        /\ mons = <<InitMon, InitMon>>
        /\ why = "ok" /\ dr = "ok"

Step ==
  /\ l < Len(Traces[tid].ev)
  /\ LET e == Traces[tid].ev[l + 1]
         p == e.who
         r == JudgeEvent(hs[p], mons[p], e)
     IN /\ l' = l + 1 /\ tid' = tid
        /\ hs' = [hs EXCEPT ![p] = r.h]
        /\ mons' = [mons EXCEPT ![p] = r.mon]
        /\ why' = IF why # "ok" THEN why ELSE r.why
        /\ dr' = IF dr # "ok" THEN dr ELSE r.dr

Done == l = Len(Traces[tid].ev) /\ UNCHANGED vars
Next == Step \/ Done
Spec == Init /\ [][Next]_vars

Report ==
  /\ (why' # "ok" /\ why = "ok") => PrintT(ToJson([tag |-> "REJECT", tid |-> tid, l |-> l', why |-> why']))
  /\ (dr' # "ok" /\ dr = "ok") => PrintT(ToJson([tag |-> "DRIFT", tid |-> tid, l |-> l', why |-> dr']))
=============================================================================
