SPECIFICATION Spec
CONSTANTS
  P2PPort = 50000
  RdacPort = 50002
  MaxDepth = 5
INVARIANT PropertyHolds
INVARIANT MonMatchesStorage
CONSTRAINT Bound
VIEW View
CHECK_DEADLOCK FALSE
