--------------------------------- MODULE P2P ---------------------------------
(* Hytera P2P handshake handler: protocols/hytera/p2p_datagram_protocol.py on top of the  *)
(* repeater storage (Storage.tla).  One action: a datagram from `src` is received.        *)
(* Datagram classes: reg (registration request), dmr / rdac (start-up requests), ping,    *)
(* ack / unk (command with unknown type), garbage; ovf = octet 4 is 0xFF, which makes the *)
(* handler's `data[4] += 1` raise (before any effect for reg, after the registered-gate   *)
(* for dmr/rdac); for a ping ovf = the datagram ends before octet 14, which makes the      *)
(* answer's `data[14] = 1` raise (after the registered-gate as well).                      *)
EXTENDS Storage

CONSTANTS P2PPort, RdacPort

RegKey == "p2p_is_registered"
PKeys == {RegKey}
TrueV == StrV("True")

Sent(kind, dst, port) == [kind |-> kind, dst |-> dst, port |-> port]
AddrOf(v) == [ip |-> v.ip, port |-> v.port]

Find(recs, src) == FirstIdx(recs, LAMBDA r : r.f["address_in"] = AddrV(src))
IsRegistered(recs, src) == LET i == Find(recs, src) IN i # 0 /\ recs[i].attrs[RegKey] # NoneV

\* returns [recs, sent, out]
Recv(recs, src, d) ==
  CASE d.cls = "reg" ->
         IF d.ovf THEN [recs |-> recs, sent |-> <<>>, out |-> "raise"]
         ELSE LET r == MatchIncoming(recs, src, TRUE, <<>>, PKeys)
                  i == IdxOfId(r.recs, r.ret)
              IN [recs |-> [r.recs EXCEPT ![i].attrs[RegKey] = TrueV],
                  sent |-> <<Sent("reg_reply", AddrOf(r.recs[i].f["address_out"]), 0)>>, out |-> "ok"]
    [] d.cls \in {"rdac", "dmr"} ->
         IF ~IsRegistered(recs, src) THEN [recs |-> recs, sent |-> <<Sent("reject", src, 0)>>, out |-> "ok"]
         ELSE IF d.ovf THEN [recs |-> recs, sent |-> <<>>, out |-> "raise"]
         ELSE LET rec == recs[Find(recs, src)]
                  dst == AddrOf(rec.f["address_out"])
                  port == IF d.cls = "rdac" THEN RdacPort ELSE rec.f["address_in"].port
              IN [recs |-> recs,
                  sent |-> <<Sent("accept_" \o d.cls, dst, 0), Sent("redirect", dst, port)>>, out |-> "ok"]
    [] d.cls = "ping" ->
         IF ~IsRegistered(recs, src) THEN [recs |-> recs, sent |-> <<Sent("reject", src, 0)>>, out |-> "ok"]
         ELSE IF d.ovf THEN [recs |-> recs, sent |-> <<>>, out |-> "raise"]    \* 9..14 octets: data[14] = 1 raises
         ELSE [recs |-> recs, sent |-> <<Sent("ping_answer", src, 0)>>, out |-> "ok"]
    [] OTHER -> [recs |-> recs, sent |-> <<>>, out |-> "ok"]          \* ack, unk, garbage

\* environment: the operator configures the outbound address of a (possibly new) repeater
Configure(recs, src, outAddr) ==
  MatchIncoming(recs, src, TRUE, <<[k |-> "address_out", v |-> AddrV(outAddr)]>>, PKeys).recs

\* ---------------------------------------------------------------- (P) monitor
\* mon = set of source addresses whose registration completed earlier in the history
Served == {"accept_rdac", "accept_dmr", "redirect", "ping_answer", "unknown"}   \* anything but reject / registration reply
RegisteredAddrs(recs) == {AddrOf(recs[i].f["address_in"]) : i \in {j \in 1..Len(recs) : recs[j].attrs[RegKey] # NoneV}}

\* o = [sent, out, recs (after)]; pre = storage before (observed)
MonRecv(mon, pre, src, d, o) ==
  LET i == Find(pre, src)
      stored == IF i = 0 THEN src ELSE AddrOf(pre[i].f["address_out"])
      okDst == {stored, src}        \* "that repeater's stored outbound address or the requester"
      mon1 == IF d.cls = "reg" /\ o.out = "ok" THEN mon \cup {src} ELSE mon
      why ==
        IF \E k \in 1..Len(o.sent) : o.sent[k].kind \in Served /\ src \notin mon THEN "ServeOnlyRegistered"
        ELSE IF \E k \in 1..Len(o.sent) : o.sent[k].kind \in Served /\ o.sent[k].dst \notin okDst THEN "ServedDestination"
        ELSE IF \E k \in 1..Len(o.sent) : o.sent[k].kind \in Served /\ d.cls \notin {"rdac", "dmr", "ping"} THEN "ServeOnlyRequests"
        ELSE IF d.cls \in {"rdac", "dmr", "ping"} /\ src \notin mon /\ o.sent # <<Sent("reject", src, 0)>> THEN "RejectUnregistered"
        ELSE IF RegisteredAddrs(o.recs) # mon1 THEN "RegistrationOnlyByRegistration"
        ELSE "ok"
  IN <<mon1, why>>

JudgeEvent(recs, mon, e) ==
  IF e.op = "configure"
  THEN [why |-> "ok", dr |-> IF Configure(recs, e.src, e.cfg) # e.out.recs THEN "configure" ELSE "ok",
        mon |-> mon, recs |-> e.out.recs]
  ELSE LET r == Recv(recs, e.src, e.d)
           m == MonRecv(mon, recs, e.src, e.d, e.out)
       IN [why |-> m[2],
           dr |-> IF r.out # e.out.out THEN "outcome" ELSE IF r.recs # e.out.recs THEN "state"
                  ELSE IF r.sent # e.out.sent THEN "sent" ELSE "ok",
           mon |-> m[1], recs |-> e.out.recs]
=============================================================================
