------------------------------ MODULE Elements ------------------------------
(* Information-element enumerations: what the standard says about the values it does NOT   *)
(* define.  For an element named here every undefined value belongs to one of the standard's *)
(* catch-all classes (reserved / manufacturer specific); the class is named after the        *)
(* library member that represents it.  Elements that are total (every value defined) or      *)
(* for which the standard gives no fallback (the library raises) need no entry.  Feature set *)
(* id (9.3.13): 0x01..0x03 reserved for future standardisation, 0x80..0xFF reserved for      *)
(* future MFID allocation; 0x04..0x7F are manufacturer ids and the standard has NO reserved   *)
(* member for one the registry does not list - the class below names none, so only an error  *)
(* satisfies the rule there (the library folds them onto the first listed manufacturer,      *)
(* which the repository's own test asserts: recorded as a known finding, see DESIGN, C03).   *)
(* Sources: TS 102 361-1 9.3.6 (data type), 9.3.17 (DPF), 9.3.18 (SAP), 9.3.38 (DD format),  *)
(* 9.3.41? (UDT format); TS 102 361-2 B.3 / 361-4 B.2 (SLCO), 361-2 7.2.? (activity id);      *)
(* TS 102 361-3 7.2.4 (IP address id, UDP port id); TS 102 361-4 7.2.20 (announcement type).  *)
EXTENDS Naturals, Sequences

Cls(lo, hi, m) == [lo |-> lo, hi |-> hi, m |-> m]
ElementClasses == [
  FeatureSetIDs       |-> <<Cls(1, 3, "ReservedForFutureStandardization"), Cls(4, 127, "(no reserved member: error)"),
                            Cls(128, 255, "ReservedForFutureMFID")>>,
  DataPacketFormats   |-> <<Cls(0, 15, "Reserved")>>,
  DataTypes           |-> <<Cls(12, 15, "Reserved")>>,
  DefinedDataFormats  |-> <<Cls(0, 63, "Reserved")>>,
  SAPIdentifier       |-> <<Cls(0, 15, "Reserved")>>,
  ActivityID          |-> <<Cls(0, 15, "Reserved")>>,
  SLCOs               |-> <<Cls(4, 11, "Reserved"), Cls(12, 15, "ManufacturerSelectable")>>,
  UDTFormat           |-> <<Cls(8, 9, "ManufacturerSpecific"), Cls(11, 15, "Reserved")>>,
  AnnouncementType    |-> <<Cls(9, 29, "Reserved"), Cls(30, 31, "ManufacturerSpecific")>>,
  IPAddressIdentifier |-> <<Cls(2, 11, "Reserved"), Cls(12, 15, "ManufacturerSpecific")>>,
  UDPPortIdentifier   |-> <<Cls(3, 94, "Reserved"), Cls(95, 127, "ManufacturerSpecific")>> ]

\* the member an UNDEFINED value v of element e must be folded onto ("" = the standard is silent)
ClassOf(e, v) ==
  IF e \notin DOMAIN ElementClasses THEN ""
  ELSE LET cs == ElementClasses[e]
           hit == {i \in 1..Len(cs) : cs[i].lo <= v /\ v <= cs[i].hi}
       IN IF hit = {} THEN "" ELSE cs[CHOOSE i \in hit : TRUE].m

\* design sanity: classes of one element do not overlap
ClassesDisjoint == \A e \in DOMAIN ElementClasses : \A i, j \in 1..Len(ElementClasses[e]) :
                     i < j => ElementClasses[e][i].hi < ElementClasses[e][j].lo
=============================================================================
