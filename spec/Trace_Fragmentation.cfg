SPECIFICATION Spec
CONSTANTS
  GuardEndData = TRUE
  Crc32InEveryBlock = FALSE
ACTION_CONSTRAINT Report
CHECK_DEADLOCK FALSE
