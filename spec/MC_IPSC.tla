-------------------------------- MODULE MC_IPSC --------------------------------
(* C13: TLC decodes every frame itself (IPSC.tla) and judges the two decoders.      *)
EXTENDS IPSC, Json, IOUtils, TLC
D == JsonDeserialize(IOEnv.DATA_FILE)
VARIABLES chunk, idx
vars == <<chunk, idx>>
ChunkSize == 32
N == Len(D.samples)
Init == chunk \in 0..((N + ChunkSize - 1) \div ChunkSize - 1) /\ idx = -1
Next == idx = -1 /\ idx' \in (chunk * ChunkSize)..((chunk + 1) * ChunkSize - 1) /\ idx' < N /\ UNCHANGED chunk
Spec == Init /\ [][Next]_vars

Obs(o) == <<o.cls, o.bits, o.timeslot, o.seq, o.cc, o.src, o.dst, o.fsrc, o.fdst>>
Judge(i) ==
  LET s == D.samples[i + 1] IN
  IF ~WellFormed(s.frame) THEN "ok"                                     \* outside the statement
  ELSE IF s.a.err # "" THEN "DecodeFromBytes/" \o s.a.err
  ELSE IF s.b.err # "" THEN "DecodeFromParserObject/" \o s.b.err
  ELSE IF Obs(s.a) # Obs(s.b) THEN "BothDecodersAgree"
  ELSE IF s.a.cls # ClassOf(s.frame) THEN "BurstClass"
  ELSE IF s.a.fsrc # SourceOf(s.frame) \/ s.a.fdst # DestinationOf(s.frame) THEN "RadioIdsAsEncoded(24 bit)"
  \* the burst itself: its source is the frame's, and so is its target unless the frame says 0 (then the burst may guess
  \* the target from a CSBK / data-header address in its payload)
  ELSE IF s.a.src # SourceOf(s.frame) \/ s.a.dst # DestinationOf(s.frame) THEN "BurstIdsAsEncoded(24 bit)"        \* id 0 included
  ELSE IF s.a.cc # ColourOf(s.frame) THEN "ColourCodeAsEncoded(4 bit)"
  ELSE IF s.a.seq # SequenceOf(s.frame) \/ s.a.timeslot # TimeslotOf(s.frame) THEN "SequenceAndTimeslotAsEncoded"
  ELSE IF s.a.octets # BurstOctets(s.frame) THEN "PayloadBitsAsEncoded"
  ELSE IF s.a.reser # s.frame THEN "ReserialisedFrameIdentical(bytes path)/" \o s.a.reser_err
  ELSE IF s.b.reser # s.frame THEN "ReserialisedFrameIdentical(parser object path)/" \o s.b.reser_err
  ELSE "ok"
Report == LET w == Judge(idx') IN w # "ok" => PrintT(ToJson([tag |-> "REJECT", idx |-> idx', why |-> w]))
=============================================================================
