SPECIFICATION Spec
CONSTANTS
  N = 20
  TupleValid = FALSE
  Mode = "design"
INVARIANT Both
CHECK_DEADLOCK FALSE
