------------------------------ MODULE PDULayouts ------------------------------
(* Field layouts of the DMR layer-2/3 PDUs the library implements (ETSI TS 102 361-1      *)
(* clause 9, TS 102 361-2 clause 7, TS 102 361-3 clause 7, TS 102 361-4 clause 7), one per *)
(* opcode / format, in transmission order.  Names are the library's constructor keywords  *)
(* where a field maps one-to-one (the harness adapters say how the rest maps).            *)
EXTENDS Layout

U(f, w) == [f |-> f, w |-> w, k |-> "u", v |-> 0]
C(f, w, v) == [f |-> f, w |-> w, k |-> "c", v |-> v]
R(w) == [f |-> "reserved", w |-> w, k |-> "r", v |-> 0]
X(f, w) == [f |-> f, w |-> w, k |-> "x", v |-> 0]
\* a wide opaque field as n 16-bit limbs plus an optional shorter tail
Limbs(f, n, tail) == [i \in 1..n |-> U(f \o "_" \o ToString(i), 16)] \o (IF tail > 0 THEN <<U(f \o "_t", tail)>> ELSE <<>>)

\* ---------------------------------------------------------------- CSBK (96 bits)
CsbkHead(op) == <<U("last_block", 1), U("protect_flag", 1), C("csbko", 6, op), U("fid", 8)>>
CsbkTail == <<X("crc", 16)>>
Csbk(op, body) == CsbkHead(op) \o body \o CsbkTail

CSBK == [
  BSOutboundActivation |-> Csbk(56, <<R(16), U("bs_address", 24), U("source_address", 24)>>),
  UnitToUnitVoiceServiceRequest |-> Csbk(4, <<U("service_options", 8), R(8), U("target_address", 24), U("source_address", 24)>>),
  UnitToUnitVoiceServiceAnswerResponse |-> Csbk(5, <<U("service_options", 8), U("answer_response", 8), U("target_address", 24), U("source_address", 24)>>),
  NegativeAcknowledgementResponse |-> Csbk(38, <<U("additional_information_field", 1), U("source_type", 1), U("service_type", 6),
                                                 U("reason_code", 8), U("source_address", 24), U("target_address", 24)>>),
  PreambleCSBK |-> Csbk(61, <<U("data_follows", 1), U("target_is_group", 1), R(6), U("blocks_to_follow", 8),
                              U("target_address", 24), U("source_address", 24)>>),
  ChannelTimingCSBK |-> Csbk(7, <<U("sync_age", 11), U("generation", 5), U("leader_identifier", 20), U("new_leader", 1),
                                  U("leader_dynamic_identifier", 2), U("cto_hi", 1), U("source_identifier", 20), R(1),
                                  U("source_dynamic_identifier", 2), U("cto_lo", 1)>>),
  HyteraIPSCSync |-> Csbk(8, Limbs("raw_data", 4, 0)),
  AlohaPDUsForRandomAccessProtocol |-> Csbk(25, <<R(1), U("tsccas_support", 1), U("site_timeslot_synchronized", 1),
                                  U("document_version_control", 3), U("tscc_is_offset_timing", 1), U("ts_active_connection", 1),
                                  U("aloha_mask", 5), U("service_function", 2), U("nrand_wait", 4), U("tscc_reg_required", 1),
                                  U("tscc_backoff", 4), U("system_identity_code", 16), U("target_address", 24)>>),
  AnnouncementPDUsWithoutResponse |-> Csbk(40, <<U("announcement_type", 5), U("params1", 14), U("tscc_reg_required", 1),
                                  U("tscc_backoff", 4), U("system_identity_code", 16), U("params2", 24)>>) ]

\* ---------------------------------------------------------------- data headers (96 bits), clause 9.2.1 ... 9.2.12
HDR == [
  DataPacketConfirmed |-> <<U("is_group", 1), U("is_response_requested", 1), R(1), U("poc_hi", 1), C("dpf", 4, 3), U("sap", 4),
                            U("poc_lo", 4), U("llid_destination", 24), U("llid_source", 24), U("full_message_flag", 1),
                            U("blocks_to_follow", 7), U("resynchronize_flag", 1), U("send_sequence_number", 3),
                            U("fragment_sequence_number", 4), X("crc", 16)>>,
  DataPacketUnconfirmed |-> <<U("is_group", 1), U("is_response_requested", 1), R(1), U("poc_hi", 1), C("dpf", 4, 2), U("sap", 4),
                              U("poc_lo", 4), U("llid_destination", 24), U("llid_source", 24), U("full_message_flag", 1),
                              U("blocks_to_follow", 7), R(4), U("fragment_sequence_number", 4), X("crc", 16)>>,
  ResponsePacket |-> <<R(4), C("dpf", 4, 1), U("sap", 4), R(4), U("llid_destination", 24), U("llid_source", 24),
                       U("full_message_flag", 1), U("blocks_to_follow", 7), U("response_class", 2), U("response_type", 3),
                       U("response_status", 3), X("crc", 16)>>,
  ShortDataDefined |-> <<U("is_group", 1), U("is_response_requested", 1), U("ab_hi", 2), C("dpf", 4, 13), U("sap", 4), U("ab_lo", 4),
                         U("llid_destination", 24), U("llid_source", 24), U("defined_data_format", 6), U("sarq", 1),
                         U("full_message_flag", 1), U("bit_padding", 8), X("crc", 16)>>,
  UnifiedDataTransport |-> <<U("is_group", 1), U("is_response_requested", 1), U("is_emergency", 1), U("udt_option_flag", 1),
                             C("dpf", 4, 0), U("sap", 4), U("udt_format", 4), U("llid_destination", 24), U("llid_source", 24),
                             U("pad_nibbles_count", 5), R(1), U("appended_blocks", 2), U("supplementary_flag", 1), R(1),
                             U("udt_opcode", 6), X("crc", 16)>> ]

\* ---------------------------------------------------------------- full link control (72 + 24 / 72 + 5 bits)
FlcHead(op) == <<U("protect_flag", 1), R(1), C("flco", 6, op), U("fid", 8)>>
FLC(tail) == [
  GroupVoiceChannelUser |-> FlcHead(0) \o <<U("service_options", 8), U("group_address", 24), U("source_address", 24)>> \o tail,
  UnitToUnitVoiceChannelUser |-> FlcHead(3) \o <<U("service_options", 8), U("target_address", 24), U("source_address", 24)>> \o tail,
  GPSInfo |-> FlcHead(8) \o <<R(4), U("position_error", 3), U("longitude_raw", 25), U("latitude_raw", 24)>> \o tail,
  TalkerAliasHeader |-> FlcHead(4) \o <<U("talker_alias_data_format", 2), U("talker_alias_data_length", 5), U("talker_alias_data_msb", 1)>>
                        \o Limbs("talker_alias_data", 3, 0) \o tail,
  TalkerAliasBlock1 |-> FlcHead(5) \o Limbs("talker_alias_data", 3, 8) \o tail,
  TalkerAliasBlock2 |-> FlcHead(6) \o Limbs("talker_alias_data", 3, 8) \o tail,
  TalkerAliasBlock3 |-> FlcHead(7) \o Limbs("talker_alias_data", 3, 8) \o tail ]
FLC96 == FLC(<<U("crc_1", 16), U("crc_t", 8)>>)         \* Reed-Solomon parity: opaque 24 bits carried as given
FLC77 == FLC(<<U("crc_t", 5)>>)                         \* embedded LC: 5-bit checksum carried as given

\* ---------------------------------------------------------------- short link control (28 + 8 bits), CRC-8 sent LSB first
SLC == [
  NullMessage |-> <<C("slco", 4, 0), R(24), X("crc_8bit", 8)>>,
  ActivityUpdate |-> <<C("slco", 4, 1), U("ts1_activity_id", 4), U("ts2_activity_id", 4), U("ts1_address", 8), U("ts2_address", 8),
                       X("crc_8bit", 8)>> ]

\* ---------------------------------------------------------------- PI header
PI == [ PIHeader |-> Limbs("data", 5, 0) \o <<X("crc", 16)>> ]

\* ---------------------------------------------------------------- rate 1/2, 3/4, 1 data blocks: n octets
RateBlock(octets, conf, last) ==
  LET dataOct == octets - (IF conf THEN 2 ELSE 0) - (IF last THEN 4 ELSE 0)
  IN (IF conf THEN <<U("dbsn", 7), X("crc9", 9)>> ELSE <<>>)
     \o Limbs("data", dataOct \div 2, 8 * (dataOct % 2))
     \o (IF last THEN <<U("crc32_1", 16), U("crc32_2", 16)>> ELSE <<>>)
RateFamily(octets) == [ Unconfirmed |-> RateBlock(octets, FALSE, FALSE), Confirmed |-> RateBlock(octets, TRUE, FALSE),
                        UnconfirmedLastBlock |-> RateBlock(octets, FALSE, TRUE), ConfirmedLastBlock |-> RateBlock(octets, TRUE, TRUE) ]

\* ---------------------------------------------------------------- UDP/IPv4 compressed header (TS 102 361-3, 7.2.4)
UdpHead == <<U("ipv4_identification", 16), U("source_ip_address_id", 4), U("destination_ip_address_id", 4), R(1),
             U("udp_source_port_id", 7), R(1), U("udp_destination_port_id", 7)>>
UDP == [ UdpNoExt |-> UdpHead \o Limbs("user_data", 2, 0),
         UdpOneExt |-> UdpHead \o <<U("extended_header_1", 16)>> \o Limbs("user_data", 2, 0),
         UdpTwoExt |-> UdpHead \o <<U("extended_header_1", 16), U("extended_header_2", 16)>> \o Limbs("user_data", 2, 0) ]

\* ---------------------------------------------------------------- the catalogue: name -> [L, total]
Merge(A, B) == [k \in DOMAIN A \cup DOMAIN B |-> IF k \in DOMAIN A THEN A[k] ELSE B[k]]
Fam(p, A, total) == [k \in {p \o "/" \o x : x \in DOMAIN A} |->
                       [L |-> A[CHOOSE x \in DOMAIN A : p \o "/" \o x = k], total |-> total]]
All == Merge(Fam("CSBK", CSBK, 96), Merge(Fam("DataHeader", HDR, 96), Merge(Fam("FullLC96", FLC96, 96), Merge(Fam("FullLC77", FLC77, 77),
       Merge(Fam("ShortLC", SLC, 36), Merge(Fam("PI", PI, 96), Merge(Fam("Rate12Data", RateFamily(12), 96),
       Merge(Fam("Rate34Data", RateFamily(18), 144), Merge(Fam("Rate1Data", RateFamily(24), 192),
       Merge(Fam("UDP", [UdpNoExt |-> UDP.UdpNoExt], 72), Merge(Fam("UDP", [UdpOneExt |-> UDP.UdpOneExt], 88),
             Fam("UDP", [UdpTwoExt |-> UDP.UdpTwoExt], 104))))))))))))
=============================================================================
