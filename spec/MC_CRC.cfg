SPECIFICATION Spec
CONSTANTS
  MaxBits = 12
ACTION_CONSTRAINT Report
CHECK_DEADLOCK FALSE
