----------------------------- MODULE MC_BPTC19696 -----------------------------
(* C02: TLC enumerates ALL 196 + 19110 error patterns of weight <= 2, runs the repair     *)
(* model on each (design level) and judges what the real decoder did with the same        *)
(* pattern on the zero codeword and on a random codeword (observations); checks the 96    *)
(* basis codewords and logged random messages (encoder linearity, decode = message).      *)
EXTENDS BPTC19696, Json, IOUtils, TLC, FiniteSetsExt

D == JsonDeserialize(IOEnv.DATA_FILE)
SeqSet(s) == {s[j] : j \in 1..Len(s)}

VARIABLES phase, chunk, idx
vars == <<phase, chunk, idx>>
ChunkSize == 128
NPat == 196 + (196 * 195) \div 2

Size(ph) == CASE ph = "err" -> IF D.exhaustive THEN NPat ELSE Len(D.patidx)
              [] ph = "basis" -> 96 [] ph = "rand" -> Len(D.rand) [] ph = "struct" -> 196
Init == /\ phase \in {"err", "basis", "rand", "struct"}
        /\ chunk \in 0..((Size(phase) + ChunkSize - 1) \div ChunkSize - 1) /\ idx = -1
Next == /\ idx = -1 /\ idx' \in (chunk * ChunkSize)..((chunk + 1) * ChunkSize - 1) /\ idx' < Size(phase)
        /\ UNCHANGED <<phase, chunk>>
Spec == Init /\ [][Next]_vars

PairOf(i, n) ==
  LET F[a \in 0..(n - 1)] == IF a = 0 THEN 0 ELSE F[a - 1] + (n - a)
      a == CHOOSE x \in 0..(n - 2) : F[x] <= i /\ i < F[x] + (n - 1 - x)
  IN <<a, a + 1 + (i - F[a])>>
\* pattern number p: 0..195 single errors, then the pairs
Pattern(p) == IF p < 196 THEN {p} ELSE LET pr == PairOf(p - 196, 196) IN {pr[1], pr[2]}

MatrixOf(T) == Place(T, DeintF)
RowsOK(m) == \A r \in 0..12 : Syn(m[r], 15, D.h15) = 0
ColsOK(m) == \A c \in 0..14 : Syn(ColOf(m, c), 13, D.h13) = 0

\* verdict (on observations of the implementation) and drift (model vs observation)
Judge(ph, i) ==
  CASE ph = "err" ->
         LET p == IF D.exhaustive THEN i ELSE D.patidx[i + 1]
             o0 == SeqSet(D.obs0[i + 1])  oR == SeqSet(D.obsr[i + 1])
             res == ResidualInfoErrors(Pattern(p), DeintF, D.infopos, D.h15, D.h13)
         IN [why |-> IF o0 # {} THEN "UpToTwoErrorsCorrected(zero codeword)"
                     ELSE IF oR # {} THEN "UpToTwoErrorsCorrected(random codeword)" ELSE "ok",
             dr |-> IF res # o0 THEN "repair-model-differs" ELSE IF o0 # oR THEN "not-translation-invariant" ELSE "ok",
             design |-> IF res # {} THEN "design-leaves-info-errors" ELSE "ok"]
    [] ph = "basis" ->
         LET cw == SeqSet(D.basis[i + 1])
             m == MatrixOf(cw)
         IN [why |-> IF SeqSet(D.basisdec[i + 1]) # {i} THEN "DecodeOfEncodeIsMessage(repair)"
                     ELSE IF SeqSet(D.basisdecraw[i + 1]) # {i} THEN "DecodeOfEncodeIsMessage(no repair)"
                     ELSE "ok",
             dr |-> IF ~RowsOK(m) THEN "basis-row-not-hamming" ELSE IF ~ColsOK(m) THEN "basis-column-not-hamming" ELSE "ok",
             design |-> "ok"]
    [] ph = "rand" ->
         LET x == D.rand[i + 1]
             msg == SeqSet(x.msg)
             lin == FoldSet(LAMBDA b, acc : XorSets(acc, SeqSet(D.basis[b + 1])), {}, msg)
         IN [why |-> IF SeqSet(x.dec) # msg THEN "DecodeOfEncodeIsMessage(repair)"
                     ELSE IF SeqSet(x.decraw) # msg THEN "DecodeOfEncodeIsMessage(no repair)"
                     ELSE IF SeqSet(x.cw) # lin THEN "EncoderLinear"
                     ELSE IF x.len # 196 THEN "EncodesTo196Bits"
                     \* all 196 transmitted bits, the reserved ones included: x.rep = the codeword after repair
                     ELSE IF SeqSet(x.rep) # SeqSet(x.cw) THEN "ErrorFreeCodewordNeverAlteredByRepair"
                     ELSE IF x.drepdiff # <<>> THEN "ErrorFreeCodewordNeverAlteredByRepair(de-interleaved form)" ELSE "ok",
             dr |-> "ok", design |-> "ok"]
    [] ph = "struct" ->
         \* layout facts: the learned transmitted position of info bit i is the ETSI position of its matrix cell;
         \* deinterleave_all_bits (public, used only internally) maps position t to index DeintF[t]
         [why |-> "ok",
          dr |-> IF i < 96 /\ D.infopos[i + 1] # (InfoIndex(i) * 181) % 196 THEN "info-bit-position-differs-from-ETSI-layout"
                 ELSE IF D.deint[i + 1] # DeintF[i + 1] THEN "deinterleave_all_bits-is-not-the-ETSI-deinterleaver" ELSE "ok",
          design |-> "ok"]

Report ==
  LET j == Judge(phase, idx') IN
  /\ j.why # "ok" => PrintT(ToJson([tag |-> "REJECT", phase |-> phase, idx |-> idx', why |-> j.why]))
  /\ j.dr # "ok" => PrintT(ToJson([tag |-> "DRIFT", phase |-> phase, idx |-> idx', why |-> j.dr]))
  /\ j.design # "ok" => PrintT(ToJson([tag |-> "DESIGN", phase |-> phase, idx |-> idx', why |-> j.design]))
=============================================================================
