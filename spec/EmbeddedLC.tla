----------------------------- MODULE EmbeddedLC -----------------------------
(* Growth: reassembly of the embedded link control from voice bursts B..E                    *)
(* (tools/pcap_tool.py, EmbeddedExtractor).  A voice burst with embedded signalling carries   *)
(* a 32-bit fragment and an LCSS (first / continuation / last / single); four fragments of    *)
(* one superframe are the VBPTC(128,72) word of a 72-bit link control plus 5-bit checksum.    *)
(* The extractor keeps, per source key, the fragments collected so far:                       *)
(*   single-fragment and reverse-channel bursts are skipped, "first" starts afresh, every     *)
(*   other fragment is appended, and when 128 bits are there and the burst says "last" the    *)
(*   word is decoded and delivered.  The 5-bit checksum is NOT verified.                      *)
(* A fragment is [lcss, pi, g, k]: fragment k (0..3) of link control g (identities stand for  *)
(* the 32 bits).                                                                              *)
EXTENDS Integers, Sequences, FiniteSets

Frag(l, pi, g, k) == [lcss |-> l, pi |-> pi, g |-> g, k |-> k]
Collected(st, key) == IF key \in DOMAIN st THEN st[key] ELSE <<>>
Put(st, key, v) == [x \in DOMAIN st \cup {key} |-> IF x = key THEN v ELSE st[x]]

\* process_packet: returns [st, out]; out = <<>> (nothing) or the four fragments that are decoded and delivered
Step(st, key, f) ==
  IF f.lcss = "S" \/ f.pi THEN [st |-> st, out |-> <<>>]
  ELSE LET prev == IF f.lcss = "F" THEN <<>> ELSE Collected(st, key)
           now == Append(prev, [g |-> f.g, k |-> f.k])
       IN [st |-> Put(st, key, now), out |-> IF Len(now) = 4 /\ f.lcss = "L" THEN now ELSE <<>>]

Genuine(out) == \E g \in {out[1].g} : \A i \in 1..4 : out[i] = [g |-> g, k |-> i - 1]
=============================================================================
