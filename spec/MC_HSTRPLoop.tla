---------------------------- MODULE MC_HSTRPLoop ----------------------------
(* Two handlers wired back to back through FIFO channels; up to Inject datagrams are    *)
(* injected by the environment.  Liveness: eventually only heartbeats are in flight     *)
(* ("two handlers cannot ping-pong").  No state constraint; weak fairness on delivery.  *)
EXTENDS HSTRPHandler

CONSTANTS Inject

VARIABLES hs, q, budget
vars == <<hs, q, budget>>

Peers == {1, 2}
Other(p) == 3 - p

F(s) == [opt |-> "opt" \in s, rej |-> "rej" \in s, close |-> "close" \in s, conn |-> "conn" \in s,
         hb |-> "hb" \in s, ack |-> "ack" \in s]
M(fl, sn, optlen, payload, radio) ==
  [valid |-> TRUE, clean |-> TRUE, f |-> F(fl), sn |-> sn, optlen |-> optlen, payload |-> payload, radio |-> radio]
Garbage == [valid |-> FALSE, clean |-> FALSE, f |-> NoFlags, sn |-> 0, optlen |-> 0, payload |-> "none", radio |-> ""]

Injectable == { M({"conn"}, 0, 0, "none", ""), M({"close"}, 0, 0, "none", ""), M({"hb"}, 0, 0, "none", ""),
                M({}, 7, 0, "none", ""), M({"opt"}, 1, 9, "rrs_req", "10.0.0.1"), M({"rej"}, 7, 0, "none", "") }

\* how a datagram sent by one handler is decoded by the other: the registration answer is a data message with an RRS
\* payload that is neither a request nor a going-offline notice
AsReceived(d) ==
  [valid |-> TRUE, clean |-> TRUE, f |-> d.f, sn |-> d.sn, optlen |-> d.optlen,
   payload |-> IF d.payload = "rrs_answer" THEN "rrs_other" ELSE "none", radio |-> IF d.payload = "rrs_answer" THEN d.radio ELSE ""]

Init == hs = [p \in Peers |-> InitH] /\ q = [p \in Peers |-> <<>>] /\ budget = Inject

Inj(p, m) == /\ budget > 0 /\ budget' = budget - 1
             /\ q' = [q EXCEPT ![p] = Append(@, m)] /\ UNCHANGED hs

Deliver(p) ==
  /\ q[p] # <<>>
  /\ LET r == Recv(hs[p], Head(q[p]))
         out == [i \in 1..Len(r.sent) |-> AsReceived(r.sent[i])]
     IN /\ hs' = [hs EXCEPT ![p] = [r.h EXCEPT !.sn = 0]]     \* the counter does not influence behaviour
        /\ q' = [q EXCEPT ![p] = Tail(@), ![Other(p)] = @ \o out]
  /\ UNCHANGED budget

Next == \E p \in Peers : Deliver(p) \/ \E m \in Injectable : Inj(p, m)
Spec == Init /\ [][Next]_vars /\ \A p \in Peers : WF_vars(Deliver(p))

OnlyHeartbeats == \A p \in Peers : \A i \in 1..Len(q[p]) : q[p][i].f.hb /\ ~q[p][i].f.ack
NoPingPong == <>[](budget = 0 => OnlyHeartbeats)
Quiesces == <>(budget = 0 => OnlyHeartbeats)
BoundedQueues == \A p \in Peers : Len(q[p]) <= Inject + 2
=============================================================================
