SPECIFICATION Spec
CONSTANTS
  Lose = 1
  Swap = 1
  Dup = 1
  InLoop = FALSE
INVARIANT CompletesAtMostOnce
INVARIANT CompletionMeansIdentified
INVARIANT StepsInRange
ACTION_CONSTRAINT Report
CHECK_DEADLOCK FALSE
