------------------------------ MODULE BPTC19696 ------------------------------
(* Block product turbo code (196,96): ETSI TS 102 361-1 B.1.1, fec/bptc_196_96.py.        *)
(* 13 x 15 matrix; row r (0..12) is a 15-bit integer (column 0 = most significant bit);   *)
(* deinterleaved index k = 0 is R(3) (outside the matrix), k >= 1 sits at row (k-1) \div  *)
(* 15, column (k-1) % 15; rows 0..8 are Hamming(15,11,3) words, all 15 columns are        *)
(* Hamming(13,9,3) words; transmitted position t carries deinterleaved index Deint[t].    *)
(* (B) learned through the public API: Deint (from deinterleave_all_bits on unit vectors),*)
(*     InfoPos (transmitted positions of the 96 info bits, in message order), the parity  *)
(*     check columns of both Hamming codes (from generate on unit messages), Basis (the   *)
(*     96 codewords encode(e_i) as sets of transmitted positions).                        *)
(* (D) the repair procedure as a pass sequence over the ERROR pattern (linearity): row    *)
(*     pass = Hamming(15,11) syndrome decoding of a row, column pass = Hamming(13,9)       *)
(*     syndrome decoding of a column.  Order "nested" = the pinned code (all column       *)
(*     passes inside every iteration of the row loop), "rows-then-columns" = repaired.    *)
EXTENDS Integers, Sequences, FiniteSets, Bitwise, Folds, SequencesExt

CONSTANT NestedPasses

Bit(w, i) == (w \div (2 ^ i)) % 2
XorAll(S, f(_)) == MapThenFoldSet(LAMBDA a, b : a ^^ b, 0, f, LAMBDA T : CHOOSE x \in T : TRUE, S)

\* syndrome decoding with parity-check columns hcol[1..n] (hcol[j] = syndrome of an error in position j,
\* position 1 = most significant bit): flips the position whose column equals the syndrome, if any
Syn(w, n, hcol) == XorAll({j \in 1..n : Bit(w, n - j) = 1}, LAMBDA j : hcol[j])
Fix(w, n, hcol) ==
  LET s == Syn(w, n, hcol) IN
  IF s = 0 THEN w
  ELSE LET hit == {j \in 1..n : hcol[j] = s}
       IN IF hit = {} THEN w ELSE w ^^ (2 ^ (n - (CHOOSE j \in hit : TRUE)))

\* matrix helpers: m \in [0..12 -> 0..2^15-1]
ColOf(m, c) == XorAll({r \in 0..12 : Bit(m[r], 14 - c) = 1}, LAMBDA r : 2 ^ (12 - r))   \* column as 13-bit word
SetCol(m, c, w) == [r \in 0..12 |-> IF Bit(m[r], 14 - c) = Bit(w, 12 - r) THEN m[r] ELSE m[r] ^^ (2 ^ (14 - c))]

RowPass(m, r, h15) == [m EXCEPT ![r] = Fix(m[r], 15, h15)]
ColPass(m, c, h13) == SetCol(m, c, Fix(ColOf(m, c), 13, h13))
AllCols(m, h13) == FoldLeft(LAMBDA acc, c : ColPass(acc, c, h13), m, [i \in 1..15 |-> i - 1])

\* BPTC19696.repair_if_necessary on the matrix
Repair(m, h15, h13) ==
  IF NestedPasses
  THEN FoldLeft(LAMBDA acc, r : AllCols(RowPass(acc, r, h15), h13), m, [i \in 1..13 |-> i - 1])
  ELSE AllCols(FoldLeft(LAMBDA acc, r : RowPass(acc, r, h15), m, [i \in 1..13 |-> i - 1]), h13)

\* ETSI B.1.1: the bit with deinterleaved (matrix order) index k is transmitted at position k * 181 mod 196
DeintF == [t \in 1..196 |-> CHOOSE k \in 0..195 : (k * 181) % 196 = t - 1]      \* DeintF[t + 1] = index carried by position t
\* matrix-order indices of the 96 info bits: rows 0..8, columns 0..10, without R(2..0) at the start of row 0
InfoIndex(i) == LET j == i + 3 IN 1 + 15 * (j \div 11) + (j % 11)               \* i = 0..95

ZeroMatrix == [r \in 0..12 |-> 0]
\* place a set of transmitted positions into the matrix (position with Deint = 0 is R(3): no cell)
Place(T, deint) ==
  [r \in 0..12 |-> XorAll({t \in T : deint[t + 1] >= 1 /\ (deint[t + 1] - 1) \div 15 = r},
                          LAMBDA t : 2 ^ (14 - ((deint[t + 1] - 1) % 15)))]
\* info positions (indices 0..95) whose matrix cell is set
InfoSet(m, deint, infopos) ==
  {i \in 0..95 : LET k == deint[infopos[i + 1] + 1] IN Bit(m[(k - 1) \div 15], 14 - ((k - 1) % 15)) = 1}

\* the property for an error pattern T (set of transmitted positions) on any codeword:
\* after repair no info bit is wrong
ResidualInfoErrors(T, deint, infopos, h15, h13) == InfoSet(Repair(Place(T, deint), h15, h13), deint, infopos)

XorSets(A, B) == (A \ B) \cup (B \ A)
=============================================================================
