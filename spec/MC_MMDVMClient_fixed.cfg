SPECIFICATION FairSpec
CONSTANTS
 ResendInRespSent = TRUE
 MaxLoss = 1
 MaxForget = 1
 MaxDrop = 0
 MaxDmr = 1
 Impatient = FALSE
 MaxFlight = 4
INVARIANT Bounded
PROPERTY EventuallyInSync
CHECK_DEADLOCK FALSE
