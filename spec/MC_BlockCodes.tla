----------------------------- MODULE MC_BlockCodes -----------------------------
(* Exhaustive evaluation of the C06 clauses for every code, on data learned from the      *)
(* implementation by exhaustive calls:                                                    *)
(*   Codes[c] = [name, n, k, d, g, r, ext, hamming, rows, genall, accepted, fix1, fix2true]*)
(*   genall[m+1]  = generate(m) for ALL 2^k messages                                       *)
(*   accepted     = ALL words (of 2^n) for which check() returned true                     *)
(*   fix1         = flat triples (word, status, out) of check_and_correct on ALL codewords *)
(*                  with ALL single errors (Hamming codes)                                 *)
(*   fix2true     = words among ALL codeword+double-error words of the extended code for   *)
(*                  which check_and_correct claimed success                                *)
(* TLC enumerates the domains itself (chunked, all workers) and prints one REJECT line per *)
(* failing item instead of stopping.                                                       *)
EXTENDS BlockCodes, Json, IOUtils, TLC

Codes == JsonDeserialize(IOEnv.DATA_FILE)
NCodes == Len(Codes)
ToSet(s) == {s[j] : j \in 1..Len(s)}
AccSet  == [cc \in 1..NCodes |-> ToSet(Codes[cc].accepted)]       \* evaluated once
Fix2Set == [cc \in 1..NCodes |-> ToSet(Codes[cc].fix2true)]
\* codeword test through the exhaustively learned (and, in phase "gen", verified) encoder table
IsCW(C, w) == C.genall[DataOf(w, C.n, C.k) + 1] = w

VARIABLES c, phase, chunk, idx
vars == <<c, phase, chunk, idx>>

ChunkSize == 4096
Phases == {"gen", "word", "fix1", "fix2"}

Size(cc, ph) ==
  LET C == Codes[cc] IN
  CASE ph = "gen"  -> 2 ^ C.k
    [] ph = "word" -> 2 ^ C.n
    [] ph = "fix1" -> Len(C.fix1) \div 3
    [] ph = "fix2" -> IF C.ext THEN (2 ^ C.k) * ((C.n * (C.n - 1)) \div 2) ELSE 0

Init == /\ c \in 1..Len(Codes) /\ phase \in Phases
        /\ chunk \in 0..((Size(c, phase) + ChunkSize - 1) \div ChunkSize - 1)
        /\ idx = -1

Next == /\ idx = -1
        /\ idx' \in (chunk * ChunkSize)..((chunk + 1) * ChunkSize - 1)
        /\ idx' < Size(c, phase)
        /\ UNCHANGED <<c, phase, chunk>>
Spec == Init /\ [][Next]_vars

\* the i-th pair a < b of 0..n-1 (for double errors)
PairOf(i, n) ==
  LET F[a \in 0..(n - 1)] == IF a = 0 THEN 0 ELSE F[a - 1] + (n - a)      \* pairs before first element a
      a == CHOOSE x \in 0..(n - 2) : F[x] <= i /\ i < F[x] + (n - 1 - x)
  IN <<a, a + 1 + (i - F[a])>>

Why(cc, ph, i) ==
  LET C == Codes[cc] IN
  CASE ph = "gen" ->
         LET cw == C.genall[i + 1] IN
         IF cw # Enc(C.rows, C.k, i) THEN "EncoderLinearInRows"
         ELSE IF DataOf(cw, C.n, C.k) # i THEN "Systematic"
         ELSE IF cw \notin AccSet[cc] THEN "EncoderOutputPassesChecker"
         ELSE IF i # 0 /\ Weight(cw, C.n) < C.d THEN "MinimumDistance"
         ELSE "ok"
    [] ph = "word" ->
         IF (i \in AccSet[cc]) # IsCW(C, i) THEN "CheckerAcceptsExactlyTheCode" ELSE "ok"
    [] ph = "fix1" ->
         LET w == C.fix1[3 * i + 1]  st == C.fix1[3 * i + 2]  out == C.fix1[3 * i + 3]
             \* the codeword at distance 1: flip each position and test
             near == {p \in 0..(C.n - 1) : IsCW(C, w ^^ (2 ^ p))}
         IN IF Cardinality(near) # 1 THEN "HarnessSingleErrorWord"
            ELSE IF st # 1 \/ out # (w ^^ (2 ^ (CHOOSE p \in near : TRUE))) THEN "SingleErrorRepaired"
            ELSE "ok"
    [] ph = "fix2" ->
         LET m == i \div ((C.n * (C.n - 1)) \div 2)
             pr == PairOf(i % ((C.n * (C.n - 1)) \div 2), C.n)
             w == (C.genall[m + 1] ^^ (2 ^ pr[1])) ^^ (2 ^ pr[2])
         IN IF w \in Fix2Set[cc] THEN "DoubleErrorReported" ELSE "ok"

\* (D) informational: learned rows equal the shortened-cyclic definition
DriftOf(cc) ==
  LET C == Codes[cc] IN
  IF C.g = 0 THEN "ok"
  ELSE IF \E i \in 1..C.k : C.rows[i] # CyclicEnc(2 ^ (C.k - i), C.g, C.r, C.n, C.ext) THEN "rows-differ-from-polynomial" ELSE "ok"

Report ==
  /\ LET w == Why(c, phase, idx') IN
       w # "ok" => PrintT(ToJson([tag |-> "REJECT", code |-> Codes[c].name, phase |-> phase, idx |-> idx', why |-> w]))
  /\ (phase = "gen" /\ idx' = 0 /\ DriftOf(c) # "ok") =>
       PrintT(ToJson([tag |-> "DRIFT", code |-> Codes[c].name, why |-> DriftOf(c)]))
=============================================================================
