------------------------------- MODULE Watcher -------------------------------
(* TransmissionWatcher (transmission/transmission_watcher.py) on top of the tracker of      *)
(* Transmission.tla: bursts are routed by their target radio id to one Terminal per target, *)
(* created on first use (two timeslots each, each drawing a stream token when created);     *)
(* a burst without a resolvable target is dropped; end_all_transmissions ends every open    *)
(* transmission of every terminal.                                                          *)
(*   terms : sequence (creation order, as the dict iterates) of [id, slots <<s1, s2>>]      *)
(*   mons  : same order, [id, mon <<m1, m2>>] - the C08 property monitors per terminal/slot *)
EXTENDS Transmission, FiniteSets

IdsOf(ts) == {ts[k].id : k \in 1..Len(ts)}
IndexOf(ts, id) == CHOOSE k \in 1..Len(ts) : ts[k].id = id
Has(ts, id) == id \in IdsOf(ts)

FreshMon(tok) == [InitMon EXCEPT !.maxStream = tok]

\* ensure_terminal: Terminal.__init__ builds timeslot 1 then 2, each Transmission draws a token
Ensure2(terms, tok, id) ==
  IF Has(terms, id) THEN [terms |-> terms, tok |-> tok]
  ELSE [terms |-> Append(terms, [id |-> id, slots |-> <<InitSlot(tok + 1), InitSlot(tok + 2)>>]), tok |-> tok + 2]
EnsureMon(mons, tokAfter, id) ==
  IF Has(mons, id) THEN mons ELSE Append(mons, [id |-> id, mon |-> <<FreshMon(tokAfter), FreshMon(tokAfter)>>])

\* process_burst with a target: returns [terms, tok, out]
WBurst(terms, tok, id, ts, b) ==
  LET e == Ensure2(terms, tok, id)
      k == IndexOf(e.terms, id)
      r == SlotStep(e.terms[k].slots[ts], e.tok, b)
  IN [terms |-> [e.terms EXCEPT ![k].slots[ts] = r.slot], tok |-> r.tok, out |-> r.out]

\* end_all_transmissions: terminals in creation order, timeslot 1 then 2; events concatenated
RECURSIVE EndAllFrom(_, _, _, _)
EndAllFrom(terms, tok, n, ev) ==          \* n = 0 .. 2*Len(terms)-1 : next (terminal, slot) to end
  IF n >= 2 * Len(terms) THEN [terms |-> terms, tok |-> tok, ev |-> ev]
  ELSE LET k == n \div 2 + 1
           ts == n - 2 * (n \div 2) + 1
           r == SlotEndAll(terms[k].slots[ts], tok)
       IN EndAllFrom([terms EXCEPT ![k].slots[ts] = r.slot], r.tok, n + 1, ev \o r.out.ev)
WEndAll(terms, tok) == EndAllFrom(terms, tok, 0, <<>>)

OpenCount(mons) == Cardinality({<<k, ts>> \in (1..Len(mons)) \X {1, 2} : mons[k].mon[ts].open # "None"})
EndedCount(ev) == Cardinality({i \in 1..Len(ev) : ev[i].e = "ended"})

\* ---------------------------------------------------------------- judging a recorded watcher call
\* e = [tgt, ts, op, b, out, post, obs]; op \in {"burst", "notarget", "endall"}
\* post = [terms, tok] projected after the call.  Returns [why, dr, mons].
JudgeWatcher(terms, tok, mons, e) ==
  CASE e.op = "burst" ->
         LET en  == Ensure2(terms, tok, e.tgt)
             k   == IndexOf(en.terms, e.tgt)
             ms  == EnsureMon(mons, en.tok, e.tgt)
             km  == IndexOf(ms, e.tgt)
             pk  == IF Has(e.post.terms, e.tgt) THEN IndexOf(e.post.terms, e.tgt) ELSE 0
             j   == IF pk = 0 THEN [why |-> "TerminalPerTarget", dr |-> "ok", mon |-> ms[km].mon]
                    ELSE JudgeEvent(en.terms[k].slots, en.tok, ms[km].mon,
                                    [ts |-> e.ts, op |-> "burst", b |-> e.b, out |-> e.out, obs |-> e.obs,
                                     post |-> [slots |-> e.post.terms[pk].slots, tok |-> e.post.tok]])
             others == \A q \in 1..Len(terms) : terms[q].id # e.tgt =>
                          \E p \in 1..Len(e.post.terms) : e.post.terms[p] = terms[q]
         IN [why |-> IF j.why # "ok" THEN j.why
                     ELSE IF IdsOf(e.post.terms) # IdsOf(terms) \cup {e.tgt} THEN "TerminalPerTarget"
                     ELSE IF ~others THEN "TerminalsSeparate" ELSE "ok",
             dr  |-> IF j.dr # "ok" THEN j.dr
                     ELSE IF [q \in 1..Len(e.post.terms) |-> e.post.terms[q].id] # [q \in 1..Len(en.terms) |-> en.terms[q].id]
                          THEN "terminal-order" ELSE "ok",
             mons |-> [ms EXCEPT ![km].mon = j.mon], ext |-> "ok"]
    [] e.op = "notarget" ->
         \* dropping logs repr(burst).  Every parseable burst is covered, also those of data types the library has no payload
         \* class for (idle, MBC, USBD - class "OTHER"): their rendering used to raise, which had first been recorded as an
         \* observation outside the listed properties; the statement says "every sequence of parseable bursts ... never fails"
         [why |-> IF e.out.outcome # "ok" THEN "NeverFails"
                  ELSE IF e.out.ev # <<>> \/ e.post.terms # terms THEN "BurstWithoutTargetIsDropped" ELSE "ok",
          dr |-> IF e.post.tok # tok THEN "token" ELSE "ok", mons |-> mons,
          ext |-> "ok"]
    [] OTHER ->          \* endall
         LET r == WEndAll(terms, tok)
             same == Len(e.post.terms) = Len(terms) /\ \A q \in 1..Len(terms) : e.post.terms[q].id = terms[q].id
             \* an end draws a fresh stream token for the slot (new_transmission), nothing else does here
             EndedHere(q, ts) == e.post.terms[q].slots[ts].tx.stream # terms[q].slots[ts].tx.stream
             nEnded == Cardinality({<<q, ts>> \in (1..Len(terms)) \X {1, 2} : EndedHere(q, ts)})
             mq(q) == mons[IndexOf(mons, terms[q].id)].mon
         IN [why |-> IF e.out.outcome # "ok" THEN "NeverFails"
                     ELSE IF ~same THEN "TerminalPerTarget"
                     ELSE IF EndedCount(e.out.ev) # nEnded THEN "EndMatchesOpenStart"
                     ELSE IF \E q \in 1..Len(terms) : \E ts \in {1, 2} : EndedHere(q, ts) /\ mq(q)[ts].open = "None"
                          THEN "EndMatchesOpenStart"
                     ELSE "ok",
             dr  |-> IF r.terms # e.post.terms THEN "state" ELSE IF r.tok # e.post.tok THEN "token"
                     ELSE IF r.ev # e.out.ev THEN "output" ELSE "ok",
             \* the code restarts each ended sequence one burst late (see Transmission.tla, `deferred`)
             mons |-> IF ~same THEN mons ELSE
                      [p \in 1..Len(mons) |->
                        LET q == IndexOf(terms, mons[p].id) IN
                        [mons[p] EXCEPT !.mon = [ts \in {1, 2} |->
                           [mons[p].mon[ts] EXCEPT !.open = IF EndedHere(q, ts) THEN "None" ELSE @, !.run = "None",
                                                   !.deferred = EndedHere(q, ts) \/ @,
                                                   !.maxStream = IF e.post.terms[q].slots[ts].tx.stream > @
                                                                 THEN e.post.terms[q].slots[ts].tx.stream ELSE @]]]],
             ext |-> "ok"]
=============================================================================
