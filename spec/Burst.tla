--------------------------------- MODULE Burst ---------------------------------
(* Layer-2 burst: ETSI TS 102 361-1 clause 6 / 9.1, layer2/burst.py.                      *)
(* 264 bits = info(98) slot(10) centre(48) slot(10) info(98) for data/control bursts,     *)
(*            voice(108) centre(48) voice(108) for vocoder bursts.                        *)
(* centre = one of the ten SYNC patterns, or EMB(8) embedded(32) EMB(8).                  *)
(* slot(20) = colour code(4) data type(4) Golay(20,8,7) parity(12);                       *)
(* info(196) = BPTC(196,96) of the 96-bit PDU (PI header, voice LC header / terminator,   *)
(* CSBK, data header, rate 1/2 data ...), rate 3/4 trellis of 144 bits, or the 192 rate-1 *)
(* bits with four zero bits in the middle.                                                *)
EXTENDS Integers, Sequences, FiniteSets, Bitwise, Folds, SequencesExt

BitAt(s, i) == (s[(i \div 16) + 1] \div (2 ^ (15 - (i % 16)))) % 2
Bit(x, i) == (x \div (2 ^ i)) % 2

\* SYNC patterns (table 9.2) as three 16-bit limbs
Sync == [ BsSourcedVoice |-> <<30047, 55263, 30199>>, BsSourcedData |-> <<57333, 32117, 57181>>,
          MsSourcedVoice |-> <<32637, 24021, 32253>>, MsSourcedData |-> <<54743, 63359, 55127>>,
          MsSourcedRcSync |-> <<30677, 24445, 64887>>, Tdma1Voice |-> <<23895, 32631, 22527>>,
          Tdma1Data |-> <<63485, 54749, 64853>>, Tdma2Voice |-> <<32255, 54773, 23903>>,
          Tdma2Data |-> <<55125, 32607, 63477>>, Reserved |-> <<56703, 62935, 22493>> ]
VoiceSyncs == {"BsSourcedVoice", "MsSourcedVoice", "Tdma1Voice", "Tdma2Voice"}
DataSyncs == {"BsSourcedData", "MsSourcedData", "Tdma1Data", "Tdma2Data"}
SyncBit(name, i) == (Sync[name][(i \div 16) + 1] \div (2 ^ (15 - (i % 16)))) % 2          \* i = 0..47

\* classification of a received burst by its centre and the burst type the caller announces
\* (Burst.__init__): centre = sync name or "EmbeddedSignalling"; bt in {"Undefined", "Vocoder", "DataAndControl"}
Classify(centre, bt) ==
  LET start == centre \in VoiceSyncs
      dsync == centre \in DataSyncs
      bt1 == IF start THEN "Vocoder" ELSE bt
  IN [is_voice_superframe_start |-> start,
      is_vocoder |-> (start \/ bt1 = "Vocoder") /\ ~dsync,
      is_data_or_control |-> bt1 = "DataAndControl" \/ dsync,
      has_emb |-> centre = "EmbeddedSignalling" /\ ~start,
      has_slot_type |-> bt1 = "DataAndControl" \/ dsync]

\* positions
SlotBit(burst, j) == IF j < 10 THEN BitAt(burst, 98 + j) ELSE BitAt(burst, 156 + (j - 10))        \* j = 0..19
InfoBit(burst, j) == IF j < 98 THEN BitAt(burst, j) ELSE BitAt(burst, 166 + (j - 98))               \* j = 0..195
CentreBit(burst, j) == BitAt(burst, 108 + j)                                                       \* j = 0..47
EmbBit(burst, j) == IF j < 8 THEN BitAt(burst, 108 + j) ELSE BitAt(burst, 148 + (j - 8))            \* j = 0..15

\* slot type word for (colour, data type) with learned Golay rows (rows[i] = generate(unit i), 20-bit integers)
XorAll(S, f(_)) == MapThenFoldSet(LAMBDA a, b : a ^^ b, 0, f, LAMBDA T : CHOOSE x \in T : TRUE, S)
GolayWord(rows, cc, dt) == LET m == cc * 16 + dt IN XorAll({i \in 1..8 : Bit(m, 8 - i) = 1}, LAMBDA i : rows[i])
QrWord(rows, cc, pi, lcss) == LET m == cc * 8 + pi * 4 + lcss IN XorAll({i \in 1..7 : Bit(m, 7 - i) = 1}, LAMBDA i : rows[i])

\* no SYNC pattern can be mistaken for embedded signalling: its outer 8 + 8 bits are not a QR(16,7,6) word
OuterWord(name) == (Sync[name][1] \div 256) * 256 + (Sync[name][3] % 256)
QrData(w) == w \div 512
\* ... and how close valid embedded signalling can come to one: the voice bursts whose centre (EMB, 32 embedded bits, EMB)
\* is nearest to a SYNC pattern carry the pattern's middle 32 bits and an EMB word at this distance from its outer bits
Weight(x) == Cardinality({i \in 0..15 : Bit(x, i) = 1})
EmbSyncDistance(qr, cc, pi, lcss, name) == Weight(QrWord(qr, cc, pi, lcss) ^^ OuterWord(name))
NearSync(qr, maxd) ==
  LET all == { [cc |-> cc, pi |-> pi, lcss |-> lcss, sync |-> n, dist |-> EmbSyncDistance(qr, cc, pi, lcss, n),
                mid |-> <<(Sync[n][1] % 256) * 256 + Sync[n][2] \div 256, (Sync[n][2] % 256) * 256 + Sync[n][3] \div 256>>] :
               cc \in 0..15, pi \in 0..1, lcss \in 0..3, n \in DOMAIN Sync }
  IN {r \in all : r.dist <= maxd}
NoSyncLooksLikeEmb(qr) == \A n \in DOMAIN Sync :
                             LET w == OuterWord(n) IN QrWord(qr, QrData(w) \div 8, (QrData(w) \div 4) % 2, QrData(w) % 4) # w
=============================================================================
