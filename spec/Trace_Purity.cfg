SPECIFICATION Spec
CONSTANTS
  GetTokenEditsTable = FALSE
ACTION_CONSTRAINT Report
CHECK_DEADLOCK FALSE
