SPECIFICATION Spec
CONSTANTS
 ResendInRespSent = FALSE
 MaxLoss = 0
 MaxForget = 0
 MaxDrop = 1
 MaxDmr = 1
 Impatient = FALSE
 MaxFlight = 4
INVARIANT Bounded
PROPERTY DmrOnlyWhenLoggedIn
CHECK_DEADLOCK FALSE
