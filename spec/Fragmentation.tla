---------------------------- MODULE Fragmentation ----------------------------
(* Data transmission generator (transmission_generator.py) composed with the receiving    *)
(* tracker (Transmission.tla).                                                            *)
(* Sender side from ETSI TS 102 361-1, 8.2.0 and Table 8.1 (octets per data block), in    *)
(* integer arithmetic and independent of the code; receiver side = the tracker model      *)
(* unchanged plus the typed re-parse (which block type the receiver assumes, and over     *)
(* which parts it recomputes the CRC-9).                                                  *)
EXTENDS Transmission, FiniteSets

CONSTANT Crc32InEveryBlock  \* TRUE: the pinned generator hands the payload CRC-32 to every
                            \* block constructor, so the CRC-9 of non-last confirmed blocks
                            \* is computed over data+crc32+dbsn; FALSE: repaired generator

\* Table 8.1: octets per data block / per last data block
Per(rate, conf) ==
  CASE rate = "R12" -> IF conf THEN 10 ELSE 12
    [] rate = "R34" -> IF conf THEN 16 ELSE 18
    [] rate = "R1"  -> IF conf THEN 22 ELSE 24
PerLast(rate, conf) == Per(rate, conf) - 4          \* the last block carries the 32-bit CRC

\* N = number of data blocks: smallest N >= 1 with (N-1)*per + last >= L
NBlocks(L, rate, conf) ==
  LET per == Per(rate, conf)  lst == PerLast(rate, conf)
  IN IF L <= lst THEN 1 ELSE 1 + ((L - lst) + per - 1) \div per
Pad(L, rate, conf) ==
  (NBlocks(L, rate, conf) - 1) * Per(rate, conf) + PerLast(rate, conf) - L

\* what a CRC-9 is computed over
Crc9Parts(withCrc32) == IF withCrc32 THEN {"data", "crc32", "dbsn"} ELSE {"data", "dbsn"}

\* the burst sequence the generator produces for a configuration c = [L, rate, conf, p]
\* (ids = positions; block records carry what the sender put into them)
Bursts(c) ==
  LET N == NBlocks(c.L, c.rate, c.conf)
  IN [k \in 1..(c.p + 1 + N) |->
        IF k <= c.p
        THEN [cls |-> "PRE", id |-> k, btf |-> N + c.p + 1 - k, a |-> FALSE, cc |-> 1,
              len |-> 0, last |-> FALSE, crc9 |-> {}]
        ELSE IF k = c.p + 1
        THEN [cls |-> "DH", id |-> k, btf |-> N, a |-> c.conf, cc |-> 1,
              len |-> 0, last |-> FALSE, crc9 |-> {}]
        ELSE LET isLast == (k = c.p + 1 + N)
             IN [cls |-> c.rate, id |-> k, btf |-> 0, a |-> FALSE, cc |-> 1,
                 len |-> IF isLast THEN PerLast(c.rate, c.conf) ELSE Per(c.rate, c.conf),
                 last |-> isLast,
                 crc9 |-> IF c.conf THEN Crc9Parts(isLast \/ Crc32InEveryBlock) ELSE {}]]

\* receiver's view of a rate block given the tracker state before the burst
RecvLen(rate, conf, last) == IF last THEN PerLast(rate, conf) ELSE Per(rate, conf)
RecvBlock(tx, b) ==
  LET last == IsLast(tx, 1)
  IN [id |-> b.id, len |-> RecvLen(b.cls, tx.confirmed, last), conf |-> tx.confirmed, last |-> last,
      crc9ok |-> (~tx.confirmed) \/ (b.crc9 = Crc9Parts(last))]

\* ---------------------------------------------------------------- expectations (P level)
\* fin = summary of one generated-and-received transmission:
\*   [nbursts, preBtfs, hdrBtf, hdrPad, started, ended, endedBlocks (ids), blocks (seq of RecvBlock-like
\*    records of the rate blocks handed over), dataOk, crc32Ok]
SeqSum(s) == LET F[i \in 0..Len(s)] == IF i = 0 THEN 0 ELSE F[i - 1] + s[i] IN F[Len(s)]

FinWhy(c, fin) ==
  LET N == NBlocks(c.L, c.rate, c.conf)
      pad == Pad(c.L, c.rate, c.conf)
  IN IF fin.nbursts # c.p + 1 + N THEN "BurstCount"
     ELSE IF fin.preBtfs # [k \in 1..c.p |-> N + c.p + 1 - k] THEN "PreambleCountdown"
     ELSE IF fin.hdrBtf # N \/ fin.hdrPad # pad THEN "HeaderAnnouncement"
     ELSE IF fin.started # 1 THEN "ExactlyOneStarted"
     ELSE IF fin.ended # 1 THEN "ExactlyOneEnded"
     ELSE IF Len(fin.blocks) # N THEN "BlockCount"
     ELSE IF \E k \in 1..N : fin.blocks[k].last # (k = N) \/ fin.blocks[k].conf # c.conf THEN "BlockTypes"
     ELSE IF SeqSum([k \in 1..N |-> fin.blocks[k].len]) # c.L + pad THEN "PayloadPlusPadLength"
     ELSE IF ~fin.dataOk THEN "PayloadPlusPadBytes"
     ELSE IF ~fin.crc32Ok THEN "Crc32Matches"
     ELSE IF \E k \in 1..N : ~fin.blocks[k].crc9ok THEN "Crc9Valid"
     ELSE IF \E k \in 1..Len(fin.ccs) : fin.ccs[k] # fin.cc THEN "EveryBurstCarriesTheColourCode"     \* quantifier: x colour codes
     ELSE "ok"
=============================================================================
