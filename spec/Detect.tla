------------------------------- MODULE Detect -------------------------------
(* Growth beyond the listed properties: protocol detection of utils/parsing.py as a decision  *)
(* table.  parse_hytera_data looks at the first octets of a datagram and hands it to one      *)
(* decoder; try_parse_packet first refuses "USRP", tries the MMDVM/Homebrew decoder (13 four-  *)
(* letter command prefixes) and then parse_hytera_data.  d is a sequence of octets.           *)
EXTENDS Integers, Sequences

Oct(d, i) == d[i + 1]                       \* Python index i
AllZeroUpTo(d, n) == \A i \in 0..(n - 1) : i < Len(d) => Oct(d, i) = 0        \* int.from_bytes(d[0:n], "little") = 0
IsPrefix4(d, a, b, c, e) == Len(d) >= 4 /\ Oct(d, 0) = a /\ Oct(d, 1) = b /\ Oct(d, 2) = c /\ Oct(d, 3) = e

\* parse_hytera_data: the decoder that is selected ("IndexError": the colour-code test reads octet 21 of a 21-octet datagram)
Hytera(d) ==
  IF Len(d) < 2 THEN "IpSiteConnectHeartbeat"
  ELSE IF Oct(d, 0) = 50 /\ Oct(d, 1) = 66 THEN "HSTRP"                   \* "2B"
  ELSE IF Oct(d, 0) = 126 THEN "HRNP"                                    \* 0x7E
  ELSE IF Oct(d, 0) \div 64 = 2 THEN "RTP"                               \* version bits 10
  ELSE IF AllZeroUpTo(d, 8) \/ IsPrefix4(d, 90, 90, 90, 90) THEN
          (IF Len(d) >= 9 /\ Oct(d, 5) = 0 /\ Oct(d, 6) = 0 /\ Oct(d, 7) = 0 /\ Oct(d, 8) = 20 THEN "IpSiteConnectHeartbeat" ELSE "IPSC")
  ELSE IF Len(d) = 21 THEN "IndexError"
  ELSE IF Len(d) >= 22 /\ Oct(d, 20) = Oct(d, 21) THEN
          (IF Oct(d, 5) = 0 /\ Oct(d, 6) = 0 /\ Oct(d, 7) = 0 /\ Oct(d, 8) = 20 THEN "IpSiteConnectHeartbeat" ELSE "IPSC")
  ELSE "HDAP"

\* the thirteen command prefixes the MMDVM decoder knows, as octet quadruples
MmdvmPrefixes == { <<82,80,84,76>>, <<68,77,82,71>>, <<82,80,84,65>>, <<82,80,84,75>>, <<82,80,84,67>>, <<68,77,82,68>>, <<77,83,84,67>>,
                   <<82,80,84,80>>, <<82,80,84,79>>, <<77,83,84,80>>, <<82,80,84,83>>, <<77,83,84,78>>, <<68,77,82,65>> }
IsMmdvmPrefix(d) == Len(d) >= 4 /\ <<Oct(d, 0), Oct(d, 1), Oct(d, 2), Oct(d, 3)>> \in MmdvmPrefixes

\* try_parse_packet: who is asked first ("None" = refused outright)
First(d) == IF IsPrefix4(d, 85, 83, 82, 80) THEN "None"                   \* "USRP"
            ELSE IF IsMmdvmPrefix(d) THEN "MMDVM" ELSE Hytera(d)

\* ---- what the formats themselves promise about their first octets (HyteraFraming.tla, IPSC.tla)
\* HDAP: service octet (0x02 RCP, 0x08 LP, 0x09 TMP, 0x11 RRS, 0x12 TP, 0x13 DTP, 0x14 DDS), bit 7 = reliable
HdapService == {2, 8, 9, 17, 18, 19, 20}
LooksLikeHdap(d) == Len(d) >= 7 /\ (Oct(d, 0) % 128) \in HdapService
LooksLikeHstrp(d) == Len(d) >= 6 /\ Oct(d, 0) = 50 /\ Oct(d, 1) = 66 /\ Oct(d, 2) = 0
LooksLikeHrnp(d) == Len(d) >= 12 /\ Oct(d, 0) = 126
LooksLikeIpsc(d) == Len(d) = 72 /\ Oct(d, 2) = 90 /\ Oct(d, 3) = 90 /\ Oct(d, 20) = Oct(d, 21)

\* design questions TLC answers on a domain of structured prefixes (see MC_Detect):
OwnHstrpRecognised(d) == LooksLikeHstrp(d) => Hytera(d) = "HSTRP"
OwnHrnpRecognised(d) == LooksLikeHrnp(d) => Hytera(d) = "HRNP"
OwnHdapRecognised(d) == LooksLikeHdap(d) => Hytera(d) = "HDAP"
OwnIpscRecognised(d) == LooksLikeIpsc(d) => Hytera(d) = "IPSC"
HyteraNeverClaimsMmdvm(d) == IsMmdvmPrefix(d) => First(d) = "MMDVM"
=============================================================================
