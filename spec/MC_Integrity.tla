------------------------------ MODULE MC_Integrity ------------------------------
EXTENDS Integrity, Json, IOUtils, TLC

D == JsonDeserialize(IOEnv.DATA_FILE)
SeqSet(s) == {s[j] : j \in 1..Len(s)}
SlotAcc == SeqSet(D.slot_accepted)          \* all 20-bit words whose parsed indicator was true
EmbAcc == SeqSet(D.emb_accepted)

VARIABLES phase, chunk, idx
vars == <<phase, chunk, idx>>
ChunkSize == 4096
Size(ph) == CASE ph = "slot" -> 2 ^ 20 [] ph = "emb" -> 2 ^ 16 [] ph = "rt" -> Len(D.rt) [] ph = "cor" -> Len(D.cor)
\* D.phases: the exhaustive word phases and the round trips are judged in the first run only, corruption records in slices
Init == /\ phase \in SeqSet(D.phases)
        /\ chunk \in 0..((Size(phase) + ChunkSize - 1) \div ChunkSize - 1) /\ idx = -1
Next == idx = -1 /\ idx' \in (chunk * ChunkSize)..((chunk + 1) * ChunkSize - 1) /\ idx' < Size(phase) /\ UNCHANGED <<phase, chunk>>
Spec == Init /\ [][Next]_vars

Why(ph, i) ==
  CASE ph = "slot" -> IF (i \in SlotAcc) # IsCodeword(D.golay, 20, 8, i) THEN "SlotTypeIndicatorIsMembership" ELSE "ok"
    [] ph = "emb" -> IF (i \in EmbAcc) # IsCodeword(D.qr, 16, 7, i) THEN "EmbIndicatorIsMembership" ELSE "ok"
    [] ph = "rt" -> IF ~D.rt[i + 1].ok THEN "SerialisedThenParsedIndicatorTrue" ELSE "ok"
    [] ph = "cor" -> CorruptionWhy(D.cor[i + 1])

Report == LET w == Why(phase, idx') IN
          w # "ok" => PrintT(ToJson([tag |-> "REJECT", phase |-> phase, idx |-> idx', why |-> w]))
=============================================================================
