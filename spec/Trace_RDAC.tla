------------------------------ MODULE Trace_RDAC ------------------------------
(* Code -> spec for the RDAC handler: event = [ip, d, out]                             *)
(*   out = [st (step dictionary after), nsent, done, doneIsPeer, out]                  *)
EXTENDS RDAC, Json, IOUtils
Traces == JsonDeserialize(IOEnv.TRACE_FILE)
VARIABLES tid, l, st, why, dr
vars == <<tid, l, st, why, dr>>
Init == tid \in 1..Len(Traces) /\ l = 0 /\ st = Traces[tid].init /\ why = "ok" /\ dr = "ok"
Step ==
  /\ l < Len(Traces[tid].ev)
  /\ LET e == Traces[tid].ev[l + 1]
         r == JudgeEvent(st, e)
     IN /\ l' = l + 1 /\ tid' = tid /\ st' = r.st
        /\ why' = IF why # "ok" THEN why ELSE r.why
        /\ dr' = IF dr # "ok" THEN dr ELSE r.dr
Done == l = Len(Traces[tid].ev) /\ UNCHANGED vars
Next == Step \/ Done
Spec == Init /\ [][Next]_vars
Report ==
  /\ (why' # "ok" /\ why = "ok") => PrintT(ToJson([tag |-> "REJECT", tid |-> tid, l |-> l', why |-> why']))
  /\ (dr' # "ok" /\ dr = "ok") => PrintT(ToJson([tag |-> "DRIFT", tid |-> tid, l |-> l', why |-> dr']))
=============================================================================
