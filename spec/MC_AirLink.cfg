SPECIFICATION ASpec
CONSTANTS
  GuardEndData = TRUE
  Crc32InEveryBlock = FALSE
  MaxL = 26
  LStride = 1
  Preambles = {0, 1}
  ExtraL = {}
  Noise = {0, 2, 3}
INVARIANT NoiseInvisible
INVARIANT TrackerSurvivesLoss
INVARIANT LossOnlyShortens
CHECK_DEADLOCK FALSE
