--------------------------------- MODULE CRC ---------------------------------
(* DMR CRCs: ETSI TS 102 361-1 B.3.7 - B.3.10, B.3.12; etsi/crc/crc.py, crc8/9/16/32.py.   *)
(* Values up to 32 bits are pairs <<hi, lo>> of 16-bit limbs (TLC integers are 32 bit).   *)
(* (P) Rem(bits, n, w): remainder of message(x) * x^w modulo g_w(x), computed WITHOUT a   *)
(*     register, as the superposition of the remainders of the unit messages:             *)
(*     Rem = XOR over set bits of x^(degree + w) mod g, from a table of x^k mod g.        *)
(* (D) the bit-by-bit register and the table driven register (feed width rule, short last *)
(*     chunk handled bit by bit), and the front ends: CRC-8 plain; CRC-9 over data o      *)
(*     [crc32] o 7-bit DBSN, inverted, xor mask; CRC-CCITT inverted, xor mask; CRC-32 over *)
(*     the octets with each 16-bit word byte-swapped, octets most significant bit first.  *)
EXTENDS Integers, Sequences, FiniteSets, Bitwise, SequencesExt

BitAt(s, i) == (s[(i \div 16) + 1] \div (2 ^ (15 - (i % 16)))) % 2        \* packed bit string, i = 0 first bit

Widths == {7, 8, 9, 16, 32}
Poly(w) == CASE w = 7 -> <<0, 39>> [] w = 8 -> <<0, 7>> [] w = 9 -> <<0, 89>> [] w = 16 -> <<0, 4129>>
             [] w = 32 -> <<1217, 7607>>                                   \* 0x04C11DB7

X2(a, b) == <<a[1] ^^ b[1], a[2] ^^ b[2]>>
Zero == <<0, 0>>
\* most significant bit of a w-bit value, and the value shifted left by one within w bits
Top(v, w) == IF w > 16 THEN (v[1] \div (2 ^ (w - 17))) % 2 ELSE (v[2] \div (2 ^ (w - 1))) % 2
Shl(v, w) == IF w > 16 THEN <<((v[1] * 2) % (2 ^ (w - 16))) + (v[2] \div 32768), (v[2] * 2) % 65536>>
             ELSE <<0, (v[2] * 2) % (2 ^ w)>>
\* multiplication by x modulo g_w
XTimes(v, w) == IF Top(v, w) = 1 THEN X2(Shl(v, w), Poly(w)) ELSE Shl(v, w)

MaxDeg == 560
\* XPow(w)[k + 1] = x^k mod g_w, k = 0..MaxDeg
XPowTable(w) == FoldLeft(LAMBDA acc, k : Append(acc, XTimes(acc[Len(acc)], w)), << <<0, 1>> >>, [i \in 1..MaxDeg |-> i])
XP7 == XPowTable(7)
XP8 == XPowTable(8)
XP9 == XPowTable(9)
XP16 == XPowTable(16)
XP32 == XPowTable(32)
XPow(w) == CASE w = 7 -> XP7 [] w = 8 -> XP8 [] w = 9 -> XP9 [] w = 16 -> XP16 [] w = 32 -> XP32

\* (P) the remainder of bits[0..n-1] (first bit = highest degree) times x^w
Rem(bits, n, w) ==
  LET T == XPow(w) IN
  FoldLeft(LAMBDA acc, i : IF BitAt(bits, i - 1) = 1 THEN X2(acc, T[(n - i) + w + 1]) ELSE acc, Zero, [i \in 1..n |-> i])

\* ---------------------------------------------------------------- (D) registers
Feed(reg, bit, w) == LET top == (Top(reg, w) + bit) % 2
                     IN IF top = 1 THEN X2(Shl(reg, w), Poly(w)) ELSE Shl(reg, w)
BitwiseRegister(bits, n, w) == FoldLeft(LAMBDA r, i : Feed(r, BitAt(bits, i - 1), w), Zero, [i \in 1..n |-> i])

FeedWidth(w) == IF w % 8 = 0 THEN 8
                ELSE LET C == {c \in 2..15 : w % c = 0} IN IF C = {} THEN 1 ELSE CHOOSE c \in C : \A d \in C : d <= c
\* table entry: the register run over the f bits of the index starting from zero
IntBit(x, f, j) == (x \div (2 ^ (f - j))) % 2                     \* j = 1 first (most significant) bit of an f-bit value
TableEntry(i, w) == LET f == FeedWidth(w) IN FoldLeft(LAMBDA r, j : Feed(r, IntBit(i, f, j), w), Zero, [j \in 1..f |-> j])
\* reg >> (w - f) and reg << f (within w bits)
HighBits(reg, w, f) == IF w > 16 THEN reg[1] \div (2 ^ (w - 16 - f)) ELSE reg[2] \div (2 ^ (w - f))
ShlF(reg, w, f) == IF w > 16 THEN <<((reg[1] % (2 ^ (w - 16 - f))) * (2 ^ f)) + (reg[2] \div (2 ^ (16 - f))), (reg[2] * (2 ^ f)) % 65536>>
                   ELSE <<0, (reg[2] * (2 ^ f)) % (2 ^ w)>>
ChunkVal(bits, start, f) == FoldLeft(LAMBDA a, j : 2 * a + BitAt(bits, start + j - 1), 0, [j \in 1..f |-> j])
TableStep(reg, chunk, w) == LET f == FeedWidth(w) IN X2(TableEntry(chunk ^^ HighBits(reg, w, f), w), ShlF(reg, w, f))
\* full chunks through the table, a short last chunk bit by bit
TableRegister(bits, n, w) ==
  LET f == FeedWidth(w)
      full == n \div f
      r1 == FoldLeft(LAMBDA r, c : TableStep(r, ChunkVal(bits, (c - 1) * f, f), w), Zero, [c \in 1..full |-> c])
  IN FoldLeft(LAMBDA r, i : Feed(r, BitAt(bits, i - 1), w), r1, [i \in 1..(n - full * f) |-> full * f + i])

\* ---------------------------------------------------------------- front ends
Invert(v, w) == IF w > 16 THEN <<(2 ^ (w - 16) - 1) - v[1], 65535 - v[2]>> ELSE <<0, (2 ^ w - 1) - v[2]>>
Crc8(bits, n) == Rem(bits, n, 8)
CrcCcitt(bits, n, mask) == X2(Invert(Rem(bits, n, 16), 16), <<0, mask>>)
Crc9(bits, n, mask) == X2(Invert(Rem(bits, n, 9), 9), <<0, mask>>)
Crc32(bits, n) == Rem(bits, n, 32)          \* on the word-swapped octets (the swap is done by SwapOctets)

\* octet sequences: 16-bit word swap of an octet string (an odd last octet stays)
SwapOctets(o) == [i \in 1..Len(o) |-> IF i % 2 = 1 THEN (IF i + 1 <= Len(o) THEN o[i + 1] ELSE o[i]) ELSE o[i - 1]]
\* pack octets into 16-bit chunks
PackOctets(o) == [k \in 1..((Len(o) + 1) \div 2) |-> o[2 * k - 1] * 256 + (IF 2 * k <= Len(o) THEN o[2 * k] ELSE 0)]

\* ---------------------------------------------------------------- detection capability (design level)
ConstantTermOne(w) == Poly(w)[2] % 2 = 1        \* => every burst no longer than w is detected
\* CRC-CCITT over 96 bits (80 + 16): unit remainders non-zero, distinct, no two xor to a third
\* => every error of weight 1..3 within a 96-bit PDU changes the remainder
UnitRem(k) == XP16[k + 1]
Weight123Detected96 ==
  /\ \A a \in 0..95 : UnitRem(a) # Zero
  /\ \A a, b \in 0..95 : a < b => UnitRem(a) # UnitRem(b)
  /\ \A a, b \in 0..95 : a < b => LET ab == X2(UnitRem(a), UnitRem(b)) IN \A c \in (b + 1)..95 : ab # UnitRem(c)
=============================================================================
