SPECIFICATION Spec
INVARIANT Judge
CHECK_DEADLOCK FALSE
