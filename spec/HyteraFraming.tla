------------------------------ MODULE HyteraFraming ------------------------------
(* Hytera application framing: hytera/pdu/hdap.py, hrnp.py, hstrp.py.                     *)
(* HDAP  : service(1: bit 7 = reliable, low 7 bits = service) opcode(2) length(2, in the  *)
(*         protocol's endianness: RCP little, the others big) payload checksum(1) 0x03    *)
(*         checksum = ((~sum(opcode .. payload)) + 0x33) & 0xFF                            *)
(* HRNP  : 0x7E version block opcode source destination packet_number(2) length(2)        *)
(*         checksum(2) data;  length = 12 + |data|;  checksum = ones complement of the    *)
(*         ones-complement sum of the 16-bit words of header (checksum skipped) and data  *)
(* HSTRP : "2B" version type(1) sn(2) options payload; options only when bit 5 of type is *)
(*         set (and the heartbeat bit is not): TLV chain, bit 7 of the tag = another      *)
(*         option follows                                                                 *)
EXTENDS Integers, Sequences, SequencesExt

Sum(s) == FoldLeft(LAMBDA a, b : a + b, 0, s)
Services == [RRS |-> 17, LP |-> 8, TMP |-> 9, RCP |-> 2]

HdapChecksum(frame) == ((255 - (Sum(SubSeq(frame, 2, Len(frame) - 2)) % 256)) + 51) % 256
HdapLength(frame, little) == IF little THEN frame[4] + 256 * frame[5] ELSE 256 * frame[4] + frame[5]

HdapWhy(frame, proto, reliable, little, reported) ==
  IF Len(frame) < 7 THEN "HdapFrameTooShort"
  ELSE IF frame[1] # Services[proto] + (IF reliable THEN 128 ELSE 0) THEN "ServiceByteCarriesReliableFlag"
  ELSE IF HdapLength(frame, little) # Len(frame) - 7 THEN "LengthFieldEqualsPayloadLength"
  ELSE IF frame[Len(frame) - 1] # HdapChecksum(frame) THEN "ChecksumReproducible"
  ELSE IF frame[Len(frame)] # 3 THEN "Terminator0x03"
  ELSE IF reported # Len(frame) THEN "ReportedLengthIsOctetsProduced"
  ELSE "ok"

\* ones-complement sum of 16-bit big-endian words (odd tail padded with 0), folded to 16 bits
Words(s) == [k \in 1..((Len(s) + 1) \div 2) |-> 256 * s[2 * k - 1] + (IF 2 * k <= Len(s) THEN s[2 * k] ELSE 0)]
Fold16(x) == LET a == (x % 65536) + (x \div 65536) IN (a % 65536) + (a \div 65536)
HrnpChecksum(pkt) == 65535 - Fold16(Sum(Words(SubSeq(pkt, 1, 10) \o SubSeq(pkt, 13, Len(pkt)))))

HrnpWhy(pkt, inner) ==
  IF Len(pkt) < 12 THEN "HrnpTooShort"
  ELSE IF pkt[1] # 126 THEN "HrnpHeader0x7E"
  ELSE IF 256 * pkt[9] + pkt[10] # Len(pkt) \/ Len(pkt) # 12 + Len(inner) THEN "HrnpLengthIs12PlusPayload"
  ELSE IF 256 * pkt[11] + pkt[12] # HrnpChecksum(pkt) THEN "HrnpChecksumVerifies"
  ELSE IF SubSeq(pkt, 13, Len(pkt)) # inner THEN "HrnpCarriesThePdu"
  ELSE "ok"

\* HSTRP: opts = sequence of [tag, data]
OptionChain(opts) ==
  FoldLeft(LAMBDA acc, i : acc \o <<opts[i].tag + (IF i < Len(opts) THEN 128 ELSE 0), Len(opts[i].data)>> \o opts[i].data,
           <<>>, [i \in 1..Len(opts) |-> i])
HstrpWhy(pkt, sn, opts, inner) ==
  LET chain == OptionChain(opts) IN
  IF Len(pkt) < 6 \/ SubSeq(pkt, 1, 2) # <<50, 66>> THEN "HstrpHeader2B"
  ELSE IF 256 * pkt[5] + pkt[6] # sn THEN "HstrpSequenceNumber"
  ELSE IF (Len(opts) > 0) # ((pkt[4] \div 32) % 2 = 1) THEN "HstrpOptionFlag"
  ELSE IF SubSeq(pkt, 7, 6 + Len(chain)) # chain THEN "HstrpOptionChainWithContinuationBits"
  ELSE IF SubSeq(pkt, 7 + Len(chain), Len(pkt)) # inner THEN "HstrpCarriesThePdu"
  ELSE "ok"
=============================================================================
