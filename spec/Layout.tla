-------------------------------- MODULE Layout --------------------------------
(* Generic fixed-layout bit codec used by the PDU specifications (C03, C01, C12 ...).     *)
(* A layout is a sequence of field descriptors                                            *)
(*    [f |-> name, w |-> width, k |-> kind, v |-> value]                                  *)
(* kind "u": unsigned field carried by the PDU; "c": constant (opcode etc., value v);     *)
(* "r": reserved bits, written as 0 and ignored by the decoder; "x": check value (CRC,    *)
(* parity) computed by the PDU class - opaque here.                                       *)
(* Field values are records name -> natural number; wide fields (> 30 bits) are split by  *)
(* the PDU specifications into limbs so that every value fits a TLC integer.              *)
EXTENDS Integers, Sequences, FiniteSets, SequencesExt

Width(L) == FoldLeft(LAMBDA a, d : a + d.w, 0, L)
Offset(L, i) == FoldLeft(LAMBDA a, d : a + d.w, 0, SubSeq(L, 1, i - 1))       \* first bit of field i (0-based)
Names(L) == {L[i].f : i \in {j \in 1..Len(L) : L[j].k = "u"}}

\* well-formed: positive widths, distinct names of carried fields, total width as required
WellFormed(L, total) ==
  /\ \A i \in 1..Len(L) : L[i].w >= 1 /\ L[i].k \in {"u", "c", "r", "x"}
  /\ \A i, j \in 1..Len(L) : (L[i].k = "u" /\ L[j].k = "u" /\ L[i].f = L[j].f) => i = j
  /\ \A i \in 1..Len(L) : L[i].k = "c" => L[i].v \in 0..(2 ^ L[i].w - 1)
  /\ Width(L) = total

\* bits of a natural number, most significant first
NatBits(x, w) == [b \in 1..w |-> (x \div (2 ^ (w - b))) % 2]
BitsNat(s) == FoldLeft(LAMBDA a, b : 2 * a + b, 0, s)

\* encoder: check fields are given by the caller (chk: name -> value)
Enc(L, vals, chk) ==
  FoldLeft(LAMBDA acc, d : acc \o NatBits(CASE d.k = "u" -> vals[d.f] [] d.k = "c" -> d.v [] d.k = "r" -> 0 [] d.k = "x" -> chk[d.f], d.w),
           <<>>, L)

\* decoder: value of every carried field
Dec(L, bits) == [n \in Names(L) |->
                   LET i == CHOOSE j \in 1..Len(L) : L[j].k = "u" /\ L[j].f = n
                   IN BitsNat(SubSeq(bits, Offset(L, i) + 1, Offset(L, i) + L[i].w))]

\* does the bit string carry the constants of the layout (opcode match)
Matches(L, bits) == \A i \in 1..Len(L) : L[i].k = "c" =>
                       BitsNat(SubSeq(bits, Offset(L, i) + 1, Offset(L, i) + L[i].w)) = L[i].v

InRange(L, vals) == \A i \in 1..Len(L) : L[i].k = "u" => vals[L[i].f] \in 0..(2 ^ L[i].w - 1)

\* the design-level round trip
RoundTrip(L, vals, chk) == Dec(L, Enc(L, vals, chk)) = vals

\* packed bit strings (sequences of 16-bit integers) as exchanged with the harness
BitAt(s, i) == (s[(i \div 16) + 1] \div (2 ^ (15 - (i % 16)))) % 2
Unpack(s, n) == [b \in 1..n |-> BitAt(s, b - 1)]
\* value of field i of layout L read from a packed bit string
FieldOf(L, s, i) == FoldLeft(LAMBDA a, b : 2 * a + BitAt(s, Offset(L, i) + b - 1), 0, [b \in 1..L[i].w |-> b])
=============================================================================
