---------------------------- MODULE Trace_Startup ----------------------------
(* Growth: the repeater start-up sequence across BOTH handlers sharing one RepeaterStorage  *)
(* (registration and RDAC / DMR requests on the P2P handler, the RDAC identification run on  *)
(* the RDAC handler).  An event is one datagram_received call on one of the two handlers:    *)
(*   [h = "p2p", op, src, d, cfg, out = [sent, out, recs]]      (as in Trace_P2P)            *)
(*   [h = "rdac", ip, src, d, out = [st, nsent, done, doneIsPeer, out], recs]  (as Trace_RDAC *)
(*                                  plus the storage after the call)                         *)
(* The property monitors of P2P.tla and RDAC.tla judge the events of their handler; between  *)
(* them the storage is followed as observed.  Cross-handler clauses: an RDAC step touches    *)
(* only the record of its own source address, creates at most that record, and never makes   *)
(* anybody registered.                                                                       *)
EXTENDS Integers, Sequences, FiniteSets, TLC, Json, IOUtils
CONSTANTS P2PPort, RdacPort
P == INSTANCE P2P
R == INSTANCE RDAC

Traces == JsonDeserialize(IOEnv.TRACE_FILE)
VARIABLES tid, l, recs, mon, st, why, dr
vars == <<tid, l, recs, mon, st, why, dr>>
Init == tid \in 1..Len(Traces) /\ l = 0 /\ recs = <<>> /\ mon = {} /\ st = <<>> /\ why = "ok" /\ dr = "ok"

Registered(r) == r.attrs[P!RegKey] # P!NoneV
Own(r, src) == r.f["address_in"] = P!AddrV(src)

RdacStorageWhy(pre, post, src) ==
  IF Len(post) < Len(pre) THEN "RdacTouchesOnlyOwnRecord"
  ELSE IF \E i \in 1..Len(pre) : ~Own(pre[i], src) /\ post[i] # pre[i] THEN "RdacTouchesOnlyOwnRecord"
  ELSE IF Len(post) # Len(pre) + (IF \E i \in 1..Len(pre) : Own(pre[i], src) THEN 0 ELSE 1) THEN "RdacCreatesOnlyOwnRecord"
  ELSE IF \E i \in 1..Len(post) : Registered(post[i]) /\ ~(i <= Len(pre) /\ Registered(pre[i])) THEN "RegistrationOnlyByRegistration"
  ELSE "ok"

Step ==
  /\ l < Len(Traces[tid].ev)
  /\ LET e == Traces[tid].ev[l + 1] IN
     IF e.h = "p2p"
     THEN LET r == P!JudgeEvent(recs, mon, e)
          IN /\ recs' = r.recs /\ mon' = r.mon /\ st' = st
             /\ why' = IF why # "ok" THEN why ELSE r.why
             /\ dr' = IF dr # "ok" THEN dr ELSE r.dr
     ELSE LET r == R!JudgeEvent(st, e)
              w == IF r.why # "ok" THEN r.why ELSE RdacStorageWhy(recs, e.recs, e.src)
          IN /\ recs' = e.recs /\ mon' = mon /\ st' = r.st
             /\ why' = IF why # "ok" THEN why ELSE w
             /\ dr' = IF dr # "ok" THEN dr ELSE r.dr
  /\ l' = l + 1 /\ tid' = tid
Done == l = Len(Traces[tid].ev) /\ UNCHANGED vars
Next == Step \/ Done
Spec == Init /\ [][Next]_vars
Report ==
  /\ (why' # "ok" /\ why = "ok") => PrintT(ToJson([tag |-> "REJECT", tid |-> tid, l |-> l', why |-> why']))
  /\ (dr' # "ok" /\ dr = "ok") => PrintT(ToJson([tag |-> "DRIFT", tid |-> tid, l |-> l', why |-> dr']))
=============================================================================
