---------------------------- MODULE MC_HSTRPClient ----------------------------
(* Growth beyond the listed properties: tools/hrnp_client.py HRNPClient.go - the client    *)
(* that opens one registration-service endpoint per timeslot (two RRSDatagramProtocol      *)
(* handlers, the active peers of MC_HSTRPActive) and starts their periodic maintenance.    *)
(* Sequential = TRUE is the code as written: `await create_task(first.periodic_maintenance *)
(* ())` - the maintenance coroutine never returns, so the statement after it (the second   *)
(* service's maintenance) is never reached.  Sequential = FALSE is what the two endpoints  *)
(* suggest: both maintenances run.                                                         *)
EXTENDS Integers

CONSTANTS Sequential, MaxWake

Services == {1, 2}
VARIABLES started, connects
vars == <<started, connects>>

Init == started = {} /\ connects = [s \in Services |-> 0]

Go == /\ started = {}
      /\ started' = IF Sequential THEN {1} ELSE Services
      /\ UNCHANGED connects

\* a wake-up of service s's maintenance while its link is down: one CONNECT (HSTRPHandler!Tick)
Wake(s) == /\ s \in started /\ connects[s] < MaxWake
           /\ connects' = [connects EXCEPT ![s] = @ + 1]
           /\ UNCHANGED started

Next == Go \/ \E s \in Services : Wake(s)
Spec == Init /\ [][Next]_vars /\ WF_vars(Go) /\ \A s \in Services : WF_vars(Wake(s))

EveryServiceAsksToConnect == <>(\A s \in Services : connects[s] > 0)
=============================================================================
