--------------------------------- MODULE MMDVM ---------------------------------
(* Growth: Homebrew / MMDVM "DMRD" frame (53 octets, optionally + BER + RSSI) and its decoding into a burst         *)
(* (Burst.from_mmdvm over the kaitai structure mmdvm2020.type_dmr_data).  Offsets (0-based):                           *)
(*   0-3 "DMRD"   4 sequence   5-7 source id   8-10 target id (24 bit big endian)   11-14 repeater id                *)
(*   15 bits: slot (0 = TS1, 1 = TS2) | call type | frame type (2 bits: 0 voice, 1 voice sync, 2 data sync, 3 unused)  *)
(*      | data type / voice sequence (4 bits)        16-19 stream id        20-52 the 33 burst octets                  *)
EXTENDS Integers, Sequences

O(f, i) == f[i + 1]
SequenceOf(f) == O(f, 4)
SourceOf(f) == 65536 * O(f, 5) + 256 * O(f, 6) + O(f, 7)
TargetOf(f) == 65536 * O(f, 8) + 256 * O(f, 9) + O(f, 10)
TimeslotOf(f) == IF O(f, 15) \div 128 = 0 THEN 1 ELSE 2
FrameTypeOf(f) == (O(f, 15) \div 16) % 4
StreamOf(f) == <<256 * O(f, 16) + O(f, 17), 256 * O(f, 18) + O(f, 19)>>          \* two 16-bit limbs
BurstOctets(f) == SubSeq(f, 21, 53)
WellFormed(f) == Len(f) \in {53, 54, 55} /\ O(f, 0) = 68 /\ O(f, 1) = 77 /\ O(f, 2) = 82 /\ O(f, 3) = 68

\* the burst type the frame announces: data sync frames carry data / control bursts, the others vocoder bursts
AnnouncedBurstType(f) == IF FrameTypeOf(f) = 2 THEN "DataAndControl" ELSE "Vocoder"
=============================================================================
