SPECIFICATION Spec
CONSTANTS
  AckTheAcks = FALSE
  Inject = 2
PROPERTY NoPingPong
CHECK_DEADLOCK FALSE
