----------------------------- MODULE MC_SNMPWalk -----------------------------
(* (1) "design": TLC enumerates every environment script for both communities and checks   *)
(* the expectations of SNMPWalk.tla - they are EXPECTED to fail, each failure is printed   *)
(* with the script (tag EXPECT) and becomes an outside observation once the real function  *)
(* shows the same; (2) "judge": observations of the real SNMP.walk_ip against Walk (DRIFT). *)
EXTENDS SNMPWalk, Json, IOUtils, TLC

CONSTANTS Mode
Scripts == {<<"success", 0>>} \cup {<<k, i>> : k \in {"timeout", "refused"}, i \in 1..N}
Envs == [Communities -> Scripts]
D == IF Mode = "judge" THEN JsonDeserialize(IOEnv.DATA_FILE) ELSE [cases |-> <<>>]

VARIABLES c, env, idx
vars == <<c, env, idx>>
Init == IF Mode = "design" THEN c \in Communities /\ env \in Envs /\ idx = 0
        ELSE c = "public" /\ env = [x \in Communities |-> <<"success", 0>>] /\ idx \in 1..Len(D.cases)
Next == UNCHANGED vars
Spec == Init /\ [][Next]_vars

Why(cc, e) ==
  LET r == Walk(cc, TRUE, e) IN
  IF ~NeverRaises(r) THEN "NeverRaises"
  ELSE IF ~AtMostTwoAttempts(r) THEN "AtMostTwoAttempts"
  ELSE IF ~FallbackIsUsed(cc, e, r) THEN "FallbackIsUsed"
  ELSE IF ~AllOrNothing(r) THEN "AllOrNothing" ELSE "ok"

Expect == (Mode = "design" /\ Why(c, env) # "ok") =>
            PrintT(ToJson([tag |-> "EXPECT", why |-> Why(c, env), c |-> c, pub |-> env["public"], hyt |-> env["hytera"]]))

Judge ==
  (Mode = "judge") =>
    LET o == D.cases[idx]
        e == [x \in Communities |-> IF x = "public" THEN <<o.pub[1], o.pub[2]>> ELSE <<o.hyt[1], o.hyt[2]>>]
        r == Walk(o.c, TRUE, e)
        v == IF r.out # o.out THEN "outcome" ELSE IF r.out = "ok" /\ r.ret # o.ret THEN "returned-values"
             ELSE IF r.tried # o.tried THEN "communities-tried" ELSE "ok"
    IN v # "ok" => PrintT(ToJson([tag |-> "DRIFT", idx |-> idx - 1, why |-> v]))
Both == Expect /\ Judge
=============================================================================
