SPECIFICATION DSpec
CONSTANTS
  GetTokenEditsTable = TRUE
INVARIANT NoTaintedRead
INVARIANT OnlyScratchGetsDirty
CHECK_DEADLOCK FALSE
