SPECIFICATION Spec
CONSTANTS
  AckTheAcks = FALSE
  MaxDepth = 6
INVARIANT PropertyHolds
INVARIANT SnFits
CONSTRAINT Bound
VIEW View
CHECK_DEADLOCK FALSE
