-------------------------------- MODULE RS1294 --------------------------------
(* Reed-Solomon (12,9,4) over GF(2^8): ETSI TS 102 361-1 B.3.6, fec/reed_solomon_12_9_4.py *)
(* Field: polynomial basis modulo x^8+x^4+x^3+x^2+1 (0x11D), alpha = 2.                    *)
(* Code: 12 symbols w[1..12] (w[1] = highest degree), multiples of                         *)
(*   g(x) = (x - alpha)(x - alpha^2)(x - alpha^3); the transmitted parity is xored with a  *)
(*   data-type mask.                                                                       *)
EXTENDS Integers, Sequences, FiniteSets, Bitwise, SequencesExt

\* multiplication by shift-and-reduce (independent of the library's log/antilog tables)
Mul(a, b) ==
  LET Step(acc, i) ==      \* acc = <<result, a * x^(i-1)>>
        LET r == IF (b \div (2 ^ (i - 1))) % 2 = 1 THEN acc[1] ^^ acc[2] ELSE acc[1]
            d == acc[2] * 2
        IN <<r, IF d >= 256 THEN d ^^ 285 ELSE d>>
  IN FoldLeft(Step, <<0, a>>, <<1, 2, 3, 4, 5, 6, 7, 8>>)[1]

Alpha == 2
Pow[n \in 0..40] == IF n = 0 THEN 1 ELSE Mul(Pow[n - 1], Alpha)

\* evaluation of the word polynomial at alpha^j (Horner)
EvalAt(w, j) == FoldLeft(LAMBDA acc, s : Mul(acc, Pow[j]) ^^ s, 0, w)
Syndromes(w) == <<EvalAt(w, 1), EvalAt(w, 2), EvalAt(w, 3)>>
IsCodeword(w) == Syndromes(w) = <<0, 0, 0>>

Unmask(w, mask) == [i \in 1..12 |-> IF i <= 9 THEN w[i] ELSE w[i] ^^ mask[i - 9]]

\* g(x) expanded: coefficients <<g2, g1, g0>> of x^2, x, 1  (g3 = 1)
GCoeffs ==
  LET a1 == Pow[1]  a2 == Pow[2]  a3 == Pow[3]
  IN <<(a1 ^^ a2) ^^ a3, (Mul(a1, a2) ^^ Mul(a1, a3)) ^^ Mul(a2, a3), Mul(Mul(a1, a2), a3)>>

\* systematic encoder by LFSR division (three registers), as the standard describes it
LfsrParity(msg) ==
  LET g == GCoeffs
      Step(p, s) == LET f == s ^^ p[1]            \* p = <<p2, p1, p0>>
                    IN <<p[2] ^^ Mul(g[1], f), p[3] ^^ Mul(g[2], f), Mul(g[3], f)>>
  IN FoldLeft(Step, <<0, 0, 0>>, msg)

\* minimum distance 4: any three columns of the parity check matrix H[j][i] = alpha^(j*(12-i)) are independent
HCol(i) == <<Pow[1 * (12 - i)], Pow[2 * (12 - i)], Pow[3 * (12 - i)]>>
Det3(a, b, c) ==
  LET t1 == Mul(a[1], Mul(b[2], c[3]) ^^ Mul(b[3], c[2]))
      t2 == Mul(a[2], Mul(b[1], c[3]) ^^ Mul(b[3], c[1]))
      t3 == Mul(a[3], Mul(b[1], c[2]) ^^ Mul(b[2], c[1]))
  IN (t1 ^^ t2) ^^ t3
DistanceAtLeast4 == \A i, j, k \in 1..12 : (i < j /\ j < k) => Det3(HCol(i), HCol(j), HCol(k)) # 0
=============================================================================
