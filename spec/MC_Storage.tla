----------------------------- MODULE MC_Storage -----------------------------
(* Exhaustive bounded exploration of the storage design model against the property-level *)
(* predicates of Storage.tla, and the JSON edge dump used for spec -> code replay.       *)
EXTENDS Storage, Json

CONSTANTS MaxDepth, MaxRecs

VARIABLES recs, last
vars == <<recs, last>>

A1 == [ip |-> "ip1", port |-> 1]
A2 == [ip |-> "ip1", port |-> 2]      \* same IP, other port (match_ip_incoming ambiguity)
A3 == [ip |-> "ip2", port |-> 1]
Addrs == {A1, A2, A3}
Keys  == {"k1", "k2", "k3", "address_in"}      \* as projected by the harness; the last one is a dynamic attribute spelt like a member
ActKeys == {"k1", "k2"}
KV(k, v) == [k |-> k, v |-> v]

Patches == { <<>>,
             <<KV("callsign", StrV("A"))>>,
             <<KV("callsign", NoneV)>>,
             <<KV("k1", StrV("x"))>>,
             <<KV("k1", NoneV)>>,
             <<KV("k1", StrV("y")), KV("k2", NoneV)>>,
             <<KV("k2", StrV("x")), KV("callsign", StrV("B"))>>,
             <<KV("address_out", AddrV(A1))>>,
             <<KV("address_in", AddrV(A2))>>,
             <<KV("address_nat", AddrV(A3))>>,
             <<KV("serial", StrV("S")), KV("nat_enabled", StrV("True"))>>,
             <<KV("dmr_id", StrV("7")), KV("snmp_enabled", NoneV)>> }

Act(op, addr, auto, patch, id, key, val) ==
  [op |-> op, addr |-> addr, auto |-> auto, patch |-> patch, id |-> id, key |-> key, val |-> val]

Ids == 1..MaxRecs

Acts ==
  {Act("match_incoming", a, au, p, 0, "", NoneV) : a \in Addrs, au \in BOOLEAN, p \in Patches}
  \cup {Act("save", A1, FALSE, p, i, "", NoneV) : p \in Patches, i \in Ids}
  \cup {Act("patch", A1, FALSE, p, i, "", NoneV) : p \in Patches, i \in Ids}
  \cup {Act("save_new", a, FALSE, p, 0, "", NoneV) : a \in {A1, A3}, p \in {<<>>, <<KV("callsign", StrV("A"))>>, <<KV("k1", StrV("x"))>>}}
  \cup {Act("match_attr", A1, FALSE, <<>>, 0, "address_in", AddrV(a)) : a \in Addrs}
  \cup {Act("match_attr", A1, FALSE, <<>>, 0, "callsign", v) : v \in {StrV(""), StrV("A"), NoneV}}
  \cup {Act("match_ip", a, FALSE, <<>>, 0, "", NoneV) : a \in {A1, A3, [ip |-> "ip9", port |-> 1]}}
  \cup {Act("match_uuid", A1, FALSE, <<>>, i, "", NoneV) : i \in 1..(MaxRecs + 1)}
  \cup {Act("attr_read", A1, FALSE, <<>>, i, k, NoneV) : i \in Ids, k \in ActKeys}
  \cup {Act("attr_write", A1, FALSE, <<>>, i, k, v) : i \in Ids, k \in ActKeys, v \in {StrV("x"), StrV("y"), NoneV}}
  \cup {Act("delete_attr", A1, FALSE, <<>>, i, k, NoneV) : i \in Ids, k \in ActKeys}
  \* a dynamic attribute whose key is spelt like the member every lookup goes by, holding an address of the pool
  \cup {Act("attr_write", A1, FALSE, <<>>, i, "address_in", AddrV(A2)) : i \in Ids}
  \cup {Act("delete_attr", A1, FALSE, <<>>, i, "address_in", NoneV) : i \in Ids}

NoAct == Act("init", A1, FALSE, <<>>, 0, "", NoneV)

Init == recs = <<>> /\ last = [act |-> NoAct, ret |-> 0, val |-> NoneV, out |-> "ok"]

Next == \E a \in Acts :
          /\ Enabled(recs, a)
          /\ LET r == Apply(recs, a, Keys) IN
               /\ recs' = r.recs
               /\ last' = [act |-> a, ret |-> r.ret, val |-> r.val, out |-> r.out]

Spec == Init /\ [][Next]_vars

\* the property, as an action property over every explored transition
StepProperty ==
  [][StepOK(recs, last'.act, [recs |-> recs', ret |-> last'.ret, val |-> last'.val, out |-> last'.out], Keys)]_vars

Bound == TLCGet("level") <= MaxDepth /\ Len(recs) <= MaxRecs

View == recs

Edge == PrintT(ToJson([tag |-> "EDGE", from |-> recs, act |-> last'.act, to |-> recs',
                       ret |-> last'.ret, val |-> last'.val, out |-> last'.out]))
=============================================================================
