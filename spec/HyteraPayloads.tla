--------------------------- MODULE HyteraPayloads ---------------------------
(* Payload layouts of the Hytera application PDUs carried in HDAP frames (between the length   *)
(* field and the checksum), for RRS, LP and TMP: Hytera "DMR Application Protocol" documents    *)
(* as implemented by hytera/pdu/radio_registration_service.py, location_protocol.py and        *)
(* text_message_protocol.py.  All integers big-endian.  A PDU is given as a record of octet     *)
(* sequences prepared by the harness from the attributes of the built object:                   *)
(*   ip, ip2  radio IP = subnet octet + 24-bit radio id      req   request id, 4 octets          *)
(*   res      result / state code octet(s)                    renew 4 octets                     *)
(*   gps      the 40-octet GPS record                         body  text (UTF-16LE) / short data  *)
(*   has_opt, opt   option flag and option data (TMP): length prefix FIRST, data LAST            *)
EXTENDS Integers, Sequences

U16(n) == <<n \div 256, n % 256>>

RrsPayload(op, p) ==
  CASE op \in {"RadioRegistrationRequest", "RadioGoingOffline", "RegistrationStatusCheckRequest"} -> p.ip
    [] op = "RadioRegistrationAnswer" -> p.ip \o p.res \o p.renew
    [] op = "RegistrationStatusCheckAnswer" -> p.ip \o p.res

LpPayload(op, p) ==
  CASE op = "StandardRequest" -> p.req \o p.ip
    [] op = "StandardReport" -> p.req \o p.ip \o p.res \o p.gps

TmpBody(op, p) ==
  CASE op \in {"SendPrivateMessage", "SendGroupMessage", "PrivateShortData", "GroupShortData"} -> p.ip \o p.ip2 \o p.body
    [] op \in {"SendPrivateMessageAck", "PrivateShortDataAck"} -> p.ip \o p.ip2 \o p.res
    [] op \in {"SendGroupMessageAck", "GroupShortDataAck"} -> p.ip \o p.res
TmpPayload(op, p) == (IF p.has_opt THEN U16(Len(p.opt)) ELSE <<>>) \o p.req \o TmpBody(op, p) \o (IF p.has_opt THEN p.opt ELSE <<>>)

\* ---- RCP (radio_control_protocol.py): all integers LITTLE-endian.  Fields prepared by the harness:
\*   ct call type, res result, tgt / snd target / sender id (4 octets, little-endian), mode / status / svc repeater mode, status and
\*   service type (16 bit), bt broadcast type, iptgt id/ip selector, raw opaque octets, fmt / alias talker alias format and data,
\*   settings sequence of <<target, setting>> pairs, sct / scv status change target and 16-bit value
L16(n) == <<n % 256, n \div 256>>
Flatten(pairs) == IF pairs = <<>> THEN <<>> ELSE LET RECURSIVE F(_) F(i) == IF i > Len(pairs) THEN <<>> ELSE pairs[i] \o F(i + 1) IN F(1)
RcpPayload(op, p) ==
  CASE op \in {"UnknownService", "ZoneAndChannelOperationRequest", "ZoneAndChannelOperationReply", "BroadcastStatusConfigurationRequest"} -> p.raw
    [] op = "CallRequest" -> <<p.ct>> \o p.tgt
    [] op \in {"CallReply", "BroadcastMessageConfigurationReply", "StatusChangeNotificationReply", "BroadcastStatusConfigurationReply"} -> <<p.res>>
    [] op = "RepeaterBroadcastTransmitStatus" -> L16(p.mode) \o L16(p.status) \o L16(p.svc) \o L16(p.ct) \o p.tgt \o p.snd
    [] op = "BroadcastMessageConfigurationRequest" -> <<p.bt, 0, 0, 0, 0, 0, 0, 0>>
    [] op = "RadioIDAndRadioIPQueryReply" -> <<p.res, p.iptgt>> \o p.raw
    [] op = "RadioIDAndRadioIPQueryRequest" -> <<p.iptgt>>
    [] op = "SendTalkerAliasRequest" -> <<p.ct>> \o p.snd \o p.tgt \o <<p.fmt, Len(p.alias)>> \o p.alias
    [] op = "SendTalkerAliasReply" -> <<p.res, p.ct>> \o p.snd \o p.tgt
    [] op = "StatusChangeNotificationRequest" -> <<Len(p.settings)>> \o Flatten(p.settings)
    [] op = "RadioStatusReport" -> <<p.sct>> \o L16(p.scv)

Payload(fam, op, p) == CASE fam = "RRS" -> RrsPayload(op, p) [] fam = "LP" -> LpPayload(op, p) [] fam = "TMP" -> TmpPayload(op, p)
                         [] fam = "RCP" -> RcpPayload(op, p)

\* second octet of the frame for TMP: confirmed 0x80, option 0x40
TmpFlags(p) == (IF p.confirmed THEN 128 ELSE 0) + (IF p.has_opt THEN 64 ELSE 0)
=============================================================================
