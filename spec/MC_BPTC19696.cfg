SPECIFICATION Spec
CONSTANTS
  NestedPasses = FALSE
ACTION_CONSTRAINT Report
CHECK_DEADLOCK FALSE
