------------------------------ MODULE MC_HSTRP ------------------------------
(* Exhaustive: all datagram histories up to MaxDepth over the message classes of the   *)
(* property (+ the flag combinations the handler itself emits) against the monitor.    *)
EXTENDS HSTRPHandler, Json

CONSTANTS MaxDepth

VARIABLES h, mon, why, last
vars == <<h, mon, why, last>>

F(s) == [opt |-> "opt" \in s, rej |-> "rej" \in s, close |-> "close" \in s, conn |-> "conn" \in s,
         hb |-> "hb" \in s, ack |-> "ack" \in s]
M(fl, sn, optlen, payload, radio) ==
  [valid |-> TRUE, clean |-> TRUE, f |-> F(fl), sn |-> sn, optlen |-> optlen, payload |-> payload, radio |-> radio]
Garbage == [valid |-> FALSE, clean |-> FALSE, f |-> NoFlags, sn |-> 0, optlen |-> 0, payload |-> "none", radio |-> ""]

Radios == {"10.0.0.1", "10.0.0.2"}

Alphabet ==
  { M({"conn"}, 0, 0, "none", ""), M({"close"}, 0, 0, "none", ""), M({"hb"}, 0, 0, "none", ""),
    M({"ack"}, 7, 0, "none", ""), M({"rej"}, 7, 0, "none", ""),
    M({}, 7, 0, "none", ""), M({"opt"}, 9, 9, "none", ""),
    M({}, 8, 0, "hdap_other", ""), M({"opt"}, 8, 9, "rrs_other", "10.0.0.1"),
    M({"conn", "ack"}, 0, 0, "none", ""), M({"close", "ack"}, 0, 0, "none", ""),
    M({"conn", "rej"}, 0, 0, "none", ""), M({"close", "rej"}, 0, 0, "none", ""),
    M({"hb", "ack"}, 0, 0, "none", ""), M({"conn", "opt"}, 3, 6, "none", ""),
    M({"ack", "opt"}, 5, 9, "rrs_req", "10.0.0.2"),
    Garbage }
  \cup {M({"opt"}, 1, 9, "rrs_req", r) : r \in Radios}
  \cup {M({"opt"}, 2, 9, "rrs_off", r) : r \in Radios}

NoOut == [outcome |-> "ok", sent |-> <<>>, connected |-> FALSE, sn |-> 0, reg |-> <<>>, handled |-> FALSE, pdu |-> FALSE]

Init == h = InitH /\ mon = InitMon /\ why = "ok" /\ last = [m |-> Garbage, out |-> NoOut]

WithOk(sent) == [i \in 1..Len(sent) |-> [f |-> sent[i].f, sn |-> sent[i].sn, optlen |-> sent[i].optlen,
                                         payload |-> sent[i].payload, radio |-> sent[i].radio, ok |-> TRUE]]

Receive(m) ==
  LET r == Recv(h, m)
      o == [outcome |-> "ok", sent |-> WithOk(r.sent), connected |-> r.h.connected, sn |-> r.h.sn,
            reg |-> r.h.reg, handled |-> r.handled, pdu |-> r.pdu]
      mr == MonRecv(mon, m, o, h.connected)
  IN /\ h' = r.h /\ mon' = mr[1] /\ why' = mr[2] /\ last' = [m |-> m, out |-> o]

Next == \E m \in Alphabet : Receive(m)
Spec == Init /\ [][Next]_vars

PropertyHolds == why = "ok"
SnFits == h.sn \in 0..65535
Bound == TLCGet("level") <= MaxDepth
View == <<h, mon, why>>
Edge == PrintT(ToJson([tag |-> "EDGE", finit |-> (last.out = NoOut /\ h = InitH), fv |-> <<h, mon, why>>,
                       tv |-> <<h', mon', why'>>, m |-> last'.m, out |-> last'.out]))
=============================================================================
