------------------------------- MODULE Purity -------------------------------
(* C19: codec calls are pure.                                                             *)
(* (P) a library is a function Ref from call signatures to results; a call must return    *)
(*     Ref[sig] whatever was called before, and leave its argument buffers intact.        *)
(* (D) the hidden mutable cells found by reading the code and the discipline that keeps   *)
(*     (P) true although they exist:                                                      *)
(*       scratch cells  - the four CRC register singletons: every user writes them        *)
(*                        (init) before reading (calculate_checksum = init; update;       *)
(*                        digest), so what an earlier call left there is never observed;  *)
(*       stable cells   - look-up tables (lru_cache), mutable default arguments, the      *)
(*                        class-level LRRP/ARRP token tables, the MBXML.DEBUG flag: read  *)
(*                        by many entry points, so no entry point may leave them changed. *)
(*     An operation is [reads, writes (argument dependent), restores]; a cell is `dirty`  *)
(*     when it holds a value that depends on the arguments of an earlier call.            *)
EXTENDS Integers, Sequences, FiniteSets, TLC

Scratch == {"crc8_reg", "crc9_reg", "crc16_reg", "crc32_reg"}
Stable  == {"crc_tables", "burst_defaults", "csbk_defaults", "dataheader_defaults", "serviceoptions_defaults",
            "rcp_defaults", "lp_defaults", "lrrp_tables", "arrp_tables", "mbxml_debug"}
Cells == Scratch \cup Stable

CONSTANT GetTokenEditsTable   \* TRUE: pinned MBXMLDocument.get_token edits the attribute list of the
                              \* class-level token definition through a shallow copy; FALSE: repaired

\* entry-point families: cells read BEFORE being overwritten, cells left holding argument-dependent data
Op(reads, taints) == [reads |-> reads, taints |-> taints]
Ops == [ crc8   |-> Op({"crc_tables"}, {"crc8_reg"}),
         crc9   |-> Op({"crc_tables"}, {"crc9_reg"}),
         crc16  |-> Op({"crc_tables"}, {"crc16_reg"}),
         crc32  |-> Op({"crc_tables"}, {"crc32_reg"}),
         fec    |-> Op({}, {}),
         vbptc  |-> Op({"crc_tables"}, {"crc8_reg"}),
         pdu    |-> Op({"crc_tables", "csbk_defaults", "dataheader_defaults", "serviceoptions_defaults"},
                       {"crc8_reg", "crc9_reg", "crc16_reg"}),
         burst  |-> Op({"crc_tables", "burst_defaults", "csbk_defaults", "dataheader_defaults", "serviceoptions_defaults"},
                       {"crc8_reg", "crc9_reg", "crc16_reg"}),
         hytera |-> Op({"rcp_defaults", "lp_defaults"}, {}),
         mbxml  |-> Op({"lrrp_tables", "arrp_tables", "mbxml_debug"}, {}),     \* DEBUG is set and restored
         token  |-> Op({"lrrp_tables", "arrp_tables"}, IF GetTokenEditsTable THEN {"lrrp_tables"} ELSE {}) ]

\* family of a catalogue signature (prefix before '#')
FamilyOf(f) ==
  CASE f \in {"crc8"} -> "crc8" [] f \in {"crc9"} -> "crc9" [] f \in {"crc16"} -> "crc16" [] f \in {"crc32"} -> "crc32"
    [] f \in {"crc_calc", "hamming", "hamming_fix", "golay_qr", "rs1294", "bptc", "trellis", "cs5", "utils"} -> "fec"
    [] f \in {"vbptc"} -> "vbptc"
    [] f \in {"burst", "ipsc", "defaults"} -> "burst"
    [] f \in {"hrnp", "hstrp", "hdap_hdap", "hdap_rcp", "hdap_lp", "hdap_tmp", "hytera_defaults", "lp_request", "ars"} -> "hytera"
    [] f \in {"mbxml", "mbxml_var"} -> "mbxml"
    [] f \in {"lrrp_token"} -> "token"
    [] OTHER -> "pdu"

\* ---------------------------------------------------------------- (D) the discipline as a state machine
VARIABLES dirty, bad
dvars == <<dirty, bad>>
DInit == dirty = {} /\ bad = "ok"
DCall(o) == /\ bad' = IF Ops[o].reads \cap dirty # {} THEN o ELSE bad
            /\ dirty' = dirty \cup Ops[o].taints
DNext == \E o \in DOMAIN Ops : DCall(o)
DSpec == DInit /\ [][DNext]_dvars
NoTaintedRead == bad = "ok"                 \* no entry point observes what an earlier call left behind
OnlyScratchGetsDirty == dirty \subseteq Scratch
=============================================================================
