SPECIFICATION Spec
CONSTANTS
  N = 20
  TupleValid = FALSE
  Mode = "judge"
INVARIANT Both
CHECK_DEADLOCK FALSE
