--------------------------- MODULE Trace_EmbeddedLC ---------------------------
(* Code -> spec for the embedded-LC extractor: an event is one process_packet call                         *)
(*   [key, lcss, pi, g, k, delivered (an LC came back), same (it equals link control g as it was sent),      *)
(*    nfrag (32-bit fragments the extractor holds for the key afterwards)]                                  *)
EXTENDS EmbeddedLC, Json, IOUtils, TLC
Traces == JsonDeserialize(IOEnv.TRACE_FILE)
VARIABLES tid, l, st, dr
vars == <<tid, l, st, dr>>
Init == tid \in 1..Len(Traces) /\ l = 0 /\ st = <<>> /\ dr = "ok"
Judge(e) ==
  LET r == Step(st, e.key, Frag(e.lcss, e.pi, e.g, e.k))
      \* a mixed word need not decode to a link control the library knows (the call may raise instead of delivering)
      d == IF (r.out # <<>>) # e.delivered /\ (r.out = <<>> \/ Genuine(r.out)) THEN "delivery-differs-from-model"
           ELSE IF Len(Collected(r.st, e.key)) # e.nfrag THEN "fragments-held-differ-from-model"
           ELSE IF r.out # <<>> /\ Genuine(r.out) /\ ~e.same THEN "complete-group-delivered-as-another-link-control"
           ELSE "ok"
      x == IF r.out # <<>> /\ ~Genuine(r.out) THEN "mixed" ELSE "ok"
  IN [st |-> r.st, dr |-> d, ext |-> x]
Step1 == /\ l < Len(Traces[tid].ev)
         /\ LET j == Judge(Traces[tid].ev[l + 1]) IN
            /\ st' = j.st /\ dr' = IF dr # "ok" THEN dr ELSE j.dr
         /\ l' = l + 1 /\ tid' = tid
Done == l = Len(Traces[tid].ev) /\ UNCHANGED vars
Next == Step1 \/ Done
Spec == Init /\ [][Next]_vars
Report ==
  /\ (dr' # "ok" /\ dr = "ok") => PrintT(ToJson([tag |-> "DRIFT", tid |-> tid, l |-> l', why |-> dr']))
  /\ l' > l => (Judge(Traces[tid].ev[l']).ext # "ok" =>
        PrintT(ToJson([tag |-> "OUTSIDE", tid |-> tid, l |-> l',
                       why |-> "embedded-LC extractor delivers a link control assembled from fragments of two different link controls after four consecutive lost bursts (the 5-bit checksum is not verified)"])))
=============================================================================
