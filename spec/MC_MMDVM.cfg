SPECIFICATION Spec
ACTION_CONSTRAINT Report
CHECK_DEADLOCK FALSE
