-------------------------------- MODULE VBPTC --------------------------------
(* Variable length BPTCs: ETSI TS 102 361-1 B.2.1 (embedded LC, 128/72), B.2.3 (CACH      *)
(* short LC, 68/28), B.2.2 (single burst / reverse channel, 32/11); fec/vbptc_*.py.       *)
(* A code is R rows x C columns, transmitted column by column: position t sits in row     *)
(* t % R, column t \div R.  The last row holds the column parities, the other rows are    *)
(* K data/checksum cells followed by the parity bits of the row Hamming code.  Message    *)
(* bits fill the data cells row by row, skipping the checksum cells.                      *)
(* Bit strings are sequences of 16-bit integers (first bit = most significant bit of the  *)
(* first element).                                                                        *)
EXTENDS Integers, Sequences, FiniteSets, Bitwise, Folds

BitAt(w, i) == (w[(i \div 16) + 1] \div (2 ^ (15 - (i % 16)))) % 2
Bit(x, i) == (x \div (2 ^ i)) % 2
XorAll(S, f(_)) == MapThenFoldSet(LAMBDA a, b : a ^^ b, 0, f, LAMBDA T : CHOOSE x \in T : TRUE, S)
SumAll(S, f(_)) == MapThenFoldSet(LAMBDA a, b : a + b, 0, f, LAMBDA T : CHOOSE x \in T : TRUE, S)

\* the three codes: cs = checksum cells <<row, col>> in the order the standard numbers them (first = most
\* significant checksum bit CS(4) / first CRC cell)
Params(kind) ==
  CASE kind = "128_72" -> [R |-> 8, C |-> 16, K |-> 11, n |-> 16, M |-> 72,
                           cs |-> <<<<2, 10>>, <<3, 10>>, <<4, 10>>, <<5, 10>>, <<6, 10>>>>]
    [] kind = "68_28"  -> [R |-> 4, C |-> 17, K |-> 12, n |-> 17, M |-> 28,
                           cs |-> <<<<2, 4>>, <<2, 5>>, <<2, 6>>, <<2, 7>>, <<2, 8>>, <<2, 9>>, <<2, 10>>, <<2, 11>>>>]
    [] kind = "32_11"  -> [R |-> 2, C |-> 16, K |-> 11, n |-> 16, M |-> 11, cs |-> <<>>]

\* transmitted position of matrix cell (r, c): column by column; in the single burst variant (B.2.2) the
\* parity row is additionally rotated by eight columns
Pos(P, r, c) == IF P.R = 2 THEN (IF r = 0 THEN 2 * c ELSE (2 * c + 17) % 32) ELSE c * P.R + r
Cell(P, cw, r, c) == BitAt(cw, Pos(P, r, c))
RowWord(P, cw, r) == SumAll(0..(P.C - 1), LAMBDA c : Cell(P, cw, r, c) * (2 ^ (P.C - 1 - c)))
ColParity(P, cw, c) == SumAll(0..(P.R - 1), LAMBDA r : Cell(P, cw, r, c)) % 2

Syn(w, n, hcol) == XorAll({j \in 1..n : Bit(w, n - j) = 1}, LAMBDA j : hcol[j])

IsCs(P, r, c) == \E k \in 1..Len(P.cs) : P.cs[k] = <<r, c>>
\* data cells in message order
DataCells(P) ==
  LET all == [i \in 1..((P.R - 1) * P.K) |-> <<(i - 1) \div P.K, (i - 1) % P.K>>]
  IN SelectSeq(all, LAMBDA rc : ~IsCs(P, rc[1], rc[2]))
\* message read directly from the matrix (independent of the library's extractor): bit i of the message
SpecMsgBit(P, cw, i) == LET rc == DataCells(P)[i + 1] IN Cell(P, cw, rc[1], rc[2])
SpecCsBits(P, cw) == [k \in 1..Len(P.cs) |-> Cell(P, cw, P.cs[k][1], P.cs[k][2])]

\* integer value of a bit sequence, first element most / least significant
MsbInt(b) == SumAll(1..Len(b), LAMBDA k : b[k] * (2 ^ (Len(b) - k)))
LsbInt(b) == SumAll(1..Len(b), LAMBDA k : b[k] * (2 ^ (k - 1)))

\* B.3.11: 5-bit checksum = (sum of the 9 octets of the 72-bit LC) mod 31
Byte(msg, j) == SumAll(0..7, LAMBDA b : BitAt(msg, 8 * j + b) * (2 ^ (7 - b)))
CS5(msg) == SumAll(0..8, LAMBDA j : Byte(msg, j)) % 31
=============================================================================
