------------------------------ MODULE Trace_P2P ------------------------------
(* Code -> spec for the P2P handler: event = [op, src, d, cfg, out]                    *)
(*   out = [sent (classified, with destination), out (ok/raise), recs (storage after)] *)
EXTENDS P2P, Json, IOUtils
Traces == JsonDeserialize(IOEnv.TRACE_FILE)
VARIABLES tid, l, recs, mon, why, dr
vars == <<tid, l, recs, mon, why, dr>>
Init == tid \in 1..Len(Traces) /\ l = 0 /\ recs = <<>> /\ mon = {} /\ why = "ok" /\ dr = "ok"
Step ==
  /\ l < Len(Traces[tid].ev)
  /\ LET e == Traces[tid].ev[l + 1]
         r == JudgeEvent(recs, mon, e)
     IN /\ l' = l + 1 /\ tid' = tid /\ recs' = r.recs /\ mon' = r.mon
        /\ why' = IF why # "ok" THEN why ELSE r.why
        /\ dr' = IF dr # "ok" THEN dr ELSE r.dr
Done == l = Len(Traces[tid].ev) /\ UNCHANGED vars
Next == Step \/ Done
Spec == Init /\ [][Next]_vars
Report ==
  /\ (why' # "ok" /\ why = "ok") => PrintT(ToJson([tag |-> "REJECT", tid |-> tid, l |-> l', why |-> why']))
  /\ (dr' # "ok" /\ dr = "ok") => PrintT(ToJson([tag |-> "DRIFT", tid |-> tid, l |-> l', why |-> dr']))
=============================================================================
