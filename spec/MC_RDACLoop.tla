----------------------------- MODULE MC_RDACLoop -----------------------------
(* Growth beyond the listed properties: the RDAC identification handler (RDAC.tla) in a   *)
(* closed loop with a repeater that answers exactly as the handler expects, over a        *)
(* network that may lose, swap or duplicate a bounded number of responses.                *)
(*                                                                                        *)
(* The repeater model is an assumption about the environment, not read from the library:  *)
(* it opens with its one-octet reset and, whenever the handler sends requests, puts into  *)
(* the network the responses the handler expects up to (and including) the next step      *)
(* after which the handler sends again.                                                   *)
(*                                                                                        *)
(* Checked: (clean network) the identification always completes, exactly once;            *)
(* (faulty network) every maximal behaviour is printed with the datagrams delivered, so   *)
(* that the harness replays it on the real handler: final step and completions   *)
(* must be the model's.  A behaviour that ends before step 14 with nothing in flight is a *)
(* stall: the handler has no timer and never repeats a request.                           *)
EXTENDS RDAC, Json

CONSTANTS Lose, Swap, Dup,           \* fault budgets
          InLoop                     \* the handler is driven by a running asyncio event loop (the only way a
                                     \* DatagramProtocol is driven outside tests): the step that completes the run calls
                                     \* Repeater.read_snmp_values, which calls asyncio.run() - that raises inside a running
                                     \* loop, after the step was set to 14 and before the completion callback

VARIABLES st, net, fl, hist, ndone, opened
vars == <<st, net, fl, hist, ndone, opened>>

Peer == "ip1"
Resp(k) == [cls |-> "resp", k |-> k, long |-> TRUE, zero |-> FALSE]
Reset == [cls |-> "reset", k |-> "none", long |-> FALSE, zero |-> TRUE]

\* the responses a well-behaved repeater sends after the handler advanced to step s and sent requests:
\* those expected in s, NextStep(s), ... up to the first step from which the handler sends again
RECURSIVE Script(_)
Script(s) == IF s >= 14 THEN <<>>
             ELSE IF Requests(s) > 0 THEN <<Expected(s)>>
             ELSE <<Expected(s)>> \o Script(NextStep(s))

Init == /\ st = <<>> /\ net = <<>> /\ fl = [lose |-> Lose, swap |-> Swap, dup |-> Dup]
        /\ hist = <<>> /\ ndone = 0 /\ opened = FALSE

Open ==                                      \* the repeater's one-octet reset starts everything
  /\ ~opened /\ opened' = TRUE
  /\ LET r == Recv(st, Peer, Reset) IN
       /\ st' = r.st /\ ndone' = ndone + r.done
       /\ net' = IF r.nsent > 0 THEN Script(StepOf(r.st, Peer)) ELSE <<>>
       /\ hist' = Append(hist, Reset)
  /\ UNCHANGED fl

Handle(k, rest) ==
  LET s == StepOf(st, Peer)
      r == Recv(st, Peer, Resp(k))
      t == StepOf(r.st, Peer)
  IN /\ st' = r.st /\ ndone' = ndone + (IF InLoop THEN 0 ELSE r.done)
     /\ net' = IF r.nsent > 0 /\ t # s THEN rest \o Script(t) ELSE rest
     /\ hist' = Append(hist, Resp(k))

Deliver == opened /\ net # <<>> /\ Handle(Head(net), Tail(net)) /\ UNCHANGED <<fl, opened>>
DeliverDup == /\ opened /\ net # <<>> /\ fl.dup > 0 /\ Handle(Head(net), net)
              /\ fl' = [fl EXCEPT !.dup = @ - 1] /\ UNCHANGED opened
Drop == /\ opened /\ net # <<>> /\ fl.lose > 0 /\ net' = Tail(net)
        /\ fl' = [fl EXCEPT !.lose = @ - 1] /\ UNCHANGED <<st, hist, ndone, opened>>
Reorder == /\ opened /\ Len(net) >= 2 /\ fl.swap > 0 /\ net[1] # net[2]
           /\ net' = <<net[2], net[1]>> \o SubSeq(net, 3, Len(net))
           /\ fl' = [fl EXCEPT !.swap = @ - 1] /\ UNCHANGED <<st, hist, ndone, opened>>

Next == Open \/ Deliver \/ DeliverDup \/ Drop \/ Reorder
Spec == Init /\ [][Next]_vars /\ WF_vars(Open) /\ WF_vars(Deliver)

Identified == StepOf(st, Peer) = 14
EventuallyIdentified == <>[]Identified
CompletesAtMostOnce == ndone <= 1
CompletionMeansIdentified == ndone = 1 <=> Identified
StepsInRange == StepOf(st, Peer) \in (0..14) \ {9}

\* a maximal behaviour: nothing left to deliver
Quiet == opened /\ net = <<>>
Report == (~(opened /\ net = <<>>) /\ Quiet') =>
            PrintT(ToJson([tag |-> "LOOP", hist |-> hist', step |-> StepOf(st', Peer), done |-> ndone',
                           faults |-> [lose |-> Lose - fl'.lose, swap |-> Swap - fl'.swap, dup |-> Dup - fl'.dup]]))
=============================================================================
