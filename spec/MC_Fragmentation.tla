--------------------------- MODULE MC_Fragmentation ---------------------------
(* Exhaustive over configurations: generator model -> tracker model; checks the C07     *)
(* clauses at design level and prints the expectation of every configuration (JSON) for *)
(* the spec -> code replay.                                                             *)
EXTENDS Fragmentation, Json

CONSTANTS MaxL, Preambles, LStride, ExtraL       \* ExtraL: additional payload lengths (extremes)

VARIABLES c, i, slot, tok, mon, why, nstart, nend, rblocks, endedIds
vars == <<c, i, slot, tok, mon, why, nstart, nend, rblocks, endedIds>>

Configs == [L : {x \in 0..MaxL : x % LStride = 0 \/ x <= 60} \cup ExtraL, rate : {"R12", "R34", "R1"},
            conf : BOOLEAN, p : Preambles]

Representable(cf) == NBlocks(cf.L, cf.rate, cf.conf) <= 127            \* 7-bit blocks-to-follow
                     /\ NBlocks(cf.L, cf.rate, cf.conf) + cf.p <= 255   \* 8-bit preamble field

Init == /\ c \in {cf \in Configs : Representable(cf)}
        /\ i = 0 /\ slot = InitSlot(1) /\ tok = 2 /\ mon = InitMon /\ why = "ok"
        /\ nstart = 0 /\ nend = 0 /\ rblocks = <<>> /\ endedIds = <<>>

Count(ev, what) == Cardinality({k \in 1..Len(ev) : ev[k].e = what})

Feed ==
  /\ i < Len(Bursts(c))
  /\ LET b  == Bursts(c)[i + 1]
         ab == [cls |-> b.cls, id |-> b.id, btf |-> b.btf, a |-> b.a, cc |-> b.cc]
         r  == SlotStep(slot, tok, ab)
         m  == MonStep(mon, ab, r.out, r.slot.tx.type)
     IN /\ i' = i + 1
        /\ slot' = r.slot /\ tok' = r.tok /\ mon' = m[1]
        /\ why' = IF why # "ok" THEN why ELSE m[2]
        /\ nstart' = nstart + Count(r.out.ev, "started")
        /\ nend' = nend + Count(r.out.ev, "ended")
        /\ rblocks' = IF b.cls \in {"R12", "R34", "R1"} THEN Append(rblocks, RecvBlock(slot.tx, b)) ELSE rblocks
        /\ endedIds' = IF \E k \in 1..Len(r.out.ev) : r.out.ev[k].e = "ended"
                       THEN (CHOOSE e \in {r.out.ev[k] : k \in 1..Len(r.out.ev)} : e.e = "ended").blocks
                       ELSE endedIds
        /\ c' = c

Next == Feed
Spec == Init /\ [][Next]_vars

Done == i = Len(Bursts(c))

\* the rate blocks handed over by the `ended` event, as the receiver typed them
Handed == SelectSeq(rblocks, LAMBDA rb : \E k \in 1..Len(endedIds) : endedIds[k] = rb.id)

Fin == [nbursts |-> Len(Bursts(c)),
        preBtfs |-> [k \in 1..c.p |-> Bursts(c)[k].btf],
        hdrBtf |-> Bursts(c)[c.p + 1].btf,
        hdrPad |-> Pad(c.L, c.rate, c.conf),
        started |-> nstart, ended |-> nend,
        blocks |-> Handed, dataOk |-> TRUE, crc32Ok |-> TRUE, cc |-> 1, ccs |-> [k \in 1..Len(Bursts(c)) |-> Bursts(c)[k].cc]]

TrackerProperty == why = "ok"                          \* C08 monitor along the way
GeneratedIsReceived == Done => FinWhy(c, Fin) = "ok"   \* the C07 clauses
PadFits == Pad(c.L, c.rate, c.conf) \in 0..23          \* fits the 5-bit pad octet count

\* expectation of each configuration for the replay on the implementation
Expect == Done' => PrintT(ToJson([tag |-> "CFG", L |-> c.L, rate |-> c.rate, conf |-> c.conf, p |-> c.p,
                                  N |-> NBlocks(c.L, c.rate, c.conf), pad |-> Pad(c.L, c.rate, c.conf)]))
=============================================================================
