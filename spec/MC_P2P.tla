------------------------------- MODULE MC_P2P -------------------------------
EXTENDS P2P, Json

CONSTANTS MaxDepth

VARIABLES recs, mon, why, last
vars == <<recs, mon, why, last>>

A1 == [ip |-> "ip1", port |-> 1]
A2 == [ip |-> "ip1", port |-> 2]
A3 == [ip |-> "ip2", port |-> 1]
Srcs == {A1, A2, A3}
Out1 == [ip |-> "ip1", port |-> 50010]

D(c, o) == [cls |-> c, ovf |-> o]
Dgrams == {D(c, FALSE) : c \in {"reg", "dmr", "rdac", "ping", "ack", "unk", "garbage"}}
          \cup {D(c, TRUE) : c \in {"reg", "dmr", "rdac", "ping"}}

NoD == D("garbage", FALSE)
Init == recs = <<>> /\ mon = {} /\ why = "ok"
        /\ last = [op |-> "init", src |-> A1, d |-> NoD, cfg |-> A1, out |-> [sent |-> <<>>, out |-> "ok", recs |-> <<>>]]

Receive(src, d) ==
  LET r == Recv(recs, src, d)
      o == [sent |-> r.sent, out |-> r.out, recs |-> r.recs]
      m == MonRecv(mon, recs, src, d, o)
  IN recs' = r.recs /\ mon' = m[1] /\ why' = m[2]
     /\ last' = [op |-> "recv", src |-> src, d |-> d, cfg |-> A1, out |-> o]

Conf(src) ==
  /\ recs' = Configure(recs, src, Out1) /\ UNCHANGED <<mon, why>>
  /\ last' = [op |-> "configure", src |-> src, d |-> NoD, cfg |-> Out1,
              out |-> [sent |-> <<>>, out |-> "ok", recs |-> recs']]

Next == \E s \in Srcs : (\E d \in Dgrams : Receive(s, d)) \/ Conf(s)
Spec == Init /\ [][Next]_vars

PropertyHolds == why = "ok"
\* the gate really is the registration: nobody is served in a state without registered peers
MonMatchesStorage == RegisteredAddrs(recs) = mon
Bound == TLCGet("level") <= MaxDepth
View == <<recs, mon, why>>
Edge == PrintT(ToJson([tag |-> "EDGE", finit |-> (last.op = "init"), fv |-> <<recs, mon, why>>, tv |-> <<recs', mon', why'>>,
                       op |-> last'.op, src |-> last'.src, d |-> last'.d, cfg |-> last'.cfg]))
=============================================================================
