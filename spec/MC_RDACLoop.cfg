SPECIFICATION Spec
CONSTANTS
  Lose = 0
  Swap = 0
  Dup = 0
  InLoop = FALSE
PROPERTY EventuallyIdentified
INVARIANT CompletesAtMostOnce
INVARIANT CompletionMeansIdentified
INVARIANT StepsInRange
ACTION_CONSTRAINT Report
CHECK_DEADLOCK FALSE
