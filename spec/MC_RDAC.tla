------------------------------- MODULE MC_RDAC -------------------------------
EXTENDS RDAC, Json

CONSTANTS MaxDepth

VARIABLES st, why, last, ndone
vars == <<st, why, last, ndone>>

IPs == {"ip1", "ip2", "ip3"}
Steps == (0..14) \ {9}

D(c, k, lg, z) == [cls |-> c, k |-> k, long |-> lg, zero |-> z]
Dgrams == {D("reset", "none", FALSE, z) : z \in BOOLEAN}
          \cup {D("resp", k, lg, FALSE) : k \in {"FD", "10", "00", "FA"}, lg \in BOOLEAN}
          \cup {D("other", "none", FALSE, FALSE)}

\* every step is within the bound: the first peer starts anywhere, the others at 0 or 14
Init == /\ st \in {[ip1 |-> a, ip2 |-> b] : a \in Steps, b \in {0, 5, 13, 14}}
        /\ why = "ok" /\ ndone = 0
        /\ last = [ip |-> "ip1", d |-> D("other", "none", FALSE, FALSE), from |-> <<>>, done |-> 0, nsent |-> 0, out |-> "ok"]

Receive(ip, d) ==
  LET r == Recv(st, ip, d)
      o == [st |-> r.st, done |-> r.done, doneIsPeer |-> TRUE, out |-> r.out, nsent |-> r.nsent]
  IN st' = r.st /\ why' = MonRecv(st, r.st, ip, d, o) /\ ndone' = ndone + r.done
     /\ last' = [ip |-> ip, d |-> d, from |-> st, done |-> r.done, nsent |-> r.nsent, out |-> r.out]

Next == \E ip \in IPs, d \in Dgrams : Receive(ip, d)
Spec == Init /\ [][Next]_vars

PropertyHolds == why = "ok"
StepsInRange == \A ip \in DOMAIN st : st[ip] \in Steps
Bound == TLCGet("level") <= MaxDepth
View == <<st, why>>
Edge == PrintT(ToJson([tag |-> "EDGE", from |-> st, ip |-> last'.ip, d |-> last'.d]))
=============================================================================
