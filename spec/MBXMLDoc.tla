------------------------------- MODULE MBXMLDoc -------------------------------
(* MBXML byte buffers (motorola/mbxml.py from_bytes / as_bytes, lrrp.py):                 *)
(*   buffer   = document+                                                                 *)
(*   document = id(uintvar) length(uintvar) body ;  |body| = length                       *)
(*   body     = [cdt] token*          cdt only for document ids WITH constants table:     *)
(*   cdt      = 0x01 (table inherited from the previous document) | n(uintvar) n octets   *)
(*   token    = token id (uintvar) value ; the value encoding follows from the token's     *)
(*              kind in the per-document table (learned through LRRP.get_configuration)   *)
(* The parser is a state machine over the octet index; it must consume exactly the        *)
(* announced lengths and stop at the end of the buffer.                                   *)
EXTENDS MBXMLVar

\* length of the uintvar / sintvar starting at idx (0-based), or a large number when it runs off the end
VarLen(bytes, idx) ==
  LET S == {n \in 1..5 : idx + n <= Len(bytes) /\ bytes[idx + n] < 128 /\ \A m \in 1..(n - 1) : bytes[idx + m] >= 128}
  IN IF S = {} THEN 1000 ELSE CHOOSE n \in S : TRUE
\* lengths and ids: the value, saturated at 10^9 (a malformed buffer can hold a five-septet count; TLC integers are 32 bit and the
\* judge must give a verdict on every buffer the implementation produced, also on nonsense)
VarVal(bytes, idx) == LET r == ReadU(bytes, idx) IN IF r[1][1] >= 15000 THEN 1000000000 ELSE r[1][1] * 65536 + r[1][2]

\* octets occupied by the value of a token of the given kind starting at idx
ValueLen(kind, bytes, idx) ==
  CASE kind.k = "none" -> 0
    [] kind.k = "uint8" -> 1
    [] kind.k = "uintvar" -> VarLen(bytes, idx)
    [] kind.k \in {"ufloat", "sfloat"} -> LET a == VarLen(bytes, idx) IN a + VarLen(bytes, idx + a)
    [] kind.k = "fixed" -> kind.n
    [] kind.k = "counted" -> LET a == VarLen(bytes, idx) IN IF a > 5 THEN 1000 ELSE a + VarVal(bytes, idx)
    [] kind.k = "point2d" -> 8
    [] kind.k = "point3d" -> LET a == VarLen(bytes, idx + 8) IN 8 + a + VarLen(bytes, idx + 8 + a)
    [] kind.k = "circle2d" -> LET a == VarLen(bytes, idx + 8) IN 8 + a + VarLen(bytes, idx + 8 + a)
    [] kind.k = "attrs_counted" ->          \* kind.n attribute uintvars, then a counted opaque
         LET A[j \in 0..kind.n] == IF j = 0 THEN 0 ELSE LET p == A[j - 1] IN p + VarLen(bytes, idx + p)
             a == A[kind.n]
             l == VarLen(bytes, idx + a)
         IN IF l > 5 THEN 1000 ELSE a + l + VarVal(bytes, idx + a)
    [] kind.k = "attrs_none" ->             \* kind.n attribute uintvars and no content (result 0x37: result-code only)
         LET A[j \in 0..kind.n] == IF j = 0 THEN 0 ELSE LET p == A[j - 1] IN p + VarLen(bytes, idx + p)
         IN A[kind.n]
    [] OTHER -> 1000

\* token ids of a document body bytes[from+1 .. to], or <<-1>> appended when the chain does not end exactly at `to`
RECURSIVE TokenIds(_, _, _, _)
TokenIds(bytes, from, to, table) ==
  IF from = to THEN <<>>
  ELSE IF from > to THEN <<-1>>
  ELSE LET l == VarLen(bytes, from)
           tid == IF l > 5 THEN -1 ELSE VarVal(bytes, from)
       IN IF tid = -1 \/ ToString(tid) \notin DOMAIN table THEN <<-1>>
          ELSE LET v == ValueLen(table[ToString(tid)], bytes, from + l)
               IN IF v >= 1000 THEN <<tid, -1>> ELSE <<tid>> \o TokenIds(bytes, from + l + v, to, table)

\* framing of the buffer: sequence of [id, start (of body), end], or a trailing record with id = -1 when broken
RECURSIVE Frames(_, _)
Frames(bytes, idx) ==
  IF idx = Len(bytes) THEN <<>>
  ELSE IF idx > Len(bytes) THEN << [id |-> -1, from |-> idx, to |-> idx] >>
  ELSE LET a == VarLen(bytes, idx)
           b == IF a > 5 THEN 1000 ELSE VarLen(bytes, idx + a)
       IN IF a > 5 \/ b > 5 THEN << [id |-> -1, from |-> idx, to |-> idx] >>
          ELSE LET id == VarVal(bytes, idx)
                   n == VarVal(bytes, idx + a)
               IN << [id |-> id, from |-> idx + a + b, to |-> idx + a + b + n] >> \o Frames(bytes, idx + a + b + n)

\* start of the token chain inside a body, after an optional constants table
BodyStart(bytes, f, hasCdt) ==
  IF ~hasCdt THEN f.from
  ELSE LET l == VarLen(bytes, f.from)
           n == IF l > 5 THEN 1000 ELSE VarVal(bytes, f.from)
       IN IF n = 1 /\ l = 1 THEN f.from + 1 ELSE f.from + l + n
=============================================================================
