------------------------------ MODULE MC_MBXMLVar ------------------------------
(* C14: design level - Read(Canonical(v)) = v on all values up to 2^16 and on the       *)
(* septet-length boundaries; code level - TLC judges observed write/read calls.         *)
EXTENDS MBXMLVar, Json, IOUtils, TLC

D == JsonDeserialize(IOEnv.DATA_FILE)
VARIABLES phase, chunk, idx
vars == <<phase, chunk, idx>>
ChunkSize == 512
Size(ph) == CASE ph = "du" -> 65536 + Len(D.boundaries) [] ph = "u" -> Len(D.u) [] ph = "s" -> Len(D.s) [] ph = "f" -> Len(D.f)
              [] ph = "geo" -> Len(D.geo) [] ph = "time" -> Len(D.time)
Init == phase \in {"du", "u", "s", "f", "geo", "time"} /\ chunk \in 0..((Size(phase) + ChunkSize - 1) \div ChunkSize - 1) /\ idx = -1
Next == idx = -1 /\ idx' \in (chunk * ChunkSize)..((chunk + 1) * ChunkSize - 1) /\ idx' < Size(phase) /\ UNCHANGED <<phase, chunk>>
Spec == Init /\ [][Next]_vars

Judge(ph, i) ==
  CASE ph = "du" ->
         LET v == IF i < 65536 THEN <<0, i>> ELSE D.boundaries[i - 65536 + 1]
         IN [why |-> "ok", dr |-> IF ~UOk(v) THEN "design-uintvar-roundtrip"
                                  ELSE IF v[1] < 32768 /\ (~SOk(v, FALSE) \/ ~SOk(v, TRUE)) THEN "design-sintvar-roundtrip" ELSE "ok"]
    [] ph = "u" ->
         LET r == D.u[i + 1] IN
         [why |-> IF r.err # "" THEN "WriteRead/" \o r.err
                  ELSE IF r.w # CanonicalU(r.v) THEN "UintvarCanonicalShortest"
                  ELSE IF r.r # r.v THEN "UintvarReadsBackValue"
                  ELSE IF r.idx # Len(r.w) THEN "UintvarConsumesExactlyItsOctets" ELSE "ok",
          dr |-> "ok"]
    [] ph = "s" ->
         LET r == D.s[i + 1] IN
         [why |-> IF r.err # "" THEN "WriteRead/" \o r.err
                  ELSE IF r.w # CanonicalS(r.v, r.neg) THEN "SintvarCanonicalShortest"
                  ELSE IF r.r # r.v \/ (r.rneg # r.neg /\ r.v # <<0, 0>>) THEN "SintvarReadsBackValue"
                  ELSE IF r.idx # Len(r.w) THEN "SintvarConsumesExactlyItsOctets" ELSE "ok",
          dr |-> "ok"]
    [] ph = "f" ->
         LET r == D.f[i + 1]
             c == IF r.signed THEN CanonicalSFloat(r.v, r.neg, r.k, r.p) ELSE CanonicalUFloat(r.v, r.k, r.p)
         IN [why |-> IF r.err # "" THEN "WriteRead/" \o r.err
                     ELSE IF ~r.back_equal THEN "FloatRoundTrips"
                     ELSE IF r.idx # Len(r.w) THEN "FloatConsumesExactlyItsOctets" ELSE "ok",
             dr |-> IF r.err = "" /\ r.w # c THEN "float-octets-differ-from-canonical-form" ELSE "ok"]
    [] ph = "geo" ->
         LET r == D.geo[i + 1] IN
         [why |-> IF r.err # "" THEN "WriteDecode/" \o r.err ELSE IF ~r.back_equal THEN "CoordinateWriterInvertedByXmlFormula" ELSE "ok",
          dr |-> "ok"]
    [] ph = "time" ->
         LET r == D.time[i + 1] IN
         [why |-> IF r.err # "" THEN "WriteDecode/" \o r.err
                  ELSE IF ~r.back_equal THEN "InfoTimeWriterInvertedByXmlFormula" ELSE "ok",
          dr |-> IF r.err = "" /\ r.w # InfoTimeOctets(r.y, r.mo, r.d, r.h, r.mi, r.s) THEN "info-time-octets-differ-from-layout" ELSE "ok"]

Report ==
  LET j == Judge(phase, idx') IN
  /\ j.why # "ok" => PrintT(ToJson([tag |-> "REJECT", phase |-> phase, idx |-> idx', why |-> j.why]))
  /\ j.dr # "ok" => PrintT(ToJson([tag |-> "DRIFT", phase |-> phase, idx |-> idx', why |-> j.dr]))
=============================================================================
