------------------------------ MODULE MC_Detect ------------------------------
(* (1) design: the decision table over a domain of structured datagram heads - first octet from a set of interesting   *)
(*     values, a few lengths, colour-code octets equal or not - reporting which own-format promises it keeps;            *)
(* (2) binding: datagrams handed to the real parse_hytera_data / try_parse_packet, the decoder that answered (or the      *)
(*     decoder module the exception came from) compared with the table.                                                *)
EXTENDS Detect, Json, IOUtils, TLC, FiniteSets, SequencesExt

D == JsonDeserialize(IOEnv.DATA_FILE)       \* [obs: [[d, hytera, first]]]
VARIABLES phase, idx
vars == <<phase, idx>>

FirstOctets == {0, 2, 8, 9, 17, 50, 90, 126, 128, 130, 136, 137, 145, 191, 192, 255}
Lengths == {0, 1, 2, 7, 12, 21, 22, 72}
Heads == { [f |-> f, s |-> s, n |-> n, eq |-> eq] : f \in FirstOctets, s \in {0, 66, 90}, n \in Lengths, eq \in BOOLEAN }
\* a datagram with first octet f, second s, "ZZ" at 2..3, length n, colour octets 20/21 equal or not, other octets 1
Mk(h) == [i \in 1..h.n |-> IF i = 1 THEN h.f ELSE IF i = 2 THEN h.s ELSE IF i \in {3, 4} THEN 90
                           ELSE IF i = 21 THEN 5 ELSE IF i = 22 THEN (IF h.eq THEN 5 ELSE 6) ELSE 1]

HeadSeq == SetToSeq(Heads)
Init == phase \in {"design", "obs"} /\ idx = 0
Size(ph) == IF ph = "design" THEN Cardinality(Heads) ELSE Len(D.obs)
Next == idx = 0 /\ idx' \in 1..Size(phase) /\ UNCHANGED phase
Spec == Init /\ [][Next]_vars

Broken(d) == IF ~OwnHstrpRecognised(d) THEN "own-HSTRP-frame-routed-to-" \o Hytera(d)
             ELSE IF ~OwnHrnpRecognised(d) THEN "own-HRNP-frame-routed-to-" \o Hytera(d)
             ELSE IF ~OwnHdapRecognised(d) THEN "own-HDAP-frame-routed-to-" \o Hytera(d)
             ELSE IF ~OwnIpscRecognised(d) THEN "own-IPSC-frame-routed-to-" \o Hytera(d)
             ELSE IF ~HyteraNeverClaimsMmdvm(d) THEN "mmdvm-frame-claimed-by-" \o First(d)
             ELSE "ok"

Report ==
  /\ phase = "design" =>
        LET d == Mk(HeadSeq[idx']) IN
        Broken(d) # "ok" => PrintT(ToJson([tag |-> "DESIGN", why |-> Broken(d), first |-> d[1], n |-> Len(d)]))
  /\ phase = "obs" =>
        LET o == D.obs[idx'] IN
        /\ o.hytera # "skip" /\ o.hytera # Hytera(o.d) =>
              PrintT(ToJson([tag |-> "DRIFT", idx |-> idx' - 1, why |-> "parse_hytera_data selected " \o o.hytera \o ", table says " \o Hytera(o.d)]))
        /\ o.first # "skip" /\ o.first # "failed" /\ o.first # First(o.d) =>
              PrintT(ToJson([tag |-> "DRIFT", idx |-> idx' - 1, why |-> "try_parse_packet answered " \o o.first \o ", table says " \o First(o.d)]))
        /\ o.kind # "" /\ o.kind # Hytera(o.d) /\ Hytera(o.d) # "IndexError" =>
              PrintT(ToJson([tag |-> "OUTSIDE", idx |-> idx' - 1,
                             why |-> "protocol detection hands a datagram serialised by the library as " \o o.kind \o " to the " \o Hytera(o.d) \o " decoder"]))
=============================================================================
