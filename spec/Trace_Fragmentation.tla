-------------------------- MODULE Trace_Fragmentation --------------------------
(* Code -> spec for C07: one trace = one configuration run through the real              *)
(* TransmissionGenerator, serialised, re-parsed and fed to a real Terminal.              *)
(*   [cfg, ev, fin]   cfg = [L, rate, conf, p]; ev = tracker calls as in                 *)
(*   Trace_Transmission; fin = observed summary (see Fragmentation!FinWhy).              *)
EXTENDS Fragmentation, Json, IOUtils

Traces == JsonDeserialize(IOEnv.TRACE_FILE)

VARIABLES tid, l, slots, tok, mon, why, dr
vars == <<tid, l, slots, tok, mon, why, dr>>

Init == /\ tid \in 1..Len(Traces) /\ l = 0
        /\ slots = <<InitSlot(1), InitSlot(2)>> /\ tok = 2
        /\ mon = <<InitMon, InitMon>> /\ why = "ok" /\ dr = "ok"

Step ==
  /\ l < Len(Traces[tid].ev)
  /\ LET e == Traces[tid].ev[l + 1]
         r == JudgeEvent(slots, tok, mon, e)
     IN /\ l' = l + 1 /\ tid' = tid
        /\ slots' = e.post.slots /\ tok' = e.post.tok /\ mon' = r.mon
        /\ why' = IF why # "ok" THEN why ELSE r.why
        /\ dr' = IF dr # "ok" THEN dr ELSE r.dr

\* after the last burst: the C07 clauses on the observed summary, and the design model's
\* prediction of the burst classes / announcements (drift)
Final ==
  /\ l = Len(Traces[tid].ev)
  /\ LET t == Traces[tid]
         w == FinWhy(t.cfg, t.fin)
         B == Bursts(t.cfg)
         shape == [k \in 1..Len(B) |-> [cls |-> B[k].cls, btf |-> B[k].btf, a |-> B[k].a]]
     IN /\ l' = l + 1
        /\ why' = IF why # "ok" THEN why ELSE w
        /\ dr' = IF dr # "ok" THEN dr ELSE IF t.fin.shape # shape THEN "burst-shape" ELSE "ok"
  /\ UNCHANGED <<tid, slots, tok, mon>>

Done == l = Len(Traces[tid].ev) + 1 /\ UNCHANGED vars
Next == Step \/ Final \/ Done
Spec == Init /\ [][Next]_vars

Report ==
  /\ (why' # "ok" /\ why = "ok") => PrintT(ToJson([tag |-> "REJECT", tid |-> tid, l |-> l', why |-> why']))
  /\ (dr' # "ok" /\ dr = "ok") => PrintT(ToJson([tag |-> "DRIFT", tid |-> tid, l |-> l', why |-> dr']))
=============================================================================
