--------------------------------- MODULE MC_CRC ---------------------------------
(* C05.  Design level: for ALL bit strings up to MaxBits (per width) the bit-by-bit     *)
(* register and the table register equal the polynomial remainder; detection facts.     *)
(* Code level: observations of both calculators, both endianness flags, every length    *)
(* 0..400 and of the four front ends are recomputed by TLC.                             *)
EXTENDS CRC, Json, IOUtils, TLC

D == JsonDeserialize(IOEnv.DATA_FILE)
CONSTANT MaxBits

VARIABLES phase, a, b, idx
vars == <<phase, a, b, idx>>
ChunkSize == 64

\* phase "all": a = width, b = length, idx = value of the string;  phase "obs"/"fe": b = chunk, idx = sample
Init == \/ /\ phase = "all" /\ a \in Widths /\ b \in 0..(IF a = 32 THEN MaxBits - 3 ELSE MaxBits) /\ idx = -1
        \/ /\ phase = "obs" /\ a = 0 /\ b \in 0..((Len(D.obs) + ChunkSize - 1) \div ChunkSize - 1) /\ idx = -1
        \/ /\ phase = "fe" /\ a = 0 /\ b \in 0..((Len(D.fe) + ChunkSize - 1) \div ChunkSize - 1) /\ idx = -1
        \/ /\ phase = "design" /\ a = 0 /\ b = 0 /\ idx = -1
Next == /\ idx = -1
        /\ \/ phase = "all" /\ idx' \in 0..(2 ^ b - 1)
           \/ phase = "obs" /\ idx' \in (b * ChunkSize)..((b + 1) * ChunkSize - 1) /\ idx' < Len(D.obs)
           \/ phase = "fe" /\ idx' \in (b * ChunkSize)..((b + 1) * ChunkSize - 1) /\ idx' < Len(D.fe)
           \/ phase = "design" /\ idx' = 0
        /\ UNCHANGED <<phase, a, b>>
Spec == Init /\ [][Next]_vars

\* bit string of length n with value v, packed (n <= 16)
PackVal(v, n) == << v * (2 ^ (16 - n)) >>

Judge ==
  CASE phase = "all" ->
         LET s == PackVal(idx', b)
             r == Rem(s, b, a)
         IN [why |-> "ok",
             dr |-> IF BitwiseRegister(s, b, a) # r THEN "bitwise-register-model-differs-from-remainder"
                    ELSE IF TableRegister(s, b, a) # r THEN "table-register-model-differs-from-remainder" ELSE "ok"]
    [] phase = "obs" ->
         LET s == D.obs[idx' + 1]
             r == Rem(s.bits, s.n, s.w)
         IN [why |-> IF s.bitwise # r THEN "BitwiseEngineIsRemainder"
                     ELSE IF s.table # r THEN "TableEngineIsRemainder"
                     ELSE IF s.bitwise_le # r THEN "BitwiseEngineIsRemainder(little-endian bitarray)"
                     ELSE IF s.table_le # r THEN "TableEngineIsRemainder(little-endian bitarray)"
                     \* verify_checksum of both engines: true for the remainder, false for every other integer the harness
                     \* offered - one bit off, and values wider than the register whose low bits are the remainder
                     ELSE IF ~s.verify_same \/ s.verify_other THEN "VerificationAcceptsExactlyTheComputedValue"
                     ELSE "ok",
             dr |-> "ok"]
    [] phase = "fe" ->
         LET s == D.fe[idx' + 1] IN
         [why |->
            CASE s.kind = "crc8" -> IF s.out # Crc8(s.bits, s.n) THEN "Crc8FrontEnd" ELSE "ok"
              [] s.kind = "crc9" -> IF s.out # Crc9(s.bits, s.n, s.mask) THEN "Crc9FrontEnd" ELSE "ok"
              [] s.kind = "crc16" -> IF s.out # CrcCcitt(s.bits, s.n, s.mask) THEN "CrcCcittFrontEnd"
                                     ELSE IF ~s.check_same \/ s.check_other THEN "VerificationAcceptsExactlyTheComputedValue"
                                     ELSE "ok"
              [] s.kind = "crc32" -> IF s.out # Crc32(PackOctets(SwapOctets(s.octets)), 8 * Len(s.octets)) THEN "Crc32FrontEnd"
                                     ELSE IF ~s.check_same \/ s.check_other THEN "VerificationAcceptsExactlyTheComputedValue"
                                     ELSE "ok",
          dr |-> "ok"]
    [] phase = "design" ->
         [why |-> "ok",
          dr |-> IF \E w \in Widths : ~ConstantTermOne(w) THEN "generator-without-constant-term"
                 ELSE IF ~Weight123Detected96 THEN "ccitt-weight-1-3-not-detected-over-96-bits"
                 ELSE IF \E w \in Widths : FeedWidth(w) # (CASE w = 7 -> 7 [] w = 9 -> 9 [] OTHER -> 8) THEN "feed-width-rule"
                 ELSE "ok"]

Report ==
  LET j == Judge IN
  /\ j.why # "ok" => PrintT(ToJson([tag |-> "REJECT", phase |-> phase, idx |-> idx', why |-> j.why]))
  /\ j.dr # "ok" => PrintT(ToJson([tag |-> "DRIFT", phase |-> phase, idx |-> idx', a |-> a, b |-> b, why |-> j.dr]))
=============================================================================
