------------------------------- MODULE AirLink -------------------------------
(* Growth beyond the listed properties: the air link end to end.                            *)
(*   generator (Fragmentation.tla)  ->  channel  ->  burst parser  ->  tracker (Transmission) *)
(* The channel inverts bits of the 196-bit information field of a burst.  For payloads that  *)
(* are BPTC(196,96) coded (CSBK preambles, data header, rate 1/2 blocks) the receiving front *)
(* end corrects every error set of weight <= 2 - that is the result MC_BPTC19696 establishes *)
(* exhaustively (all 19 306 error sets, fact `design-leaves-info-errors` empty) and check C02 *)
(* binds to the decoder - so such noise is invisible to the tracker.  A burst hit harder is   *)
(* modelled as lost (the parser raises or the tracker ignores it); then only the tracker's    *)
(* own guarantees (C08) remain.                                                              *)
EXTENDS MC_Fragmentation

CONSTANT Noise                 \* per-burst numbers of inverted information bits the channel may choose from
VARIABLE clean                 \* no burst was lost so far
avars == <<vars, clean>>

Correctable(n) == n <= 2       \* C02 / MC_BPTC19696

AInit == Init /\ clean = TRUE
Deliver(n) == Correctable(n) /\ Feed /\ clean' = clean
Lose(n) == /\ ~Correctable(n) /\ i < Len(Bursts(c))
           /\ i' = i + 1 /\ clean' = FALSE
           /\ UNCHANGED <<c, slot, tok, mon, why, nstart, nend, rblocks, endedIds>>
ANext == \E n \in Noise : Deliver(n) \/ Lose(n)
ASpec == AInit /\ [][ANext]_avars

\* correctable noise is invisible: the C07 clauses hold exactly as over a clean channel
NoiseInvisible == (Done /\ clean) => FinWhy(c, Fin) = "ok"
\* whatever is lost, the tracker's own guarantees hold (no end without start, hand-over since start, ...)
TrackerSurvivesLoss == why = "ok"
\* a lost burst can only shorten what is delivered: at most one ended notification, never more blocks than were sent
LossOnlyShortens == nend <= 1 /\ nstart <= 2 /\ Len(rblocks) <= NBlocks(c.L, c.rate, c.conf)
=============================================================================
