---------------------------- MODULE MC_PcapFilter ----------------------------
(* (1) design facts of PcapFilter.tla over a small domain (TLC enumerates captures of up   *)
(* to MaxLen packets over 2 addresses x 3 ports and every filter setting);                 *)
(* (2) judging of observations of the real PcapTool.iter_pcap on generated capture files   *)
(* (DATA_FILE): calls and statistics as the model says - informational (tags DRIFT).       *)
EXTENDS PcapFilter, Json, IOUtils, TLC

CONSTANTS MaxLen, Mode            \* Mode = "design" | "judge"

Addrs == {"10.0.0.1", "10.0.0.2"}
Ports == {1, 2, 3}
Pkts == [ether : BOOLEAN, udp : {TRUE}, ip4 : BOOLEAN, load : BOOLEAN, src : Addrs, sport : Ports, dport : Ports, raises : {FALSE}]
\* a reduced packet alphabet keeps the product small: what matters per packet is which tests it passes
Alphabet == {p \in Pkts : (~p.ether => (p.ip4 /\ p.load /\ p.src = "10.0.0.1" /\ p.sport = 1 /\ p.dport = 1))
                          /\ (~p.ip4 => p.src = "10.0.0.1")}
Cfgs == [ipw : SUBSET Addrs, pw : SUBSET Ports, pb : SUBSET Ports]

D == IF Mode = "judge" THEN JsonDeserialize(IOEnv.DATA_FILE) ELSE [cases |-> <<>>]

VARIABLES pkts, cfg, idx
vars == <<pkts, cfg, idx>>

Init == IF Mode = "design" THEN pkts = <<>> /\ cfg \in Cfgs /\ idx = 0
        ELSE pkts = <<>> /\ cfg = [ipw |-> {}, pw |-> {}, pb |-> {}] /\ idx \in 1..Len(D.cases)
Next == /\ Mode = "design" /\ Len(pkts) < MaxLen
        /\ \E p \in Alphabet : pkts' = Append(pkts, p)
        /\ UNCHANGED <<cfg, idx>>
Spec == Init /\ [][Next]_vars

Facts ==
  Mode = "design" =>
    /\ StatsCountEveryUdpPacketTwice(pkts)
    /\ BlacklistWins(pkts, cfg)
    /\ \A q \in Ports : BlacklistMonotone(pkts, cfg, q) /\ WhitelistMonotone(pkts, cfg, q)
    /\ Stats(pkts) = Stats(SelectSeq(pkts, Counted))

\* ---- judging
CaseCfg(c) == [ipw |-> ToSet(c.ipw), pw |-> ToSet(c.pw), pb |-> ToSet(c.pb)]
ObsStats(c) == [q \in {c.stats[i][1] : i \in 1..Len(c.stats)} |->
                  LET i == CHOOSE i \in 1..Len(c.stats) : c.stats[i][1] = q IN c.stats[i][2]]
Verdict(c) ==
  IF c.err # "" THEN "raised-" \o c.err
  ELSE IF c.calls # Calls(c.pkts, CaseCfg(c)) THEN "calls-differ"
  ELSE IF ObsStats(c) # Stats(c.pkts) THEN "statistics-differ"
  ELSE "ok"
Report ==
  (Mode = "judge") =>
     LET c == D.cases[idx]  v == Verdict(c) IN
     v # "ok" => PrintT(ToJson([tag |-> "DRIFT", idx |-> idx - 1, why |-> v]))
JudgeAll == Mode = "judge" => Report
=============================================================================
