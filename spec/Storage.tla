------------------------------- MODULE Storage -------------------------------
(* Repeater storage (okdmr/dmrlib/storage/repeater_storage.py, repeater.py).              *)
(* One operator per method; the state is the insertion-ordered sequence of records the    *)
(* code keeps in its dict.  Deviations of the code are modelled, not idealised:           *)
(*   - delete_attr of a missing key raises (KeyError) although documented to return False *)
(*   - a dynamic attribute cannot hold None (attr(key, None) reads): None = absent.       *)
(* Used by: MC_Storage (exhaustive + edge dump), Trace_Storage (trace validation), P2P.   *)
EXTENDS Integers, Sequences, FiniteSets, SequencesExt, TLC

NoneV      == [t |-> "n", s |-> "", ip |-> "", port |-> 0]
StrV(x)    == [t |-> "s", s |-> x, ip |-> "", port |-> 0]
AddrV(a)   == [t |-> "a", s |-> "", ip |-> a.ip, port |-> a.port]
EmptyAddr  == [t |-> "a", s |-> "", ip |-> "", port |-> 0]

\* every data member Repeater.__init__ creates (id and logger are identity / plumbing, not data)
Builtin == {"address_in", "address_out", "address_nat", "callsign", "serial", "dmr_id", "snmp_enabled", "nat_enabled"}

\* the constructor defaults, as the harness projects them (numbers and booleans as their text)
Default(k, a) ==
  CASE k = "address_in" -> AddrV(a)
    [] k \in {"address_out", "address_nat"} -> EmptyAddr
    [] k = "dmr_id" -> NoneV                        \* create_repeater passes dmr_id=None
    [] k = "snmp_enabled" -> StrV("True")
    [] k = "nat_enabled" -> StrV("False")
    [] OTHER -> StrV("")

\* a record: id = creation index (stands for the UUID), f = built-in members, attrs = dynamic
NewRec(n, a, keys) ==
  [id |-> n,
   f |-> [k \in Builtin |-> Default(k, a)],
   attrs |-> [k \in keys |-> NoneV]]

\* Repeater.patch: setattr for members, attr() for the rest, None ignored there
PatchOne(r, kv) ==
  IF kv.k \in Builtin THEN [r EXCEPT !.f[kv.k] = kv.v]
  ELSE [r EXCEPT !.attrs[kv.k] = kv.v]          \* a dynamic attribute patched with None is taken away (None = absent)
ApplyPatch(r, p) == FoldLeft(PatchOne, r, p)

\* first index whose record satisfies P, 0 if none  (match_attr keeps the first hit)
FirstIdx(recs, P(_)) ==
  LET hits == {i \in 1..Len(recs) : P(recs[i])}
  IN IF hits = {} THEN 0 ELSE CHOOSE i \in hits : \A j \in hits : i <= j

IdxOfId(recs, id) == FirstIdx(recs, LAMBDA r : r.id = id)

\* ------------------------------------------------------------------ operations
\* every operation returns <<recs', ret, outcome>>; ret is a record id (0 = None) or a value

Result(recs, ret, val, out) == [recs |-> recs, ret |-> ret, val |-> val, out |-> out]

SaveAt(recs, i, p) ==                        \* RepeaterStorage.save on the record at index i
  IF Len(p) = 0 THEN Result(recs, IF i = 0 THEN 0 ELSE recs[i].id, NoneV, "ok")
  ELSE IF i = 0 THEN Result(recs, 0, NoneV, "ok")             \* nothing found, nothing patched: None comes back
  ELSE Result([recs EXCEPT ![i] = ApplyPatch(@, p)], recs[i].id, NoneV, "ok")

MatchIncoming(recs, a, auto, p, keys) ==
  LET i     == FirstIdx(recs, LAMBDA r : r.f["address_in"] = AddrV(a))
      grow  == i = 0 /\ auto
      recs1 == IF grow THEN Append(recs, NewRec(Len(recs) + 1, a, keys)) ELSE recs
      j     == IF grow THEN Len(recs1) ELSE i
  IN SaveAt(recs1, j, p)

Save(recs, id, p) == SaveAt(recs, IdxOfId(recs, id), p)

MatchAttr(recs, name, v) ==
  LET i == FirstIdx(recs, LAMBDA r : r.f[name] = v)
  IN Result(recs, IF i = 0 THEN 0 ELSE recs[i].id, NoneV, "ok")

MatchIp(recs, ip) ==
  LET i == FirstIdx(recs, LAMBDA r : r.f["address_in"].ip = ip)
  IN Result(recs, IF i = 0 THEN 0 ELSE recs[i].id, NoneV, "ok")

MatchUuid(recs, id) ==
  LET i == IdxOfId(recs, id)
  IN IF i = 0 THEN Result(recs, 0, NoneV, "raise") ELSE Result(recs, id, NoneV, "ok")

AttrRead(recs, id, k) ==
  LET i == IdxOfId(recs, id) IN Result(recs, id, recs[i].attrs[k], "ok")

AttrWrite(recs, id, k, v) ==                 \* value None means "read"
  LET i == IdxOfId(recs, id)
  IN IF v = NoneV THEN AttrRead(recs, id, k)
     ELSE Result([recs EXCEPT ![i].attrs[k] = v], id, v, "ok")

DeleteAttr(recs, id, k) ==
  LET i == IdxOfId(recs, id)
  IN IF recs[i].attrs[k] = NoneV THEN Result(recs, id, NoneV, "raise")
     ELSE Result([recs EXCEPT ![i].attrs[k] = NoneV], id, StrV("True"), "ok")

Patch(recs, id, p) ==
  LET i == IdxOfId(recs, id)
  IN Result([recs EXCEPT ![i] = ApplyPatch(@, p)], id, NoneV, "ok")

\* an action is a record with a fixed field set (so that logged JSON events are homogeneous)
\*   [op, addr, auto, patch, id, key, val]
Apply(recs, a, keys) ==
  CASE a.op = "match_incoming" -> MatchIncoming(recs, a.addr, a.auto, a.patch, keys)
    [] a.op = "save"           -> Save(recs, a.id, a.patch)
    [] a.op = "match_attr"     -> MatchAttr(recs, a.key, a.val)
    [] a.op = "match_ip"       -> MatchIp(recs, a.addr.ip)
    [] a.op = "match_uuid"     -> MatchUuid(recs, a.id)
    [] a.op = "attr_read"      -> AttrRead(recs, a.id, a.key)
    [] a.op = "attr_write"     -> AttrWrite(recs, a.id, a.key, a.val)
    [] a.op = "delete_attr"    -> DeleteAttr(recs, a.id, a.key)
    [] a.op = "patch"          -> Patch(recs, a.id, a.patch)
    \* save of a repeater the storage does not hold (create_repeater(address_in = a.addr), then save with a.patch): the object is
    \* patched and handed back, no record is added - records enter by an auto-creating lookup only (ret 0: not a record of the storage)
    [] a.op = "save_new"       -> Result(recs, 0, NoneV, "ok")

\* an action that names a record must name an existing one (the caller holds the object);
\* match_uuid may also ask for an unknown id
Enabled(recs, a) ==
  \/ a.op \in {"match_incoming", "match_attr", "match_ip", "match_uuid", "save_new"}
  \/ IdxOfId(recs, a.id) # 0

\* ------------------------------------------------------------------ the property (P level)
\* state predicates / action predicates over (recs, act, result)

IdsUnique(recs) == \A i, j \in 1..Len(recs) : recs[i].id = recs[j].id => i = j

AddrSet(recs) == {recs[i].f["address_in"] : i \in 1..Len(recs)}

IsLookup(a) == a.op \in {"match_attr", "match_ip", "match_uuid", "attr_read"}
               \/ (a.op = "match_incoming" /\ ~a.auto)

\* records grow only by an auto-creating lookup of an unseen address, by exactly one record
GrowRule(recs, a, r) ==
  LET grows == a.op = "match_incoming" /\ a.auto /\ AddrV(a.addr) \notin AddrSet(recs)
  IN /\ Len(r.recs) = Len(recs) + (IF grows THEN 1 ELSE 0)
     /\ \A i \in 1..Len(recs) : r.recs[i].id = recs[i].id            \* identities are stable

\* same address -> same record: a lookup by incoming address returns the first record that
\* carries it (and a fresh record has a fresh id)
SameAddressSameId(recs, a, r) ==
  (a.op = "match_incoming") =>
     LET i == FirstIdx(recs, LAMBDA x : x.f["address_in"] = AddrV(a.addr))
     IN IF r.out # "ok" THEN FALSE                       \* a lookup "returns": the record, or None - with or without a patch
        ELSE IF i # 0 THEN r.ret = recs[i].id
        ELSE IF a.auto THEN r.ret \notin {recs[k].id : k \in 1..Len(recs)} /\ r.ret # 0
        ELSE r.ret = 0

\* frame condition: only the named fields of the matched record change
\* a patch names built-in members AND dynamic attributes (a member name always means the member); attr / delete_attr name
\* a dynamic attribute only - also when its key happens to be spelt like a member ("address_in" kept as a note of the
\* application): the member of that name is another thing and stays
PatchNames(a) == IF a.op \in {"match_incoming", "save", "patch"} THEN {kv.k : kv \in Range(a.patch)} ELSE {}
TouchedMembers(a) == PatchNames(a) \cap Builtin
Touched(a) == IF a.op \in {"attr_write", "delete_attr"} THEN {a.key} ELSE PatchNames(a) \ Builtin

Frame(recs, a, r, keys) ==
  \A i \in 1..Len(recs) :
     LET old == recs[i]  new == r.recs[i] IN
     /\ (new # old => r.out = "ok" /\ new.id = r.ret)             \* only the matched record
     /\ \A k \in Builtin : new.f[k] # old.f[k] => k \in TouchedMembers(a)
     /\ \A k \in keys : new.attrs[k] # old.attrs[k] => k \in Touched(a)

\* a patch really sets the named fields (last writer wins, None ignored for dynamic keys)
PatchApplied(recs, a, r, keys) ==
  (a.op \in {"match_incoming", "save", "patch"} /\ r.out = "ok" /\ r.ret # 0) =>
     LET j == IdxOfId(r.recs, r.ret) IN
     \A n \in 1..Len(a.patch) :
        LET kv == a.patch[n]
            later == \E m \in (n + 1)..Len(a.patch) : a.patch[m].k = kv.k
        IN later \/ IF kv.k \in Builtin THEN r.recs[j].f[kv.k] = kv.v
                    ELSE r.recs[j].attrs[kv.k] = kv.v          \* None included: the named attribute is then absent

\* "of no other record" also holds for records that do not exist yet: an auto-created record carries only the
\* dynamic attributes its own creating call names (nothing written to another record earlier shows through)
FreshRecordHasOnlyNamedAttributes(recs, a, r, keys) ==
  Len(r.recs) > Len(recs) =>
     \A i \in (Len(recs) + 1)..Len(r.recs) : \A k \in keys : r.recs[i].attrs[k] # NoneV => k \in Touched(a)

LookupNeverGrows(recs, a, r) ==
  /\ IsLookup(a) => Len(r.recs) = Len(recs)
  /\ (IsLookup(a) /\ (a.op = "match_incoming" => Len(a.patch) = 0)) => r.recs = recs

StepOK(recs, a, r, keys) ==
  /\ IdsUnique(r.recs)
  /\ GrowRule(recs, a, r)
  /\ SameAddressSameId(recs, a, r)
  /\ Frame(recs, a, r, keys)
  /\ PatchApplied(recs, a, r, keys)
  /\ FreshRecordHasOnlyNamedAttributes(recs, a, r, keys)
  /\ LookupNeverGrows(recs, a, r)

\* "one record per source address": a step does not make two records carry the same incoming address (judged at the step that
\* does it, last of all clauses; not part of StepOK - the design model mirrors the code, which lets a patch of address_in do it)
Shared(rs) == \E i, j \in 1..Len(rs) : i # j /\ rs[i].f["address_in"] = rs[j].f["address_in"]
OneRecordPerAddress(recs, r) == Shared(r.recs) => Shared(recs)

\* name of the first clause that fails (used by trace validation for total verdicts)
WhyNot(recs, a, r, keys) ==
  IF ~IdsUnique(r.recs) THEN "IdsUnique"
  ELSE IF ~GrowRule(recs, a, r) THEN "GrowRule"
  ELSE IF ~SameAddressSameId(recs, a, r) THEN "SameAddressSameId"
  ELSE IF ~Frame(recs, a, r, keys) THEN "Frame"
  ELSE IF ~PatchApplied(recs, a, r, keys) THEN "PatchApplied"
  ELSE IF ~FreshRecordHasOnlyNamedAttributes(recs, a, r, keys) THEN "FreshRecordHasOnlyNamedAttributes"
  ELSE IF ~LookupNeverGrows(recs, a, r) THEN "LookupNeverGrows"
  ELSE IF ~OneRecordPerAddress(recs, r) THEN "OneRecordPerAddress"
  ELSE "ok"
=============================================================================
