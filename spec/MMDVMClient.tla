--------------------------- MODULE MMDVMClient ---------------------------
(* Growth beyond the listed properties: the Homebrew / MMDVM repeater client                          *)
(* (okdmr/dmrlib/protocols/mmdvm/mmdvm_client_protocol.py, MMDVMClientProtocol) as a function from     *)
(* (client state, event) to (client state, datagrams written to the transport).  One operator per     *)
(* method of the class; the state is what a caller can see: connection_status, the transport's        *)
(* condition, what waits in queue_outgoing, how many DMR packets were put on queue_incoming, how      *)
(* often connection_lost_callback ran.                                                                *)
(*                                                                                                    *)
(* Messages are records [k, ch, for]: k = the Homebrew command (client: RPTL login request, RPTK      *)
(* challenge response, RPTC configuration, RPTPING, RPTCL; master: ACK = RPTACK, NAK = MSTNAK, PONG =  *)
(* MSTPONG, CL = MSTCL, DMRD, OTHER = anything else that parses), ch = the challenge an RPTACK carries *)
(* / an RPTK answers, for = model-only: which request an RPTACK answers ("L", "K", "C") - on the wire   *)
(* all three are the same six octets + four, the client can only go by its own status.                 *)
EXTENDS Integers, Sequences

CONSTANT ResendInRespSent      \* FALSE: periodic_maintenance as committed - no branch for CON_LOGIN_RESPONSE_SENT

Msg(k, ch, f) == [k |-> k, ch |-> ch, for |-> f]
ClientMsg(k, ch) == Msg(k, ch, "")

C0 == [st |-> "New", tr |-> "none", outq |-> <<>>, inq |-> 0, cb |-> 0]

Q(c, m) == [c EXCEPT !.outq = Append(@, m)]
SendLoginRequest(c)      == Q([c EXCEPT !.st = "ReqSent"], ClientMsg("RPTL", 0))          \* send_login_request
SendLoginResponse(c, ch) == Q([c EXCEPT !.st = "RespSent"], ClientMsg("RPTK", ch))        \* send_login_response(challenge)
SendConfiguration(c)     == Q(c, ClientMsg("RPTC", 0))                                    \* send_configuration
SendPing(c)              == Q(c, ClientMsg("RPTPING", 0))                                 \* send_ping
SendClosing(c)           == Q(c, ClientMsg("RPTCL", 0))                                   \* send_closing

\* one wake-up of periodic_maintenance
PeriodicMaintenance(c) ==
  CASE c.st \in {"New", "ReqSent"} -> SendLoginRequest(c)
    [] c.st = "Ok"                 -> SendPing(c)
    [] c.st = "AuthFailed"         -> SendLoginRequest(c)          \* status reset to New, then the request
    [] OTHER                       -> IF ResendInRespSent THEN SendLoginRequest(c) ELSE c

\* connection_made(transport): a transport is taken only if there is none or the old one is closing
ConnectionMade(c) ==
  IF c.tr = "open" THEN c
  ELSE LET c1 == [c EXCEPT !.tr = "open"] IN IF c.st # "Ok" THEN SendLoginRequest(c1) ELSE c1

\* the transport starts closing (asyncio does this before it calls connection_lost)
TransportCloses(c) == [c EXCEPT !.tr = IF @ = "open" THEN "closing" ELSE @]
\* connection_lost(exc): status New, callback; the transport attribute is kept
ConnectionLost(c)  == [c EXCEPT !.st = "New", !.cb = @ + 1]
\* disconnect()
Disconnect(c) == IF c.tr = "open" THEN SendClosing(c) ELSE c

\* datagram_received
DatagramReceived(c, m) ==
  CASE m.k = "NAK"  -> (CASE c.st \in {"ReqSent", "RespSent"} -> [c EXCEPT !.st = "New"]
                          [] c.st = "Ok"                      -> SendLoginRequest(c)
                          [] OTHER                            -> c)
    [] m.k = "ACK"  -> (CASE c.st = "ReqSent"  -> SendLoginResponse(c, m.ch)
                          [] c.st = "RespSent" -> SendConfiguration([c EXCEPT !.st = "Ok"])
                          [] OTHER             -> c)
    [] m.k = "PONG" -> c
    [] m.k = "CL"   -> [c EXCEPT !.st = "New"]
    [] m.k = "DMRD" -> [c EXCEPT !.inq = @ + 1]
    [] OTHER        -> c

\* one turn of send_mmdvm_from_queue: the packet at the head of queue_outgoing is written to the transport if that is
\* usable - and is dropped otherwise
PumpSends(c) == IF c.outq # <<>> /\ c.tr = "open" THEN <<Head(c.outq)>> ELSE <<>>
Pump(c)      == IF c.outq = <<>> THEN c ELSE [c EXCEPT !.outq = Tail(@)]

\* events of the open system: [a |-> name, m |-> message (for "recv")]
NoMsg == Msg("", 0, "")
Ev(a) == [a |-> a, m |-> NoMsg]
Client(c, e) ==
  CASE e.a = "tick"  -> [c |-> PeriodicMaintenance(c), sent |-> <<>>]
    [] e.a = "made"  -> [c |-> ConnectionMade(c), sent |-> <<>>]
    [] e.a = "close" -> [c |-> TransportCloses(c), sent |-> <<>>]
    [] e.a = "lost"  -> [c |-> ConnectionLost(c), sent |-> <<>>]
    [] e.a = "disc"  -> [c |-> Disconnect(c), sent |-> <<>>]
    [] e.a = "recv"  -> [c |-> DatagramReceived(c, e.m), sent |-> <<>>]
    [] e.a = "pump"  -> [c |-> Pump(c), sent |-> PumpSends(c)]
    [] OTHER         -> [c |-> c, sent |-> <<>>]

\* what the binding compares: status, transport, the commands waiting in the queue with their challenge, counters
Kinds(q) == [i \in 1..Len(q) |-> [k |-> q[i].k, ch |-> q[i].ch]]
Project(c) == [st |-> c.st, tr |-> c.tr, outq |-> Kinds(c.outq), inq |-> c.inq, cb |-> c.cb]
=============================================================================
