SPECIFICATION Spec
CONSTANTS
  MaxDepth = 4
  MaxRecs = 2
PROPERTY StepProperty
CONSTRAINT Bound
VIEW View
ACTION_CONSTRAINT Edge
CHECK_DEADLOCK FALSE
