----------------------------- MODULE Transmission -----------------------------
(* Per-timeslot transmission tracker: okdmr/dmrlib/transmission/transmission.py,          *)
(* timeslot.py, terminal.py.  Functional style: one operator per method, the object is a  *)
(* record, a step is Timeslot.process_burst.                                              *)
(*                                                                                        *)
(* (D) design level: TxStep mirrors the code, including its particularities:              *)
(*   - process_data has no type check (a rate block is appended in any state);            *)
(*   - the VoiceBursts branch of process_packet compares DataTypes with VoiceBursts       *)
(*     members and never fires, so voice bursts do not move the block counters;           *)
(*   - last_voice_burst survives new_transmission; `finished` is never set;               *)
(*   - a terminator in a data transmission resets to idle without an event;               *)
(*   - stream ids come from one token source shared by all timeslots (tok).               *)
(* (P) property level: Monitor* operators judge OBSERVED outputs only (events, label,     *)
(*   sequence number, stream id, outcome, type after the step).                           *)
EXTENDS Integers, Sequences, TLC

CONSTANT GuardEndData   \* TRUE: end_data_transmission only acts in a data transmission
                        \* (the repaired code); FALSE: the pinned code (only "not idle")

\* ---------------------------------------------------------------- bursts (the alphabet)
\* cls: VH voice LC header | TERM terminator with LC | VS voice burst with voice sync |
\*      VE voice burst with embedded signalling | DH data header | PRE preamble CSBK |
\*      CSBK any other CSBK | R12 R34 R1 rate-coded data block | OTHER tracked-but-ignored
\*      data types (PI header, idle, MBC, unified single block)
\* id: position of the burst in the history (0 in the bounded model)
\* btf: blocks to follow (DH: get_blocks_to_follow() or 0 when None; PRE: the field)
\* a: response-requested bit of a data header;  cc: colour code
Classes == {"VH", "TERM", "VS", "VE", "DH", "PRE", "CSBK", "R12", "R34", "R1", "OTHER"}
IsVoiceBurst(b) == b.cls \in {"VS", "VE"}          \* no slot type => data_type = Reserved
Appendable(b)   == b.cls \in {"DH", "PRE", "CSBK", "R12", "R34", "R1"}

NoHdr == [kind |-> "None", id |-> 0]
Started(k)            == [e |-> "started", k |-> k, hk |-> "None", hid |-> 0, blocks |-> <<>>]
Ended(k, hdr, blocks) == [e |-> "ended", k |-> k, hk |-> hdr.kind, hid |-> hdr.id, blocks |-> blocks]

SuccLabel(l) == CASE l = "A" -> "B" [] l = "B" -> "C" [] l = "C" -> "D"
                  [] l = "D" -> "E" [] l = "E" -> "F" [] l = "F" -> "A" [] OTHER -> "A"

\* ---------------------------------------------------------------- Transmission object
InitTx(tok) == [type |-> "Idle", hdr |-> NoHdr, blocks |-> <<>>, expected |-> 0, received |-> 0,
                confirmed |-> FALSE, lastVoice |-> "Unknown", stream |-> tok]

\* working record of one process_burst call: w = [tx, ev, tok, reset]
\*   ev: events notified so far, tok: token source, reset: Timeslot.reset_rx_sequence

Reset(w, k) ==                                  \* the assignments of new_transmission
  [w EXCEPT !.tx = [type |-> k, hdr |-> NoHdr, blocks |-> <<>>, expected |-> 0, received |-> 0,
                    confirmed |-> FALSE, lastVoice |-> w.tx.lastVoice, stream |-> w.tok + 1],
            !.tok = w.tok + 1,
            !.ev = IF k # "Idle" THEN Append(w.ev, Started(k)) ELSE w.ev]

EndData(w) ==                                   \* end_data_transmission
  IF w.tx.hdr.kind = "None" \/ w.tx.type = "Idle" \/ (GuardEndData /\ w.tx.type # "Data") THEN w
  ELSE Reset([w EXCEPT !.ev = Append(w.ev, Ended("Data", w.tx.hdr, w.tx.blocks)), !.reset = TRUE], "Idle")

EndVoice(w) ==                                  \* end_voice_transmission
  IF w.tx.type = "Idle" THEN w
  ELSE Reset(IF w.tx.hdr.kind = "FLC"
             THEN [w EXCEPT !.ev = Append(w.ev, Ended("Voice", w.tx.hdr, w.tx.blocks)), !.reset = TRUE]
             ELSE w, "Idle")

NewTx(w, k) == Reset(IF k # "Idle" /\ w.tx.type = "Data" THEN EndData(w) ELSE w, k)
Ensure(w, k) == IF w.tx.type = k THEN w ELSE NewTx(w, k)

IsLast(tx, d) == tx.expected # 0 /\ tx.expected = tx.received + d

ProcessVoiceHeader(w, b) ==
  LET w1 == Ensure(w, "Voice")
  IN [w1 EXCEPT !.tx.hdr = [kind |-> "FLC", id |-> b.id],
                !.tx.expected = @ + 2, !.tx.received = @ + 1]

ProcessDataHeader(w, b) ==
  LET w1 == Ensure(w, "Data")
  IN [w1 EXCEPT !.tx.expected = IF b.btf > 0 /\ @ = 0 THEN b.btf + 1 ELSE @,
                !.tx.hdr = [kind |-> "DH", id |-> b.id],
                !.tx.received = @ + 1,
                !.tx.blocks = Append(@, b.id),
                !.tx.confirmed = b.a]

ProcessCsbk(w, b) ==
  LET w1 == Ensure(w, "Data")
  IN [w1 EXCEPT !.tx.expected = IF b.cls = "PRE" /\ @ = 0 THEN b.btf + 1 ELSE @,
                !.tx.received = @ + 1,
                !.tx.blocks = Append(@, b.id)]

ProcessData(w, b) ==
  LET last == IsLast(w.tx, 1)                   \* decides the typed re-parse
      w1 == [w EXCEPT !.tx.received = @ + 1, !.tx.blocks = Append(@, b.id)]
  IN IF last THEN EndData(w1) ELSE w1

EndTransmissions(w) ==
  IF w.tx.type = "Data" THEN EndData(w) ELSE IF w.tx.type = "Voice" THEN EndVoice(w) ELSE w

\* fix_voice_burst_type: returns <<label, lastVoice'>>
FixVoice(tx, b) ==
  LET built == IF b.cls = "VS" THEN "A" ELSE "Unknown"     \* label set by Burst.__init__
  IN IF tx.type # "Voice" THEN <<built, tx.lastVoice>>
     ELSE LET l == IF b.cls = "VS" \/ (tx.lastVoice = "F" /\ IsVoiceBurst(b)) THEN "A"
                   ELSE IF IsVoiceBurst(b) /\ tx.lastVoice \in {"A", "B", "C", "D", "E"}
                        THEN SuccLabel(tx.lastVoice)
                   ELSE built
          IN <<l, IF IsVoiceBurst(b) THEN l ELSE tx.lastVoice>>     \* the position moves with voice bursts only

ProcessPacket(w0, b) ==                         \* Transmission.process_packet
  LET fv == FixVoice(w0.tx, b)
      w  == [w0 EXCEPT !.tx.lastVoice = fv[2]]
      w1 == CASE b.cls = "VH"   -> ProcessVoiceHeader(w, b)
              [] b.cls = "DH"   -> ProcessDataHeader(w, b)
              [] b.cls \in {"PRE", "CSBK"} -> ProcessCsbk(w, b)
              [] b.cls = "TERM" -> EndVoice([w EXCEPT !.tx.received = @ + 1])
              [] b.cls \in {"R12", "R34", "R1"} -> ProcessData(w, b)
              [] OTHER -> w
      w2 == IF IsLast(w1.tx, 0) THEN EndTransmissions(w1) ELSE w1
  IN <<w2, fv[1]>>

\* ---------------------------------------------------------------- Timeslot object
InitSlot(tok) == [tx |-> InitTx(tok), rx |-> 0, reset |-> FALSE, colour |-> 0]

\* Timeslot.process_burst: returns [slot, tok, out]
SlotStep(s, tok, b) ==
  LET colour == IF b.cls # "VS" /\ b.cc >= 0 THEN b.cc ELSE s.colour     \* voice sync (and the Reserved sync, cc -1) carries no colour code
      r   == ProcessPacket([tx |-> s.tx, ev |-> <<>>, tok |-> tok, reset |-> s.reset], b)
      w   == r[1]
      seq == (s.rx + 1) % 256
  IN [slot |-> [tx |-> w.tx, rx |-> IF w.reset THEN 0 ELSE seq, reset |-> FALSE, colour |-> colour],
      tok  |-> w.tok,
      out  |-> [ev |-> w.ev, label |-> r[2], seq |-> seq, stream |-> w.tx.stream, outcome |-> "ok"]]

\* TransmissionWatcher.end_all_transmissions on one timeslot (no burst, no sequence number)
SlotEndAll(s, tok) ==
  LET w == EndTransmissions([tx |-> s.tx, ev |-> <<>>, tok |-> tok, reset |-> s.reset])
  IN [slot |-> [s EXCEPT !.tx = w.tx, !.reset = w.reset], tok |-> w.tok,
      out |-> [ev |-> w.ev, label |-> "Unknown", seq |-> 0, stream |-> w.tx.stream, outcome |-> "ok"]]

\* ---------------------------------------------------------------- (P) the property monitor
\* monitor state of one timeslot, fed with observations only
InitMon == [open |-> "None",       \* kind of the started-and-not-ended transmission
            shdrV |-> 0,           \* id of the last voice LC header since the start
            shdrD |-> 0,           \* id of the last data header since the start
            since |-> <<>>,        \* ids of the block-type bursts received since the start
            run |-> "None",        \* label of the previous burst of a run sync,voice,voice...
            pseq |-> 0,            \* previous sequence number
            ended |-> FALSE,       \* previous burst delivered an `ended`
            deferred |-> FALSE,    \* an `ended` was delivered outside process_burst
                                   \* (end_all_transmissions): the code then restarts the
                                   \* sequence one burst late
            maxStream |-> 2]       \* largest stream token seen (two timeslots exist)

\* absorb the burst into the "since start" shadow
Absorb(m, b) ==
  [m EXCEPT !.since = IF Appendable(b) THEN Append(@, b.id) ELSE @,
            !.shdrV = IF b.cls = "VH" THEN b.id ELSE @,
            !.shdrD = IF b.cls = "DH" THEN b.id ELSE @]

\* one event against the monitor: returns <<m', why>>
MonEvent(m, e) ==
  IF e.e = "started"
  THEN <<[m EXCEPT !.open = e.k, !.since = <<>>, !.shdrV = 0, !.shdrD = 0], "ok">>
  ELSE LET why == IF m.open # e.k THEN "EndMatchesOpenStart"
                  ELSE IF e.k = "Voice" /\ ~(e.hk = "FLC" /\ e.hid = m.shdrV) THEN "EndHandsOverHeader"
                  ELSE IF e.k = "Data" /\ ~(e.hk = "DH" /\ e.hid = m.shdrD) THEN "EndHandsOverHeader"
                  ELSE IF e.blocks # m.since THEN "EndHandsOverBlocks"
                  ELSE "ok"
       IN <<[m EXCEPT !.open = "None"], why>>

\* the burst is absorbed after the last `started` of the step (it belongs to the transmission
\* it starts), otherwise before the events (it belongs to the transmission it ends)
LastStarted(ev) == LET S == {i \in 1..Len(ev) : ev[i].e = "started"}
                   IN IF S = {} THEN 0 ELSE CHOOSE i \in S : \A j \in S : j <= i

RECURSIVE MonEvents(_, _, _, _, _)
MonEvents(m, ev, i, b, at) ==       \* fold events i..Len(ev); absorb b when i = at + 1
  LET m0 == IF i = at + 1 THEN Absorb(m, b) ELSE m
  IN IF i > Len(ev) THEN <<m0, "ok">>
     ELSE LET r == MonEvent(m0, ev[i])
          IN IF r[2] # "ok" THEN r ELSE MonEvents(r[1], ev, i + 1, b, at)

HasEnded(ev) == \E i \in 1..Len(ev) : ev[i].e = "ended"

\* MonStep(m, b, o, typeAfter): o = observed out of the step; returns <<m', why>>
MonStep(m, b, o, typeAfter) ==
  LET r   == MonEvents(m, o.ev, 1, b, LastStarted(o.ev))
      m1  == r[1]
      why ==
        IF o.outcome # "ok" THEN "NeverFails"
        ELSE IF r[2] # "ok" THEN r[2]
        ELSE IF HasEnded(o.ev) /\ o.ev[Len(o.ev)].e = "ended" /\ typeAfter # "Idle" THEN "AfterEndIdle"
        ELSE IF HasEnded(o.ev) /\ o.stream <= m.maxStream THEN "AfterEndFreshStream"
        ELSE IF o.seq # (IF m.ended THEN 1 ELSE (m.pseq + 1) % 256) THEN "RxSeqCounts"
        ELSE IF m.open = "Voice" /\ m1.open = "Voice" /\ b.cls = "VS" /\ o.label # "A" THEN "VoiceLabelsCyclic"
        ELSE IF m.open = "Voice" /\ m1.open = "Voice" /\ b.cls = "VE" /\ m.run # "None"
                /\ o.label # SuccLabel(m.run) THEN "VoiceLabelsCyclic"
        ELSE "ok"
      run == IF o.ev # <<>> \/ m1.open # "Voice" THEN "None"
             ELSE IF ~IsVoiceBurst(b) THEN m.run          \* a header / CSBK / data burst heard in between is not one of "the bursts" labelled
             ELSE IF b.cls = "VS" THEN "A"
             ELSE IF m.run # "None" THEN SuccLabel(m.run) ELSE "None"     \* the label the statement asks for (total: never the observed one)
  IN <<[m1 EXCEPT !.run = run, !.pseq = o.seq, !.ended = HasEnded(o.ev) \/ m.deferred, !.deferred = FALSE,
                  !.maxStream = IF o.stream > @ THEN o.stream ELSE @], why>>

\* ---------------------------------------------------------------- judging a recorded call
\* e = [ts, op, b, out, post, obs] as recorded by the harness (see Trace_Transmission);
\* slots/mon are 2-element sequences.  Returns [why, dr, mon]: verdict of the monitor on the
\* observation, first difference to the design model, monitor state afterwards.
NoB == [cls |-> "OTHER", id |-> 0, btf |-> 0, a |-> FALSE, cc |-> 0]

JudgeEvent(slots, tok, mon, e) ==
  LET i  == e.ts
      j  == 3 - i
      isBurst == e.op = "burst"
      r  == IF isBurst THEN SlotStep(slots[i], tok, e.b) ELSE SlotEndAll(slots[i], tok)
      m  == IF isBurst THEN MonStep(mon[i], e.b, e.out, e.post.slots[i].tx.type)
            ELSE LET x == MonEvents(mon[i], e.out.ev, 1, NoB, Len(e.out.ev) + 5)
                 IN <<[x[1] EXCEPT !.run = "None", !.deferred = HasEnded(e.out.ev) \/ @,
                                   !.maxStream = IF e.out.stream > @ THEN e.out.stream ELSE @],
                      IF e.out.outcome # "ok" THEN "NeverFails" ELSE x[2]>>
      w  == IF m[2] # "ok" THEN m[2]
            ELSE IF \E k \in 1..Len(e.obs) : e.obs[k] # e.out.ev THEN "ObserverIsolation"
            ELSE IF e.post.slots[j] # slots[j] THEN "TimeslotsIndependent"
            ELSE "ok"
      d  == IF r.slot # e.post.slots[i] THEN "state"
            ELSE IF r.tok # e.post.tok THEN "token"
            ELSE IF r.out # e.out THEN "output" ELSE "ok"
  IN [why |-> w, dr |-> d, mon |-> [mon EXCEPT ![i] = m[1]]]
=============================================================================
