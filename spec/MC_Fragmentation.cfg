SPECIFICATION Spec
CONSTANTS
  GuardEndData = TRUE
  Crc32InEveryBlock = FALSE
  MaxL = 130
  LStride = 1
  Preambles = {0, 1, 3}
INVARIANT TrackerProperty
INVARIANT GeneratedIsReceived
INVARIANT PadFits
ACTION_CONSTRAINT Expect
CHECK_DEADLOCK FALSE
