------------------------------ MODULE MC_PDUJudge ------------------------------
(* C03, code level: TLC judges what the implementation did with                         *)
(*  cases : PDUs built from field values  [name, vals, err, n, bits, dec, bits2]        *)
(*  raws  : arbitrary right-length bit strings [family, n, outcome, n1, bits1, bits2]   *)
(*  elems : every value of every element enumeration [enum, w, v, defined, result, rname, wbits, back, bits] *)
(*  gps   : GPS-info link controls built from in-range coordinates that are NOT on the    *)
(*          25 / 24 bit grid: [w, raw, quarter, err, n, total, dec] - the built value is   *)
(*          (raw + quarter/4) steps (raw signed), dec the signed grid index decoded back  *)
EXTENDS PDULayouts, Elements, Json, IOUtils, TLC

D == JsonDeserialize(IOEnv.DATA_FILE)
VARIABLES phase, chunk, idx
vars == <<phase, chunk, idx>>
ChunkSize == 64
Size(ph) == CASE ph = "case" -> Len(D.cases) [] ph = "raw" -> Len(D.raws) [] ph = "elem" -> Len(D.elems) [] ph = "gps" -> Len(D.gps)
Init == phase \in {"case", "raw", "elem", "gps"} /\ chunk \in 0..((Size(phase) + ChunkSize - 1) \div ChunkSize - 1) /\ idx = -1
Next == idx = -1 /\ idx' \in (chunk * ChunkSize)..((chunk + 1) * ChunkSize - 1) /\ idx' < Size(phase) /\ UNCHANGED <<phase, chunk>>
Spec == Init /\ [][Next]_vars

\* the documented "undefined / not implemented" errors (an AssertionError is not one of them; none occurs on the unchanged tree)
DocumentedErrors == {"ValueError", "KeyError", "NotImplementedError"}

Judge(ph, i) ==
  CASE ph = "case" ->
         LET c == D.cases[i + 1]
             L == All[c.name].L
             bad == {j \in 1..Len(L) : L[j].k \in {"u", "c", "r"} /\
                       FieldOf(L, c.bits, j) # (CASE L[j].k = "u" -> c.vals[L[j].f] [] L[j].k = "c" -> L[j].v [] OTHER -> 0)}
         IN [why |-> IF c.err # "" THEN "BuildSerialiseParse/" \o c.err
                     ELSE IF c.n # All[c.name].total THEN "FixedLength"
                     ELSE IF \E f \in DOMAIN c.vals : c.dec[f] # c.vals[f] THEN
                            "FieldSurvives/" \o (CHOOSE f \in DOMAIN c.vals : c.dec[f] # c.vals[f])
                     ELSE IF c.bits2 # c.bits THEN "BitsSurvive"
                     \* "decodes back to equal field values": a field held as an object of the library (service options, fragment
                     \* sequence number ...) compares equal - with == - to the one the PDU was built from when their values are the same
                     ELSE IF c.objneq # "" THEN "FieldObjectsCompareEqual/" \o c.objneq
                     ELSE "ok",
             dr |-> IF c.err = "" /\ c.n = All[c.name].total /\ bad # {} THEN "serialised-field-differs-from-layout/" \o L[CHOOSE j \in bad : TRUE].f ELSE "ok"]
    [] ph = "raw" ->
         LET r == D.raws[i + 1] IN
         [why |-> IF r.outcome # "ok" THEN (IF r.outcome \in DocumentedErrors THEN "ok" ELSE "UndocumentedDecodeError/" \o r.outcome)
                  ELSE IF r.n1 # r.n THEN "FixedLength(decoded arbitrary bits)"
                  ELSE IF r.bits2 # r.bits1 THEN "DecodeThenEncodeIsFixedPoint" ELSE "ok",
          dr |-> "ok"]
    [] ph = "elem" ->
         LET e == D.elems[i + 1] IN
         [why |-> IF e.defined /\ e.result # e.v THEN "DefinedValueMapsToItself"
                  ELSE IF e.result = -2 THEN "UndefinedValueMapsToNothing"
                  ELSE IF ~e.defined /\ e.result >= 0 /\ ClassOf(e.enum, e.v) # "" /\ e.rname # ClassOf(e.enum, e.v)
                       THEN "UndefinedValueMapsToStandardsReservedMember"
                  \* a defined value's member serialises to that value - whatever was decoded before it (bits = -1: the element has
                  \* no as_bits); how the member an UNDEFINED value was folded onto serialises is left to the fixed-point clause
                  ELSE IF e.defined /\ e.bits >= 0 /\ e.bits # e.v THEN "DefinedValueMapsToItself(serialised)"
                  ELSE IF e.result >= 0 /\ e.back # e.result THEN "ElementBitsRoundTrip"
                  ELSE IF e.result >= 0 /\ e.wbits # e.w THEN "ElementWidth" ELSE "ok",
          dr |-> "ok"]

    [] ph = "gps" ->
         \* an in-range coordinate between two grid points is a legal field value: the PDU serialises to its fixed length and
         \* the decoded value is one of the two neighbouring grid points that the field can hold
         LET g == D.gps[i + 1]
             top == 2 ^ (g.w - 1) - 1
             near == {x \in {g.raw, g.raw + 1} : x <= top}
         IN [why |-> IF g.err # "" THEN "BuildSerialiseParse(off-grid coordinate)/" \o g.err
                     ELSE IF g.n # g.total THEN "FixedLength"
                     ELSE IF g.dec \notin near THEN "CoordinateWithinOneStep" ELSE "ok",
             dr |-> "ok"]

ASSUME ClassesDisjoint

Report ==
  LET j == Judge(phase, idx') IN
  /\ j.why # "ok" => PrintT(ToJson([tag |-> "REJECT", phase |-> phase, idx |-> idx', why |-> j.why]))
  /\ j.dr # "ok" => PrintT(ToJson([tag |-> "DRIFT", phase |-> phase, idx |-> idx', why |-> j.dr]))
=============================================================================
