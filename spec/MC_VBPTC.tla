------------------------------- MODULE MC_VBPTC -------------------------------
(* C09: judges observations of the three variable length BPTC encoders/extractors.     *)
(* sample = [kind, odd, msg, cw, cwlen, dec, csx, cscalc, cw2, cw3] (bit strings packed)*)
EXTENDS VBPTC, Json, IOUtils, TLC

D == JsonDeserialize(IOEnv.DATA_FILE)
VARIABLES chunk, idx
vars == <<chunk, idx>>
ChunkSize == 64
N == Len(D.samples)
Init == chunk \in 0..((N + ChunkSize - 1) \div ChunkSize - 1) /\ idx = -1
Next == idx = -1 /\ idx' \in (chunk * ChunkSize)..((chunk + 1) * ChunkSize - 1) /\ idx' < N /\ UNCHANGED chunk
Spec == Init /\ [][Next]_vars

\* "a valid Hamming codeword": the row code spanned by what the library's generate() returns must BE a Hamming code - a
\* single-error-correcting code, i.e. the columns of its parity-check matrix are non-zero and pairwise different (two equal
\* columns = two code words at distance 2).  The rows are judged with the learned columns, so without this clause a generator
\* matrix with a copied parity row would be judged by itself.  Evaluated once (constant-level definitions are cached).
HamOK(h) == (\A j \in 1..Len(h) : h[j] # 0) /\ (\A i, j \in 1..Len(h) : i # j => h[i] # h[j])
H16ok == HamOK(D.h16)
H17ok == HamOK(D.h17)
\* (D) informational: the learned columns against annex B.3 (the codes as shortened cyclic codes, BlockCodes.tla)
BC == INSTANCE BlockCodes
StdCols(n, k, g, r, ext) == [j \in 1..n |-> IF j <= k THEN BC!CyclicEnc(2 ^ (k - j), g, r, n, ext) % (2 ^ (n - k)) ELSE 2 ^ (n - j)]
H16std == D.h16 = StdCols(16, 11, 19, 4, TRUE)
H17std == D.h17 = StdCols(17, 12, 37, 5, FALSE)

Judge(i) ==
  LET s == D.samples[i + 1]
      P == Params(s.kind)
      h == IF P.n = 16 THEN D.h16 ELSE D.h17
      csbits == SpecCsBits(P, s.cw)
      why ==
        IF ~(IF P.n = 16 THEN H16ok ELSE H17ok) THEN "RowCodeIsAHammingCode"
        ELSE IF s.cwlen # P.R * P.C THEN "EncodedLength"
        ELSE IF s.dec # s.msg THEN "ExtractorReturnsMessage"
        ELSE IF \E r \in 0..(P.R - 2) : Syn(RowWord(P, s.cw, r), P.n, h) # 0 THEN "RowsAreHammingWords"
        ELSE IF \E c \in 0..(P.C - 1) : ColParity(P, s.cw, c) # (IF s.odd THEN 1 ELSE 0) THEN "ColumnsSatisfyParity"
        ELSE IF s.kind = "128_72" /\ MsbInt(s.csx) # s.cscalc THEN "ChecksumReadBackEqualsComputed(CS5)"
        ELSE IF s.kind = "68_28" /\ LsbInt(s.csx) # s.cscalc THEN "ChecksumReadBackEqualsComputed(CRC8)"
        ELSE IF s.cw2 # s.cw \/ s.cw3 # s.cw THEN "ThreeEncodingsAgree"
        ELSE "ok"
      dr ==
        IF ~(IF P.n = 16 THEN H16std ELSE H17std) THEN "row-code-differs-from-the-Hamming-code-of-annex-B.3"
        ELSE IF \E b \in 0..(P.M - 1) : SpecMsgBit(P, s.cw, b) # BitAt(s.msg, b) THEN "message-cells-differ-from-ETSI-layout"
        ELSE IF s.kind = "128_72" /\ s.cscalc # CS5(s.msg) THEN "FiveBitChecksum-differs-from-B.3.11"
        ELSE IF s.kind = "128_72" /\ MsbInt(csbits) # s.cscalc THEN "cs5-cells-differ-from-ETSI-layout"
        ELSE IF s.kind = "68_28" /\ MsbInt(csbits) # s.cscalc THEN "crc8-cells-differ-from-ETSI-layout"
        ELSE "ok"
  IN [why |-> why, dr |-> dr]

Report ==
  LET j == Judge(idx') IN
  /\ j.why # "ok" => PrintT(ToJson([tag |-> "REJECT", idx |-> idx', why |-> j.why]))
  /\ j.dr # "ok" => PrintT(ToJson([tag |-> "DRIFT", idx |-> idx', why |-> j.dr]))
=============================================================================
