------------------------------ MODULE Trace_Purity ------------------------------
(* Code -> spec for C19.  A trace is one interpreter: init.ref = results of every      *)
(* signature measured as the first call of a pristine process; ev = the calls made in  *)
(* this interpreter in order: [sig, fam, digest, intact, changed (hidden cells whose   *)
(* content differs after the call)].                                                    *)
EXTENDS Purity, Json, IOUtils

Traces == JsonDeserialize(IOEnv.TRACE_FILE)
Ref == JsonDeserialize(IOEnv.REF_FILE)

VARIABLES tid, l, why, dr
vars == <<tid, l, why, dr, dirty, bad>>

Init == tid \in 1..Len(Traces) /\ l = 0 /\ why = "ok" /\ dr = "ok" /\ dirty = {} /\ bad = "ok"

ToSet(s) == {s[i] : i \in 1..Len(s)}

Step ==
  /\ l < Len(Traces[tid].ev)
  /\ LET e == Traces[tid].ev[l + 1]
         op == Ops[FamilyOf(e.fam)]
         w == IF e.digest # Ref[e.sig] THEN "SameResultWhateverCameBefore"
              ELSE IF ~e.intact THEN "ArgumentsIntact" ELSE "ok"
         d == IF ~(ToSet(e.changed) \subseteq op.taints) THEN "cell-changed-outside-model"
              ELSE IF op.reads \cap dirty # {} THEN "tainted-read" ELSE "ok"
     IN /\ l' = l + 1 /\ tid' = tid
        /\ why' = IF why # "ok" THEN why ELSE w
        /\ dr' = IF dr # "ok" THEN dr ELSE d
        /\ dirty' = dirty \cup (ToSet(e.changed) \cap Stable)      \* observed, not modelled
        /\ bad' = bad

Done == l = Len(Traces[tid].ev) /\ UNCHANGED vars
Next == Step \/ Done
Spec == Init /\ [][Next]_vars

Report ==
  /\ (why' # "ok" /\ why = "ok") => PrintT(ToJson([tag |-> "REJECT", tid |-> tid, l |-> l', why |-> why']))
  /\ (dr' # "ok" /\ dr = "ok") => PrintT(ToJson([tag |-> "DRIFT", tid |-> tid, l |-> l', why |-> dr']))
=============================================================================
