------------------------------- MODULE MC_RS1294 -------------------------------
(* C11: all 65 536 products, generated words (basis, masks, random), checker verdicts. *)
EXTENDS RS1294, Json, IOUtils, TLC

D == JsonDeserialize(IOEnv.DATA_FILE)
VARIABLES phase, chunk, idx
vars == <<phase, chunk, idx>>
ChunkSize == 256
Size(ph) == CASE ph = "mul" -> 65536 [] ph = "gen" -> Len(D.gen) [] ph = "chk" -> Len(D.chk) [] ph = "design" -> 1
Init == /\ phase \in {"mul", "gen", "chk", "design"}
        /\ chunk \in 0..((Size(phase) + ChunkSize - 1) \div ChunkSize - 1) /\ idx = -1
Next == idx = -1 /\ idx' \in (chunk * ChunkSize)..((chunk + 1) * ChunkSize - 1) /\ idx' < Size(phase) /\ UNCHANGED <<phase, chunk>>
Spec == Init /\ [][Next]_vars

Judge(ph, i) ==
  CASE ph = "mul" ->
         [why |-> IF D.mul[i + 1] # Mul(i \div 256, i % 256) THEN "FieldMultiplication" ELSE "ok", dr |-> "ok"]
    [] ph = "gen" ->
         LET s == D.gen[i + 1]
             w == Unmask(s.out, s.mask)
         IN [why |-> IF Len(s.out) # 12 \/ SubSeq(s.out, 1, 9) # s.msg THEN "MessageFollowedByParity"
                     ELSE IF ~IsCodeword(w) THEN "ZeroSyndromesAfterUnmasking"
                     ELSE "ok",
             dr |-> IF SubSeq(w, 10, 12) # LfsrParity(s.msg) THEN "parity-differs-from-LFSR-model" ELSE "ok"]
    [] ph = "chk" ->
         LET s == D.chk[i + 1]
             cw == IsCodeword(Unmask(s.word, s.mask))
         IN [why |-> IF s.accepted # cw THEN (IF cw THEN "CheckerAcceptsCodewords" ELSE "CheckerRejectsNonCodewords") ELSE "ok",
             dr |-> "ok"]
    [] ph = "design" ->
         [why |-> "ok",
          dr |-> IF GCoeffs # <<14, 56, 64>> THEN "generator-polynomial-is-not-x3+14x2+56x+64"
                 ELSE IF ~DistanceAtLeast4 THEN "three-dependent-parity-check-columns" ELSE "ok"]

Report ==
  LET j == Judge(phase, idx') IN
  /\ j.why # "ok" => PrintT(ToJson([tag |-> "REJECT", phase |-> phase, idx |-> idx', why |-> j.why]))
  /\ j.dr # "ok" => PrintT(ToJson([tag |-> "DRIFT", phase |-> phase, idx |-> idx', why |-> j.dr]))
=============================================================================
