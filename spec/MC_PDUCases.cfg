SPECIFICATION Spec
INVARIANT LayoutsWellFormed
INVARIANT DesignRoundTrip
ACTION_CONSTRAINT Emit
CHECK_DEADLOCK FALSE
