------------------------------ MODULE MC_PDUCases ------------------------------
(* C03, design level + case enumeration.  For every layout: well-formedness, and for    *)
(* every carried field x every boundary value of its domain a case (all other fields    *)
(* take a value derived from the case number) on which Dec(Enc(vals)) = vals is checked *)
(* and which is printed (JSON) as an implementation test for the harness.               *)
(* D.domains: "layout/field" -> allowed values, for fields that are enumerations or     *)
(* otherwise restricted (learned from the library's element classes).                   *)
EXTENDS PDULayouts, Json, IOUtils, TLC

D == JsonDeserialize(IOEnv.DATA_FILE)
LayoutNames == DOMAIN All

VARIABLES name, fi, vi, done
vars == <<name, fi, vi, done>>

Carried(n) == {i \in 1..Len(All[n].L) : All[n].L[i].k = "u"}
Key(n, i) == n \o "/" \o All[n].L[i].f
Domain(n, i) ==
  LET d == All[n].L[i]
      max == 2 ^ d.w - 1
  IN IF Key(n, i) \in DOMAIN D.domains THEN {D.domains[Key(n, i)][j] : j \in 1..Len(D.domains[Key(n, i)])}
     ELSE {0, 1, max \div 2, max - 1, max} \cap (0..max)
\* deterministic filler for the other fields of a case
Pick(S, salt) == LET s == SetToSeq(S) IN s[(salt % Len(s)) + 1]
Vals(n, i, v, salt) == [f \in Names(All[n].L) |->
                          LET j == CHOOSE x \in Carried(n) : All[n].L[x].f = f
                          IN IF j = i THEN v ELSE Pick(Domain(n, j), salt + 7 * j)]

Init == name \in LayoutNames /\ fi = 0 /\ vi = 0 /\ done = FALSE
Next == /\ ~done /\ fi' \in Carried(name) /\ vi' \in Domain(name, fi') /\ done' = TRUE /\ UNCHANGED name
Spec == Init /\ [][Next]_vars

ZeroChk(n) == [f \in {All[n].L[i].f : i \in {j \in 1..Len(All[n].L) : All[n].L[j].k = "x"}} |-> 0]

LayoutsWellFormed == WellFormed(All[name].L, All[name].total)
DesignRoundTrip == done => LET v == Vals(name, fi, vi, fi + vi) IN InRange(All[name].L, v) /\ RoundTrip(All[name].L, v, ZeroChk(name))

Emit == PrintT(ToJson([tag |-> "CASE", name |-> name, field |-> All[name].L[fi'].f, vals |-> Vals(name, fi', vi', fi' + vi')]))
=============================================================================
