SPECIFICATION Spec
CONSTANT ResendInRespSent = FALSE
ACTION_CONSTRAINT Report
CHECK_DEADLOCK FALSE
