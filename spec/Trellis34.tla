------------------------------ MODULE Trellis34 ------------------------------
(* Rate 3/4 trellis code: ETSI TS 102 361-1 B.2.4, fec/trellis.py.                        *)
(* Encoder = finite state machine: state = previous tribit (0 at the start), input tribit *)
(* t, output constellation point T[state][t]; 48 data tribits + one flushing tribit 0 ->  *)
(* 49 points -> 98 dibits -> interleaved -> 196 bits.  Decoder = the same machine run     *)
(* backwards: in state s it looks the received point up in row s of T.                    *)
(* (B) learned through the public API: T (8x8), PointDibits (point -> two dibits),        *)
(*     DibitBits (dibit -> two bits), Inter (98 positions: out[i] = in[Inter[i]]).        *)
EXTENDS Integers, Sequences, FiniteSets

BitAt(w, i) == (w[(i \div 16) + 1] \div (2 ^ (15 - (i % 16)))) % 2

\* ---------------------------------------------------------------- structure (design level)
RowInjective(T) == \A s \in 1..8 : \A a, b \in 1..8 : T[s][a] = T[s][b] => a = b
PointsBijective(PD) == /\ Len(PD) = 16
                       /\ \A p, q \in 1..16 : PD[p] = PD[q] => p = q
                       /\ \A p \in 1..16 : PD[p][1] \in {3, 1, -1, -3} /\ PD[p][2] \in {3, 1, -1, -3}
DibitsBijective(DB) == \A a, b \in DOMAIN DB : DB[a] = DB[b] => a = b
IsPermutation(I, n) == Len(I) = n /\ {I[i] : i \in 1..n} = 0..(n - 1)

\* decoder step in state s on point p: the tribit t with T[s][t] = p, or -1 (rejected)
DecStep(T, s, p) == LET hit == {t \in 0..7 : T[s + 1][t + 1] = p}
                    IN IF hit = {} THEN -1 ELSE CHOOSE t \in hit : TRUE

\* ---------------------------------------------------------------- the pipeline on a block
Tribit(block, i) == IF i = 48 THEN 0 ELSE 4 * BitAt(block, 3 * i) + 2 * BitAt(block, 3 * i + 1) + BitAt(block, 3 * i + 2)
StateAt(block, i) == IF i = 0 THEN 0 ELSE Tribit(block, i - 1)
PointAt(T, block, i) == T[StateAt(block, i) + 1][Tribit(block, i) + 1]
\* dibit j (0..97) before interleaving
DibitAt(T, PD, block, j) == PD[PointAt(T, block, j \div 2) + 1][(j % 2) + 1]
\* transmitted bit b (0..195)
EncBit(T, PD, DB, I, block, b) ==
  LET d == DibitAt(T, PD, block, I[(b \div 2) + 1])
      key == CHOOSE k \in DOMAIN DB : DB[k].d = d
  IN DB[key].bits[(b % 2) + 1]
=============================================================================
