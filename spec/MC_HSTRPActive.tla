--------------------------- MODULE MC_HSTRPActive ---------------------------
(* Growth: the ACTIVE peer.  periodic_maintenance (hstrp_datagram_protocol.py) wakes up every five  *)
(* seconds and, while the link is down, sends CONNECT (S/N 0) to its peer; nothing else is timed    *)
(* (own heartbeats are a TODO in the code).  Handler 1 is active, handler 2 passive, wired back to  *)
(* back through FIFO channels that may lose a bounded number of datagrams; the environment may      *)
(* inject a bounded number of datagrams (a CLOSE from an operator, a stray heartbeat ...).          *)
(* Liveness under weak fairness of Tick and Deliver: once the environment is quiet and the channel  *)
(* stops losing, both ends are connected for good - and no datagram circulates (no ping-pong).      *)
EXTENDS MC_HSTRPLoop

CONSTANTS Lose, InFlight,          \* datagrams the channel may lose; bound on datagrams in flight
          InjectConnect            \* may the environment inject a CONNECT (a third party's, or a stale one)?
VARIABLE lost
avars == <<vars, lost>>

Connect == M({"conn"}, 0, 0, "none", "")

\* one wake-up of periodic_maintenance of handler p: returns the datagrams it sends
TickSends(h) == IF h.connected THEN <<>> ELSE <<Connect>>

AInit == Init /\ lost = 0
Tick == /\ Len(q[1]) + Len(q[2]) < InFlight                      \* the timer period is long against the round trip
        /\ q' = [q EXCEPT ![2] = @ \o TickSends(hs[1])]
        /\ UNCHANGED <<hs, budget, lost>>
Loss(p) == /\ lost < Lose /\ q[p] # <<>>
           /\ q' = [q EXCEPT ![p] = Tail(@)] /\ lost' = lost + 1 /\ UNCHANGED <<hs, budget>>
AInjectable == IF InjectConnect THEN Injectable ELSE {m \in Injectable : ~m.f.conn}
ANext == \/ \E p \in Peers : (Deliver(p) /\ UNCHANGED lost) \/ Loss(p) \/ \E m \in AInjectable : (Inj(p, m) /\ UNCHANGED lost)
         \/ Tick
ASpec == AInit /\ [][ANext]_avars /\ WF_avars(Tick) /\ \A p \in Peers : WF_avars(Deliver(p) /\ UNCHANGED lost)

BothConnected == hs[1].connected /\ hs[2].connected
EventuallyConnectedForGood == <>[]BothConnected
QuietWhenConnected == <>[]OnlyHeartbeats            \* nothing but echoed heartbeats circulates
ActiveQueuesBounded == \A p \in Peers : Len(q[p]) <= InFlight + 2 * Inject + 2
=============================================================================
