SPECIFICATION Spec
CONSTANTS
  MaxLen = 2
  Mode = "design"
INVARIANT Facts
CHECK_DEADLOCK FALSE
