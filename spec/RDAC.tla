-------------------------------- MODULE RDAC --------------------------------
(* RDAC identification handler: protocols/hytera/rdac_datagram_protocol.py.               *)
(* State: step per peer (ip, port) - the key is opaque here -, completions via the callback. *)
(* Datagram classes: "reset" (exactly one octet), "resp" with prefix kind                 *)
(*   k in {"FD","10","00","FA"} (fourth octet after 7E 04 00) and `long` (enough octets   *)
(*   for the fields the step handler indexes), "other" (any other prefix).                *)
EXTENDS Integers, Sequences, FiniteSets, TLC

\* response prefix expected in each step (steps 9 does not exist: 8 -> 10)
Expected(s) == CASE s = 1 -> "FD" [] s = 2 -> "10" [] s = 3 -> "00" [] s = 4 -> "00" [] s = 5 -> "10"
                 [] s = 6 -> "00" [] s = 7 -> "10" [] s = 8 -> "10" [] s = 10 -> "00" [] s = 11 -> "10"
                 [] s = 12 -> "00" [] s = 13 -> "FA" [] OTHER -> "none"
NextStep(s) == IF s = 8 THEN 10 ELSE s + 1
\* steps whose handler reads fields of the response and raises on a short one
NeedsLong(s) == s = 10
\* step 6 decodes four UTF-16 text fields of the response (firmware, call sign, hardware, serial number): a response whose
\* text is not valid UTF-16 (a lone surrogate) raises there, before the step is advanced
BadText(d) == IF "badtext" \in DOMAIN d THEN d.badtext ELSE FALSE
TextRaises(s, d) == s = 6 /\ d.long /\ BadText(d)

\* number of request datagrams the handler sends when it advances from step s
Requests(s) == CASE s = 0 -> 1 [] s = 1 -> 1 [] s = 3 -> 1 [] s = 4 -> 2 [] s = 6 -> 2 [] s = 7 -> 1
                 [] s = 10 -> 1 [] s = 12 -> 2 [] OTHER -> 0

StepOf(st, ip) == IF ip \in DOMAIN st THEN st[ip] ELSE 0
Put(st, ip, v) == [x \in DOMAIN st \cup {ip} |-> IF x = ip THEN v ELSE st[x]]

\* returns [st, nsent, done (callback calls), out]
Recv(st, ip, d) ==
  LET s == StepOf(st, ip) IN
  IF d.cls = "reset" /\ s # 14 THEN [st |-> Put(st, ip, 1), nsent |-> 1, done |-> 0, out |-> "ok"]
  ELSE IF d.cls # "reset" /\ s = 14 THEN [st |-> Put(st, ip, 14), nsent |-> 0, done |-> 0, out |-> "ok"]
  ELSE IF d.cls = "reset" /\ s = 14 THEN [st |-> Put(st, ip, 14), nsent |-> IF d.zero THEN 1 ELSE 0, done |-> 0, out |-> "ok"]
  ELSE IF s = 0 THEN [st |-> Put(st, ip, 1), nsent |-> 1, done |-> 0, out |-> "ok"]
  ELSE IF d.cls = "resp" /\ d.k = Expected(s) THEN
         IF (NeedsLong(s) /\ ~d.long) \/ TextRaises(s, d) THEN [st |-> Put(st, ip, s), nsent |-> 0, done |-> 0, out |-> "raise"]
         ELSE [st |-> Put(st, ip, NextStep(s)), nsent |-> Requests(s), done |-> IF s = 13 THEN 1 ELSE 0, out |-> "ok"]
  ELSE [st |-> Put(st, ip, s), nsent |-> 0, done |-> 0, out |-> "ok"]

\* ---------------------------------------------------------------- (P) monitor on observations
\* pre/post = observed step dictionaries, o = [done, out, doneIds, peerId]
MonRecv(pre, post, ip, d, o) ==
  LET s == StepOf(pre, ip)  t == StepOf(post, ip) IN
  IF \E q \in (DOMAIN pre \cup DOMAIN post) \ {ip} : StepOf(pre, q) # StepOf(post, q) THEN "OthersUntouched"
  ELSE IF d.cls = "reset" /\ s # 14 /\ o.out = "ok" /\ t # 1 THEN "ResetRestarts"
  ELSE IF d.cls # "reset" /\ s \in 1..13 /\ t # s /\ ~(d.cls = "resp" /\ d.k = Expected(s) /\ t = NextStep(s))
       THEN "StepAdvancesOnlyOnExpected"
  ELSE IF s = 14 /\ t # 14 THEN "CompletedStaysCompleted"
  ELSE IF o.done # (IF s = 13 /\ t = 14 THEN 1 ELSE 0) THEN "CompletionExactlyOnce"
  ELSE IF o.done = 1 /\ ~o.doneIsPeer THEN "CompletionNamesPeer"
  ELSE "ok"

JudgeEvent(st, e) ==
  LET r == Recv(st, e.ip, e.d) IN
  [why |-> MonRecv(st, e.out.st, e.ip, e.d, e.out),
   dr |-> IF r.out # e.out.out THEN "outcome" ELSE IF r.st # e.out.st THEN "state"
          ELSE IF r.nsent # e.out.nsent THEN "sent" ELSE IF r.done # e.out.done THEN "done" ELSE "ok",
   st |-> e.out.st]
=============================================================================
