------------------------------- MODULE Integrity -------------------------------
(* C04: integrity indicators of parsed PDUs.                                              *)
(*  - slot type: 20-bit word = colour code(4) data type(4) Golay(20,8,7) parity(12);      *)
(*    embedded signalling: 16-bit word = CC(4) PI(1) LCSS(2) QR(16,7,6) parity(9);        *)
(*    the indicator of a parsed word must equal membership in the code spanned by the     *)
(*    rows learned from the library's own generator (BlockCodes!Enc).                     *)
(*  - CRC / checksum protected PDUs: what the detection capability of the code guarantees *)
(*    (CRC.tla proves it on the polynomials): every single bit error, every burst no      *)
(*    longer than the check field, and for CRC-CCITT over 96 bits every error of weight   *)
(*    <= 3 changes the remainder.  Such a corruption must end in "indicator false" or a   *)
(*    decode error: an accepted object with other field values breaks                     *)
(*    CorruptPduSilentlyAccepted, an accepted object with the original field values       *)
(*    (the indicator says "intact" about bits that are not) breaks CorruptPduReportedIntact. *)
EXTENDS BlockCodes

Outcomes == {"indicator_false", "decode_error", "same_fields", "accepted_different"}

\* pattern = flipped positions IN CODE WORD ORDER (message followed by check value, most significant first),
\* increasing; the harness maps on-air positions with the layouts documented in drivers/c04.py
BurstLen(p) == p[Len(p)] - p[1] + 1
WithinCapability(kind, width, nbits, p) ==
  \/ Len(p) = 1
  \/ (kind = "crc" /\ BurstLen(p) <= width)
  \/ (kind = "crc" /\ width = 16 /\ nbits = 96 /\ Len(p) <= 3)

CorruptionWhy(r) ==
  IF r.outcome \notin Outcomes THEN "UnexpectedOutcome"
  ELSE IF r.outcome = "accepted_different" /\ WithinCapability(r.kind, r.width, r.nbits, r.cwpattern)
       THEN "CorruptPduSilentlyAccepted"
  ELSE IF r.outcome = "same_fields" /\ WithinCapability(r.kind, r.width, r.nbits, r.cwpattern)
       THEN "CorruptPduReportedIntact" ELSE "ok"
=============================================================================
