SPECIFICATION Spec
CONSTANTS
 ResendInRespSent = FALSE
 MaxLoss = 1
 MaxForget = 1
 MaxDrop = 0
 MaxDmr = 1
 Impatient = FALSE
 MaxFlight = 4
INVARIANT TypeOK
INVARIANT StatusReachable
INVARIANT Bounded
PROPERTY AcceptOnlyOnAccept
PROPERTY ConfigurationOnlyOnAccept
CHECK_DEADLOCK FALSE
