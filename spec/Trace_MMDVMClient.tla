--------------------------- MODULE Trace_MMDVMClient ---------------------------
(* Code -> spec for the MMDVM client: an event is one call on the real MMDVMClientProtocol (or one turn of one of its two       *)
(* coroutines)  [a, m (for "recv"), post (status, transport, queue_outgoing as commands with challenge, counters), sent, err]. *)
(* The class is a deterministic function of (state, event): the successor is computed with Client of MMDVMClient.tla and       *)
(* compared with what was observed.  Growth phase: every disagreement is drift, never a verdict on a listed property.          *)
EXTENDS MMDVMClient, Json, IOUtils, TLC
Traces == JsonDeserialize(IOEnv.TRACE_FILE)
VARIABLES tid, l, st, dr
vars == <<tid, l, st, dr>>
Init == tid \in 1..Len(Traces) /\ l = 0 /\ st = C0 /\ dr = "ok"
AsMsg(m) == Msg(m.k, m.ch, "")
Judge(e) ==
  LET r == Client(st, [a |-> e.a, m |-> AsMsg(e.m)])
      d == IF e.err # "" THEN "the-class-raised-" \o e.err
           ELSE IF Project(r.c).st # e.post.st THEN "status-differs-from-model"
           ELSE IF Project(r.c).tr # e.post.tr THEN "transport-differs-from-model"
           ELSE IF Project(r.c).outq # e.post.outq THEN "queued-datagrams-differ-from-model"
           ELSE IF Project(r.c).inq # e.post.inq THEN "forwarded-dmr-packets-differ-from-model"
           ELSE IF Project(r.c).cb # e.post.cb THEN "callback-count-differs-from-model"
           ELSE IF Kinds(r.sent) # e.sent THEN "datagrams-written-differ-from-model"
           ELSE "ok"
  IN [c |-> r.c, dr |-> d]
Step1 == /\ l < Len(Traces[tid].ev)
         /\ LET j == Judge(Traces[tid].ev[l + 1]) IN
            /\ st' = j.c /\ dr' = IF dr # "ok" THEN dr ELSE j.dr
         /\ l' = l + 1 /\ tid' = tid
Done == l = Len(Traces[tid].ev) /\ UNCHANGED vars
Next == Step1 \/ Done
Spec == Init /\ [][Next]_vars
Report ==
  (dr' # "ok" /\ dr = "ok") => PrintT(ToJson([tag |-> "DRIFT", tid |-> tid, l |-> l', why |-> "MMDVM client: " \o dr']))
=============================================================================
