------------------------------ MODULE MC_MMDVM ------------------------------
(* TLC decodes every DMRD frame itself and compares with what Burst.from_mmdvm made of it:                                 *)
(*   s = [frame, err, src, dst, timeslot, seq, stream (two limbs), octets, centre, is_vocoder, has_emb, has_slot_type, is_start] *)
(* ids / timeslot / sequence / stream / burst octets as the frame encodes them, and the classification of Burst.tla for the  *)
(* announced burst type.  Outside the listed properties: informational (DRIFT = the code differs from this reading).        *)
EXTENDS MMDVM, Json, IOUtils, TLC
B == INSTANCE Burst
D == JsonDeserialize(IOEnv.DATA_FILE)
VARIABLE idx
Init == idx = 0
Next == idx = 0 /\ idx' \in 1..Len(D.samples)
Spec == Init /\ [][Next]_idx
Why(s) ==
  IF ~WellFormed(s.frame) THEN "ok"
  ELSE IF s.err # "" THEN "decode-raises/" \o s.err
  ELSE IF s.src # SourceOf(s.frame) \/ s.dst # TargetOf(s.frame) THEN "ids-differ-from-frame"
  ELSE IF s.timeslot # TimeslotOf(s.frame) \/ s.seq # SequenceOf(s.frame) THEN "timeslot-or-sequence-differs-from-frame"
  ELSE IF s.stream # StreamOf(s.frame) THEN "stream-id-differs-from-frame"
  ELSE IF s.octets # BurstOctets(s.frame) THEN "burst-octets-differ-from-frame"
  ELSE LET c == B!Classify(s.centre, AnnouncedBurstType(s.frame)) IN
       IF <<s.is_vocoder, s.has_emb, s.has_slot_type, s.is_start>> # <<c.is_vocoder, c.has_emb, c.has_slot_type, c.is_voice_superframe_start>>
       THEN "classification-ignores-the-frame-type (frame type " \o ToString(FrameTypeOf(s.frame)) \o ", centre " \o s.centre \o ")"
       ELSE "ok"
Report == Why(D.samples[idx']) # "ok" => PrintT(ToJson([tag |-> "DRIFT", idx |-> idx' - 1, why |-> Why(D.samples[idx'])]))
=============================================================================
