--------------------------------- MODULE IPSC ---------------------------------
(* Hytera IP Site Connect frame (72 octets): hytera/hytera_ipsc.py, kaitai structure     *)
(* ip_site_connect_protocol.  Offsets (0-based):                                         *)
(*   0-1 source port   2-3 0x5A5A   4 sequence   5-7 reserved   8 packet type            *)
(*   9-15 reserved   16-17 timeslot (0x1111 | 0x2222)   18-19 slot type   20-21 colour   *)
(*   code (one nibble repeated four times)   22-23 frame type   24-25 reserved           *)
(*   26-59 payload: 17 little-endian 16-bit words = 33 burst octets + one more octet     *)
(*   60-61 reserved   62 call type   63-66 destination id   67-70 source id (32 bit      *)
(*   little endian, 24-bit id in the upper three octets)   71 reserved                   *)
EXTENDS Integers, Sequences

O(f, i) == f[i + 1]                        \* octet at 0-based offset i
ColourOf(f) == O(f, 20) % 16
IdAt(f, i) == O(f, i + 1) + 256 * O(f, i + 2) + 65536 * O(f, i + 3)
DestinationOf(f) == IdAt(f, 63)
SourceOf(f) == IdAt(f, 67)
SequenceOf(f) == O(f, 4)
TimeslotOf(f) == IF O(f, 16) = 17 THEN 1 ELSE 2
\* burst octets: payload words byte-swapped, pad dropped
BurstOctets(f) == [k \in 1..33 |-> IF k % 2 = 1 THEN O(f, 26 + k) ELSE O(f, 26 + k - 2)]

WellFormed(f) ==
  /\ Len(f) = 72 /\ O(f, 2) = 90 /\ O(f, 3) = 90
  /\ O(f, 20) = O(f, 21) /\ O(f, 20) \div 16 = O(f, 20) % 16           \* colour nibble x 4
  /\ O(f, 63) = 0 /\ O(f, 67) = 0                                       \* low octet of the id fields
\* (octet 58, the 34th payload octet, is arbitrary: "arbitrary 34-byte payloads" - the documented wake-up frames carry 0x50 / 0xEF)
  /\ O(f, 16) = O(f, 17) /\ O(f, 16) \in {17, 34}

\* slot type / call type -> burst class
ClassOf(f) ==
  LET slot == O(f, 18) + 256 * O(f, 19)
      call == O(f, 62)
  IN IF slot = 61166 THEN "HyteraIPSCSync"
     ELSE IF slot = 56797 \/ call \in {2, 12} THEN "HyteraIPSCWakeup"
     ELSE "Burst"
=============================================================================
