----------------------------- MODULE MC_Trellis34 -----------------------------
(* C10: structural facts of the learned tables (exhaustive), the product machine        *)
(* encoder x decoder over all tribit strings up to length MaxLen from every state, and  *)
(* judgement of observed blocks / corrupted streams.                                    *)
EXTENDS Trellis34, Json, IOUtils, TLC

D == JsonDeserialize(IOEnv.DATA_FILE)
MaxLen == 4

VARIABLES phase, idx, enc, dec, n
vars == <<phase, idx, enc, dec, n>>

\* phase "machine": enc/dec states and number of steps; phases "block"/"bad": idx picks a sample
Init == \/ /\ phase = "machine" /\ idx = -1 /\ enc \in 0..7 /\ dec = enc /\ n = 0
        \/ /\ phase \in {"block", "bad", "struct", "comp", "aimed"} /\ idx = -1 /\ enc = 0 /\ dec = 0 /\ n = 0

Size(ph) == CASE ph = "block" -> Len(D.blocks) [] ph = "bad" -> Len(D.bad) [] ph = "struct" -> 1
                    [] ph = "comp" -> Len(D.comp) [] ph = "aimed" -> Len(D.aimed) [] OTHER -> 0

Next == \/ /\ phase = "machine" /\ n < MaxLen
           /\ \E t \in 0..7 : /\ enc' = t
                              /\ dec' = DecStep(D.T, dec, D.T[enc + 1][t + 1])
           /\ n' = n + 1 /\ UNCHANGED <<phase, idx>>
        \/ /\ phase # "machine" /\ idx = -1 /\ idx' \in 0..(Size(phase) - 1) /\ UNCHANGED <<phase, enc, dec, n>>
Spec == Init /\ [][Next]_vars

\* the decoder tracks the encoder (inductive: holds initially, preserved by every step)
DecoderTracksEncoder == phase = "machine" => dec = enc

Structure ==
  IF ~RowInjective(D.T) THEN "state-transition-row-not-injective"
  ELSE IF ~PointsBijective(D.PD) THEN "constellation-map-not-bijective"
  ELSE IF ~DibitsBijective(D.DB) THEN "dibit-map-not-bijective"
  ELSE IF ~IsPermutation(D.I, 98) THEN "interleave-not-a-permutation"
  ELSE IF \E j \in 1..98 : D.DI[j] # D.I[j] THEN "deinterleave-not-inverse-of-interleave"
  ELSE "ok"

Judge(ph, i) ==
  CASE ph = "block" ->
         LET s == D.blocks[i + 1] IN
         [why |-> IF s.err # "" THEN "EncodeDecodeOfValidBlockFails"
                  ELSE IF s.enclen # 196 THEN "EncodesTo196Bits"
                  ELSE IF s.dec # s.block THEN "DecodeOfEncodeIsBlock"
                  ELSE IF s.encbytes # s.enc THEN "BytesAndBitsInputAgree"
                  ELSE IF s.decbytes # s.block THEN "DecodeAsBytesIsBlock"
                  ELSE "ok",
          dr |-> IF s.enclen = 196 /\ \E b \in 0..195 : EncBit(D.T, D.PD, D.DB, D.I, s.block, b) # BitAt(s.enc, b)
                 THEN "encoding-differs-from-pipeline-over-learned-tables" ELSE "ok"]
    [] ph = "bad" ->
         \* stream of block s.block with the point at position s.pos replaced by s.point
         LET s == D.bad[i + 1]
             reachable == \E t \in 0..7 : D.T[StateAt(s.block, s.pos) + 1][t + 1] = s.point
             \* the whole decoder run over the modified point stream: state after i points, -1 = rejected
             Pt(q) == IF q = s.pos THEN s.point ELSE PointAt(D.T, s.block, q)
             Run[q \in 0..49] == IF q = 0 THEN 0
                                 ELSE LET prev == Run[q - 1]        \* one reference only: TLC does not memoise
                                      IN IF prev = -1 THEN -1 ELSE DecStep(D.T, prev, Pt(q - 1))
             \* the 49th point carries the flush tribit 000 the encoder appends: no encoder state emits anything else there
             model == IF Run[49] # 0 THEN "rejected" ELSE "decoded"
             flushBad == s.pos = 48 /\ Run[48] # -1 /\ s.point # D.T[Run[48] + 1][1]
         IN [why |-> IF (~reachable \/ flushBad) /\ s.outcome # "rejected" THEN "UnreachablePointRejected" ELSE "ok",
             dr |-> IF model # s.outcome THEN "decoder-run-differs-from-model" ELSE "ok"]
    [] ph = "aimed" ->
         \* a whole stream of 49 constellation points laid out by the harness: a valid prefix, one point no successor of the
         \* state reached can emit, and a tail that is a valid continuation from the state a lenient decoder would assume
         LET s == D.aimed[i + 1]
             Run[q \in 0..49] == IF q = 0 THEN 0
                                 ELSE LET prev == Run[q - 1]
                                      IN IF prev = -1 THEN -1 ELSE DecStep(D.T, prev, s.points[q])
             model == IF Run[49] # 0 THEN "rejected" ELSE "decoded"      \* -1: a point no successor emits; > 0: a last point that is no flush
         IN [why |-> IF model = "rejected" /\ s.outcome # "rejected" THEN "UnreachablePointRejected" ELSE "ok",
             dr |-> IF model # s.outcome THEN "decoder-run-differs-from-model" ELSE "ok"]
    [] ph = "comp" ->
         \* the two permutations composed by a caller that hands the result of one straight to the other:
         \* x, y = interleave(x) (as seen right after the call), z = deinterleave(y); and the other way round
         LET s == D.comp[i + 1] IN
         [why |-> IF s.err # "" THEN "InterleaveComposition/" \o s.err
                  ELSE IF s.z # s.x THEN (IF s.dir = "di" THEN "DeinterleaveInvertsInterleave" ELSE "InterleaveInvertsDeinterleave")
                  ELSE IF s.ylater # s.y THEN "ResultOverwrittenByLaterCall" ELSE "ok",
          dr |-> IF s.dir = "di" /\ \E j \in 1..98 : s.y[j] # s.x[D.I[j] + 1] THEN "interleave-differs-from-learned-permutation" ELSE "ok"]
    [] ph = "struct" -> [why |-> IF Structure # "ok" THEN "InterleaveIsPermutation/" \o Structure ELSE "ok", dr |-> "ok"]

Report ==
  (phase # "machine" /\ idx = -1) =>
    LET j == Judge(phase, idx') IN
    /\ j.why # "ok" => PrintT(ToJson([tag |-> "REJECT", phase |-> phase, idx |-> idx', why |-> j.why]))
    /\ j.dr # "ok" => PrintT(ToJson([tag |-> "DRIFT", phase |-> phase, idx |-> idx', why |-> j.dr]))
=============================================================================
