--------------------------- MODULE MC_Transmission ---------------------------
(* Exhaustive bounded exploration of the tracker design model against the property     *)
(* monitor; JSON edge dump for spec -> code replay.                                    *)
EXTENDS Transmission, Json

CONSTANTS MaxDepth, Slots, Btfs, WithEndAll

VARIABLES slots, tok, mon, last, why
vars == <<slots, tok, mon, last, why>>

B(cls, btf, a) == [cls |-> cls, id |-> 0, btf |-> btf, a |-> a, cc |-> 1]

Alphabet ==
  {B(c, 0, FALSE) : c \in {"VH", "TERM", "VS", "VE", "CSBK", "R12", "R34", "R1", "OTHER"}}
  \cup {B("DH", n, a) : n \in Btfs, a \in BOOLEAN}
  \cup {B("PRE", n, FALSE) : n \in Btfs}

NoOut == [ev |-> <<>>, label |-> "Unknown", seq |-> 0, stream |-> 0, outcome |-> "ok"]

Init == /\ slots = [i \in Slots |-> InitSlot(i)]
        /\ tok = 2
        /\ mon = [i \in Slots |-> InitMon]
        /\ last = [ts |-> 0, b |-> NoB, out |-> NoOut, op |-> "init"]
        /\ why = "ok"

Burst(i, b) ==
  LET r == SlotStep(slots[i], tok, b)
      m == MonStep(mon[i], b, r.out, r.slot.tx.type)
  IN /\ slots' = [slots EXCEPT ![i] = r.slot]
     /\ tok' = r.tok
     /\ mon' = [mon EXCEPT ![i] = m[1]]
     /\ last' = [ts |-> i, b |-> b, out |-> r.out, op |-> "burst"]
     /\ why' = m[2]

\* TransmissionWatcher.end_all_transmissions (growth: outside the property's alphabet, the
\* monitor only follows the events)
EndAll(i) ==
  LET r == SlotEndAll(slots[i], tok)
      m == MonEvents(mon[i], r.out.ev, 1, NoB, Len(r.out.ev) + 5)
  IN /\ WithEndAll
     /\ slots' = [slots EXCEPT ![i] = r.slot]
     /\ tok' = r.tok
     /\ mon' = [mon EXCEPT ![i] = [m[1] EXCEPT !.run = "None", !.deferred = HasEnded(r.out.ev) \/ @]]
     /\ last' = [ts |-> i, b |-> NoB, out |-> r.out, op |-> "endall"]
     /\ why' = m[2]

Next == \E i \in Slots : (\E b \in Alphabet : Burst(i, b)) \/ EndAll(i)
Spec == Init /\ [][Next]_vars

\* ------------------------------------------------------------- the property
PropertyHolds == why = "ok"

\* design-level facts that make it hold for unbounded histories (also the Apalache IndInv)
TypeHeader == \A i \in Slots :
   LET tx == slots[i].tx IN
   /\ (tx.type = "Idle" => tx.hdr.kind = "None" /\ tx.expected = 0)
   /\ (tx.type = "Voice" => tx.hdr.kind = "FLC")
   /\ (tx.type = "Data" => tx.hdr.kind \in {"None", "DH"})
   /\ mon[i].open \in {"None", tx.type} \/ (mon[i].open = "Data" /\ tx.type = "Idle")
   /\ Len(tx.blocks) <= tx.received

\* a step on one timeslot leaves the other one alone
SlotsIndependent == [][\A i \in Slots : i # last'.ts => slots'[i] = slots[i] /\ mon'[i] = mon[i]]_vars

Bound == TLCGet("level") <= MaxDepth

\* hide counters that only number things (data independent): token source, stream ids,
\* sequence numbers; the last step is an observation, not state
ViewOf(sl, mn, wy) ==
  <<[i \in Slots |-> [tx |-> [sl[i].tx EXCEPT !.stream = 0], reset |-> sl[i].reset,
                      m |-> [mn[i] EXCEPT !.pseq = 0, !.maxStream = 0]]], wy>>
View == ViewOf(slots, mon, why)

\* every explored transition as one JSON line; fv/tv identify the (view-)states so that the
\* harness can chain edges into transition tours without re-implementing the view
Edge == PrintT(ToJson([tag |-> "EDGE", finit |-> (last.op = "init"), fv |-> ViewOf(slots, mon, why),
                       tv |-> ViewOf(slots', mon', why'), ts |-> last'.ts, b |-> last'.b,
                       op |-> last'.op, out |-> last'.out]))
=============================================================================
