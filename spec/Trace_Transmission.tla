-------------------------- MODULE Trace_Transmission --------------------------
(* Code -> spec for the transmission tracker.  An event is one Terminal.process_incoming_ *)
(* burst call (or one end_transmissions call, op = "endall"):                             *)
(*   [ts, op, b, out, post, obs]                                                          *)
(* b: abstract burst (class, id = position, btf, a, cc); out: observed events (as seen by *)
(* the first observer), label, sequence number, stream token, outcome; post: projection   *)
(* of both timeslots after the call + token counter; obs: events seen by every observer.  *)
(* why: verdict of the property monitor on the observations (total, first failing clause) *)
(* dr : first difference between the observation and the design model (informational).    *)
EXTENDS Transmission, Json, IOUtils

Traces == JsonDeserialize(IOEnv.TRACE_FILE)

VARIABLES tid, l, slots, tok, mon, why, dr
vars == <<tid, l, slots, tok, mon, why, dr>>

Init == /\ tid \in 1..Len(Traces)
        /\ l = 0
        /\ slots = <<InitSlot(1), InitSlot(2)>>
        /\ tok = 2
        /\ mon = <<InitMon, InitMon>>
        /\ why = "ok" /\ dr = "ok"

Step ==
  /\ l < Len(Traces[tid].ev)
  /\ LET e == Traces[tid].ev[l + 1]
         r == JudgeEvent(slots, tok, mon, e)
     IN /\ l' = l + 1 /\ tid' = tid
        /\ slots' = e.post.slots /\ tok' = e.post.tok
        /\ mon' = r.mon
        /\ why' = IF why # "ok" THEN why ELSE r.why
        /\ dr' = IF dr # "ok" THEN dr ELSE r.dr

Done == l = Len(Traces[tid].ev) /\ UNCHANGED vars
Next == Step \/ Done
Spec == Init /\ [][Next]_vars

Report ==
  /\ (why' # "ok" /\ why = "ok") => PrintT(ToJson([tag |-> "REJECT", tid |-> tid, l |-> l', why |-> why']))
  /\ (dr' # "ok" /\ dr = "ok") => PrintT(ToJson([tag |-> "DRIFT", tid |-> tid, l |-> l', why |-> dr']))
=============================================================================
