-------------------------- MODULE Trace_Transmission --------------------------
(* Code -> spec for the transmission tracker.  An event is one Terminal.process_incoming_ *)
(* burst call (or one end_transmissions call, op = "endall"):                             *)
(*   [ts, op, b, out, post, obs]                                                          *)
(* b: abstract burst (class, id = position, btf, a, cc); out: observed events (as seen by *)
(* the first observer), label, sequence number, stream token, outcome; post: projection   *)
(* of both timeslots after the call + token counter; obs: events seen by every observer.  *)
(* why: verdict of the property monitor on the observations (total, first failing clause) *)
(* dr : first difference between the observation and the design model (informational).    *)
EXTENDS Transmission, Json, IOUtils

Traces == JsonDeserialize(IOEnv.TRACE_FILE)

VARIABLES tid, l, slots, tok, mon, why, dr
vars == <<tid, l, slots, tok, mon, why, dr>>

Init == /\ tid \in 1..Len(Traces)
        /\ l = 0
        /\ slots = <<InitSlot(1), InitSlot(2)>>
        /\ tok = 2
        /\ mon = <<InitMon, InitMon>>
        /\ why = "ok" /\ dr = "ok"

NoB == [cls |-> "OTHER", id |-> 0, btf |-> 0, a |-> FALSE, cc |-> 0]

Step ==
  /\ l < Len(Traces[tid].ev)
  /\ LET e  == Traces[tid].ev[l + 1]
         i  == e.ts
         j  == 3 - i
         isBurst == e.op = "burst"
         r  == IF isBurst THEN SlotStep(slots[i], tok, e.b) ELSE SlotEndAll(slots[i], tok)
         m  == IF isBurst THEN MonStep(mon[i], e.b, e.out, e.post.slots[i].tx.type)
               ELSE LET x == MonEvents(mon[i], e.out.ev, 1, NoB, Len(e.out.ev) + 5)
                    IN <<[x[1] EXCEPT !.run = "None", !.deferred = HasEnded(e.out.ev) \/ @,
                                      !.maxStream = IF e.out.stream > @ THEN e.out.stream ELSE @],
                         IF e.out.outcome # "ok" THEN "NeverFails" ELSE x[2]>>
         w  == IF m[2] # "ok" THEN m[2]
               ELSE IF \E k \in 1..Len(e.obs) : e.obs[k] # e.out.ev THEN "ObserverIsolation"
               ELSE IF e.post.slots[j] # slots[j] THEN "TimeslotsIndependent"
               ELSE "ok"
         d  == IF r.slot # e.post.slots[i] THEN "state"
               ELSE IF r.tok # e.post.tok THEN "token"
               ELSE IF r.out # e.out THEN "output" ELSE "ok"
     IN /\ l' = l + 1 /\ tid' = tid
        /\ slots' = e.post.slots /\ tok' = e.post.tok
        /\ mon' = [mon EXCEPT ![i] = m[1]]
        /\ why' = IF why # "ok" THEN why ELSE w
        /\ dr' = IF dr # "ok" THEN dr ELSE d

Done == l = Len(Traces[tid].ev) /\ UNCHANGED vars
Next == Step \/ Done
Spec == Init /\ [][Next]_vars

Report ==
  /\ (why' # "ok" /\ why = "ok") => PrintT(ToJson([tag |-> "REJECT", tid |-> tid, l |-> l', why |-> why']))
  /\ (dr' # "ok" /\ dr = "ok") => PrintT(ToJson([tag |-> "DRIFT", tid |-> tid, l |-> l', why |-> dr']))
=============================================================================
