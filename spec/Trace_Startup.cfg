SPECIFICATION Spec
CONSTANTS
  P2PPort = 50000
  RdacPort = 50002
ACTION_CONSTRAINT Report
CHECK_DEADLOCK FALSE
