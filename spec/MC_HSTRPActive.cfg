SPECIFICATION ASpec
CONSTANTS
  AckTheAcks = FALSE
  Inject = 2
  Lose = 2
  InFlight = 2
  InjectConnect = FALSE
PROPERTY EventuallyConnectedForGood
PROPERTY QuietWhenConnected
INVARIANT ActiveQueuesBounded
CHECK_DEADLOCK FALSE
