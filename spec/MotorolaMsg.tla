------------------------------ MODULE MotorolaMsg ------------------------------
(* Motorola TMS (text messaging) and ARS (automatic registration) messages:               *)
(* motorola/text_messaging_service.py, automatic_registration_service.py.                 *)
(* Both start with a two-octet big-endian length = number of octets that follow.          *)
(* TMS: len(2) first header(1) address length(1) address [optional headers] [payload]     *)
(*   first header = more(1) ack(1) reserved(1) control(1) type(4)                          *)
(*   optional header of text message / acknowledgement: sequence number and encoding      *)
(*     octet 1: more(1) 00 sn[4..0];  octet 2 (when sn > 31 or an encoding is given):      *)
(*     0 sn[6..5] encoding(5)                                                              *)
(* ARS: len(2) first header(1) [second header(1)] fields [CSBK trailer 0x10 0x80]          *)
(*   first header = more(1) ack(1) priority(1) control(1) type(4)                          *)
(*   registration request: [event(2)<<5 | encoding(5)] LV(device) LV(user) LV(password)    *)
(*   response: [refresh time | failure reason] selected by the ack bit of the first header *)
EXTENDS Integers, Sequences

B(x) == IF x THEN 1 ELSE 0
LV(s) == <<Len(s)>> \o s
Len16(n) == <<n \div 256, n % 256>>

SnEnc(sn, enc) ==
  LET two == sn > 31 \/ enc > 0
  IN IF two THEN <<128 + (sn % 32), ((sn \div 32) % 4) * 32 + enc>> ELSE <<sn % 32>>

\* f = [type ("AVAIL" | "ACK" | "TEXT"), ack, reserved, address, cap (-1 none), sn (-1 none), enc (0 none), message]
TmsOptional(f) ==
  CASE f.type = "AVAIL" -> IF f.cap >= 0 THEN <<f.cap>> ELSE <<>>
    [] f.type = "TEXT" -> SnEnc(f.sn, f.enc)
    [] f.type = "ACK" -> IF f.sn >= 0 \/ f.enc > 0 THEN SnEnc(IF f.sn < 0 THEN 0 ELSE f.sn, f.enc) ELSE <<>>      \* sn -1 = none given; 0 is a number
TmsMore(f) == (f.type = "AVAIL" /\ f.cap >= 0) \/ f.type = "TEXT" \/ (f.type = "ACK" /\ (f.sn >= 0 \/ f.enc > 0))
TmsFirst(f) == 128 * B(TmsMore(f)) + 64 * B(f.ack) + 32 * B(f.reserved \/ f.type = "TEXT")
               + 16 * B(f.type # "TEXT") + (IF f.type = "ACK" THEN 15 ELSE 0)
TmsEnc(f) == LET data == LV(f.address) \o TmsOptional(f) \o (IF f.type = "TEXT" THEN f.message ELSE <<>>)
             IN Len16(Len(data) + 1) \o <<TmsFirst(f)>> \o data

\* g = [type (0, 1, 4, 5, 15), more, ack, priority, control, event, encoding, device, user, password, second, csbk]
ArsBody(g) ==
  CASE g.type \in {0, 5} -> (IF g.more THEN <<g.event * 32 + g.encoding>> ELSE <<>>) \o LV(g.device) \o LV(g.user) \o LV(g.password)
    [] g.type = 15 -> IF g.more THEN <<g.second>> ELSE <<>>
    [] OTHER -> <<>>
ArsEnc(g) == LET payload == <<128 * B(g.more) + 64 * B(g.ack) + 32 * B(g.priority) + 16 * B(g.control) + g.type>> \o ArsBody(g)
                            \o (IF g.csbk THEN <<16, 128>> ELSE <<>>)
             IN Len16(Len(payload)) \o payload

LengthRule(bytes) == Len(bytes) >= 2 /\ bytes[1] * 256 + bytes[2] = Len(bytes) - 2
=============================================================================
