SPECIFICATION Spec
CONSTANTS
  Groups = 2
  MaxLoss = 4
INVARIANT SourcesSeparate
INVARIANT LosslessDeliversAll
INVARIANT DeliveredOnlyCompleteGroups
CHECK_DEADLOCK FALSE
