SPECIFICATION Spec
INVARIANT DecoderTracksEncoder
ACTION_CONSTRAINT Report
CHECK_DEADLOCK FALSE
