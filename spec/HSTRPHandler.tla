---------------------------- MODULE HSTRPHandler ----------------------------
(* HSTRP / RRS datagram handler: protocols/hytera/hstrp_datagram_protocol.py and          *)
(* rrs_datagram_protocol.py.  One action: a datagram is received; outputs are the         *)
(* datagrams handed to transport.sendto and the return value.                             *)
(*                                                                                        *)
(* (D) Receive mirrors the code: dispatch order connect > heartbeat > close > ack >       *)
(*     reject, "confirm everything not confirmed yet", the acknowledgement is a deep copy *)
(*     of the request with ack:=TRUE, reject:=FALSE, payload dropped and ALL OTHER FLAGS  *)
(*     AND THE OPTION BYTES KEPT; the RRS layer runs on every decoded datagram that       *)
(*     carries an RRS payload whatever its flags.                                         *)
(* (P) MonRecv judges observations clause by clause.                                      *)
EXTENDS Integers, Sequences, FiniteSets, TLC

CONSTANT AckTheAcks   \* TRUE: pinned code (a connect/close that carries the ack flag is
                      \* acknowledged again); FALSE: repaired code

Flags == [opt : BOOLEAN, rej : BOOLEAN, close : BOOLEAN, conn : BOOLEAN, hb : BOOLEAN, ack : BOOLEAN]
NoFlags == [opt |-> FALSE, rej |-> FALSE, close |-> FALSE, conn |-> FALSE, hb |-> FALSE, ack |-> FALSE]

\* a received datagram as the handler decodes it:
\*   valid: HSTRP.from_bytes returned an object (>= 6 octets, magic, decodable options/payload)
\*   clean: built by a well-behaved peer (not truncated / corrupted) - only used by the monitor
\*   f: flags, sn: 0..65535, optlen: octets of the option region as re-serialised,
\*   payload: "none" | "rrs_req" | "rrs_off" | "rrs_other" | "hdap_other", radio: radio ip key
Payloads == {"none", "rrs_req", "rrs_off", "rrs_other", "hdap_other"}

InitH == [connected |-> FALSE, sn |-> 0, reg |-> <<>>]     \* reg: sequence of [radio, state]

\* registry as the code keeps it (a dict: last write per key wins, insertion order irrelevant)
RegSet(reg, radio, st) ==
  LET idx == {i \in 1..Len(reg) : reg[i].radio = radio}
  IN IF idx = {} THEN Append(reg, [radio |-> radio, state |-> st])
     ELSE [i \in 1..Len(reg) |-> IF reg[i].radio = radio THEN [radio |-> radio, state |-> st] ELSE reg[i]]
RegGet(reg, radio) ==
  LET idx == {i \in 1..Len(reg) : reg[i].radio = radio}
  IN IF idx = {} THEN "None" ELSE reg[CHOOSE i \in idx : TRUE].state

Dgram(f, sn, optlen, payload, radio) == [f |-> f, sn |-> sn, optlen |-> optlen, payload |-> payload, radio |-> radio]
AckOf(m) == Dgram([m.f EXCEPT !.ack = TRUE, !.rej = FALSE], m.sn, m.optlen, "none", "")
Heartbeat == Dgram([NoFlags EXCEPT !.hb = TRUE], 0, 0, "none", "")
Answer(sn, radio) == Dgram(NoFlags, sn, 0, "rrs_answer", radio)      \* no option block, no option flag

\* HSTRPDatagramProtocol.datagram_received: returns [h, sent, handled]
HstrpRecv(h, m) ==
  IF ~m.valid THEN [h |-> h, sent |-> <<>>, handled |-> FALSE]
  ELSE
  LET f == m.f IN
  IF f.conn THEN
       IF f.rej THEN [h |-> h, sent |-> <<>>, handled |-> TRUE]      \* REJECT of our own CONNECT: no connect, not answered
       ELSE [h |-> [h EXCEPT !.connected = TRUE],
             sent |-> IF f.ack /\ ~AckTheAcks THEN <<>> ELSE <<AckOf(m)>>, handled |-> TRUE]
  ELSE IF f.hb THEN
       [h |-> h, sent |-> IF h.connected THEN <<Heartbeat>> ELSE <<>>, handled |-> TRUE]
  ELSE IF f.close THEN
       IF f.rej THEN [h |-> h, sent |-> <<>>, handled |-> TRUE]      \* REJECT of our own CLOSE: no close, not answered
       ELSE [h |-> [h EXCEPT !.connected = FALSE],
             sent |-> IF f.ack /\ ~AckTheAcks THEN <<>> ELSE <<AckOf(m)>>, handled |-> TRUE]
  ELSE IF f.ack THEN [h |-> h, sent |-> <<>>, handled |-> TRUE]
  ELSE IF f.rej THEN [h |-> h, sent |-> <<>>, handled |-> TRUE]        \* a REJECT is the negative acknowledgement: not answered
  ELSE [h |-> h, sent |-> <<AckOf(m)>>, handled |-> FALSE]

\* RRSDatagramProtocol.datagram_received on top of it
Recv(h, m) ==
  LET r == HstrpRecv(h, m) IN
  IF ~m.valid \/ m.payload \notin {"rrs_req", "rrs_off"} THEN
       [h |-> r.h, sent |-> r.sent, handled |-> r.handled, pdu |-> m.valid /\ m.payload # "none"]
  ELSE IF m.payload = "rrs_req" THEN
       LET sn == (r.h.sn + 1) % 65535 IN
       [h |-> [r.h EXCEPT !.sn = sn, !.reg = RegSet(@, m.radio, "Online")],
        sent |-> Append(r.sent, Answer(sn, m.radio)), handled |-> TRUE, pdu |-> TRUE]
  ELSE [h |-> [r.h EXCEPT !.reg = RegSet(@, m.radio, "Offline")],
        sent |-> r.sent, handled |-> TRUE, pdu |-> TRUE]

\* ---------------------------------------------------------------- (P) property monitor
\* monitor state: what the history implies, computed from received messages (clean ones)
\* and re-synchronised from observations after a datagram whose reading is ambiguous
InitMon == [cc |-> "closed",        \* last connect/close seen: "connect" | "closed" | "unknown"
            reg |-> <<>>]           \* per radio: "Online" | "Offline" | "unknown"

Acks(sent) == {i \in 1..Len(sent) : sent[i].f.ack}
Hbs(sent)  == {i \in 1..Len(sent) : sent[i].f.hb /\ ~sent[i].f.ack}
Answers(sent) == {i \in 1..Len(sent) : sent[i].payload = "rrs_answer"}

\* classes of clean messages the statement talks about
PureConnect(m) == m.f.conn /\ ~m.f.close /\ ~m.f.hb /\ ~m.f.ack /\ ~m.f.rej
PureClose(m)   == m.f.close /\ ~m.f.conn /\ ~m.f.hb /\ ~m.f.ack /\ ~m.f.rej
PureData(m)    == ~m.f.conn /\ ~m.f.close /\ ~m.f.hb /\ ~m.f.ack /\ ~m.f.rej
IsAck(m)       == m.f.ack
PureHeartbeat(m) == m.f.hb /\ ~m.f.conn /\ ~m.f.close /\ ~m.f.ack /\ ~m.f.rej
\* the negative form of an acknowledgement, as hstrp_send_ack(reject=True) forms it
PureReject(m)  == m.f.rej /\ ~m.f.ack /\ ~m.f.hb /\ ~(m.f.conn /\ m.f.close)      \* also the REJECT of our CONNECT / CLOSE (type bit kept)
RejectOfConnectOrClose(m) == PureReject(m) /\ (m.f.conn \/ m.f.close)
\* the acknowledgement of OUR connect / close as the peer's hstrp_send_ack forms it (the request's type bit kept, ack set):
\* seeing it is seeing the connect / close completed
ConnectAck(m)  == m.f.conn /\ m.f.ack /\ ~m.f.close /\ ~m.f.hb /\ ~m.f.rej
CloseAck(m)    == m.f.close /\ m.f.ack /\ ~m.f.conn /\ ~m.f.hb /\ ~m.f.rej
IsHeartbeat(m) == m.f.hb /\ ~m.f.conn

\* o = observation of one datagram_received call:
\*   [outcome, sent, connected (after), reg (after, as sequence of [radio,state])]
\* pre = observed connected flag before the call
MonRecv(mon, m, o, preConnected) ==
  LET judged == m.clean /\ m.valid
      needsAck == judged /\ (PureConnect(m) \/ PureClose(m) \/ PureData(m))
      why ==
        IF o.outcome # "ok" THEN "NeverRaises"
        ELSE IF needsAck /\ Cardinality(Acks(o.sent)) # 1 THEN "OneAckPerMessage"
        ELSE IF needsAck /\ \E i \in Acks(o.sent) :
                   o.sent[i].sn # m.sn \/ o.sent[i].payload # "none" THEN "AckSameSnNoPayload"
        ELSE IF judged /\ IsAck(m) /\ Acks(o.sent) # {} THEN "AcksNotAnswered"
        ELSE IF judged /\ PureReject(m) /\ Acks(o.sent) # {} THEN "AcksNotAnswered(reject)"
        ELSE IF judged /\ RejectOfConnectOrClose(m) /\ o.connected # preConnected THEN "ConnectedIsLastConnectClose"
        ELSE IF Hbs(o.sent) # {} /\ ~preConnected THEN "HeartbeatOnlyWhenConnected"
        \* ... in whatever form: a plain heartbeat heard while the link is down is answered by no datagram at all (an
        \* "acknowledgement" of it carries the heartbeat bit back just as well - HEARTBEAT is not a confirmed message)
        ELSE IF judged /\ PureHeartbeat(m) /\ ~preConnected /\ o.sent # <<>> THEN "HeartbeatOnlyWhenConnected"
        ELSE IF judged /\ Hbs(o.sent) # {} /\ ~m.f.hb THEN "HeartbeatOnlyEchoed"
        ELSE IF judged /\ (PureConnect(m) \/ ConnectAck(m)) /\ ~o.connected THEN "ConnectedIsLastConnectClose"
        ELSE IF judged /\ (PureClose(m) \/ CloseAck(m)) /\ o.connected THEN "ConnectedIsLastConnectClose"
        ELSE IF judged /\ ~m.f.conn /\ ~m.f.close /\ o.connected # preConnected THEN "ConnectedIsLastConnectClose"
        ELSE IF judged /\ PureData(m) /\ m.payload = "rrs_req" /\
                ~(Cardinality(Answers(o.sent)) = 1 /\ \A i \in Answers(o.sent) :
                     o.sent[i].radio = m.radio /\ o.sent[i].sn \in 0..65535 /\ o.sent[i].ok) THEN "AnswerPerRequest"
        ELSE IF judged /\ ~(m.payload = "rrs_req") /\ Answers(o.sent) # {} THEN "AnswerOnlyToRequest"
        ELSE IF judged /\ PureData(m) /\ m.payload = "rrs_req" /\ RegGet(o.reg, m.radio) # "Online" THEN "RegistryIsLastWord"
        ELSE IF judged /\ PureData(m) /\ m.payload = "rrs_off" /\ RegGet(o.reg, m.radio) # "Offline" THEN "RegistryIsLastWord"
        ELSE IF judged /\ \E i \in 1..Len(mon.reg) :
                   mon.reg[i].radio # (IF m.payload \in {"rrs_req", "rrs_off"} THEN m.radio ELSE "")
                   /\ mon.reg[i].state # "unknown"
                   /\ RegGet(o.reg, mon.reg[i].radio) # mon.reg[i].state THEN "RegistryOthersUntouched"
        ELSE "ok"
      \* new monitor state: follow clean pure messages, otherwise resynchronise from the observation
      cc == IF judged /\ PureConnect(m) THEN "connect" ELSE IF judged /\ PureClose(m) THEN "closed"
            ELSE IF o.connected THEN "connect" ELSE "closed"
  IN <<[cc |-> cc, reg |-> o.reg], why>>

\* ---------------------------------------------------------------- judging a recorded call
\* e = [m, out] with out = [outcome, sent, connected, sn, reg, handled, pdu]; pre = previous out
JudgeEvent(h, mon, e) ==
  LET r == Recv(h, e.m)
      o == e.out
      mr == MonRecv(mon, e.m, o, h.connected)
      d == IF ~e.m.clean THEN "ok"                            \* damaged: the model's reading is a guess
           ELSE IF o.outcome # "ok" THEN "outcome"
           ELSE IF r.h.connected # o.connected \/ r.h.sn # o.sn THEN "state"
           ELSE IF {<<x.radio, x.state>> : x \in {r.h.reg[i] : i \in 1..Len(r.h.reg)}}
                   # {<<x.radio, x.state>> : x \in {o.reg[i] : i \in 1..Len(o.reg)}} THEN "registry"
           ELSE IF [i \in 1..Len(o.sent) |-> [f |-> o.sent[i].f, sn |-> o.sent[i].sn, optlen |-> o.sent[i].optlen,
                                              payload |-> o.sent[i].payload, radio |-> o.sent[i].radio]] # r.sent THEN "sent"
           ELSE IF r.handled # o.handled \/ r.pdu # o.pdu THEN "return"
           ELSE "ok"
  IN [why |-> mr[2], dr |-> d, mon |-> mr[1],
      h |-> [connected |-> o.connected, sn |-> o.sn, reg |-> o.reg]]       \* follow the implementation
=============================================================================
