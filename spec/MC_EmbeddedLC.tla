---------------------------- MODULE MC_EmbeddedLC ----------------------------
(* Design: two sources each send Groups link controls as F C C L; the channel may lose any burst; the bursts of the two     *)
(* sources interleave arbitrarily.  What is delivered?                                                                     *)
(*   DeliveredOnlyCompleteGroups - whatever is delivered is the four fragments of ONE link control, in order: FAILS - with   *)
(*     four consecutive bursts lost (C L of one superframe, F C of the next) a word mixed from two link controls is         *)
(*     delivered, and nothing checks its 5-bit checksum;                                                                   *)
(*   SourcesSeparate - a delivered word only has fragments of its own source;                                              *)
(*   LosslessDeliversAll - without loss every link control is delivered exactly once.                                      *)
EXTENDS EmbeddedLC, TLC

CONSTANTS Groups, MaxLoss
Keys == {"k1", "k2"}
Lcss(k) == CASE k = 0 -> "F" [] k = 3 -> "L" [] OTHER -> "C"

VARIABLES st, next, lost, delivered
vars == <<st, next, lost, delivered>>
\* next[key] = index of the next burst of that source, 0 .. 4*Groups - 1 ; link control id = <<key, index \div 4>>
Init == st = <<>> /\ next = [k \in Keys |-> 0] /\ lost = 0 /\ delivered = {}
FragOf(key, n) == Frag(Lcss(n % 4), FALSE, <<key, n \div 4>>, n % 4)
Receive(key) == /\ next[key] < 4 * Groups
                /\ LET r == Step(st, key, FragOf(key, next[key])) IN
                   /\ st' = r.st /\ delivered' = IF r.out = <<>> THEN delivered ELSE delivered \cup {<<key, r.out>>}
                /\ next' = [next EXCEPT ![key] = @ + 1] /\ UNCHANGED lost
Lose(key) == /\ next[key] < 4 * Groups /\ lost < MaxLoss
             /\ next' = [next EXCEPT ![key] = @ + 1] /\ lost' = lost + 1 /\ UNCHANGED <<st, delivered>>
Next == \E key \in Keys : Receive(key) \/ Lose(key)
Spec == Init /\ [][Next]_vars

DeliveredOnlyCompleteGroups == \A d \in delivered : Genuine(d[2])
SourcesSeparate == \A d \in delivered : \A i \in 1..4 : d[2][i].g[1] = d[1]
LosslessDeliversAll == (lost = 0 /\ \A k \in Keys : next[k] = 4 * Groups) =>
                          Cardinality(delivered) = 2 * Groups /\ DeliveredOnlyCompleteGroups
=============================================================================
