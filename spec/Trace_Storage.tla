---------------------------- MODULE Trace_Storage ----------------------------
(* Code -> spec: validates histories recorded from the real RepeaterStorage.             *)
(* Each event = [act, post, ret, val, out]: the call, the projected storage afterwards,  *)
(* the returned record id / value and whether the call raised.                           *)
(* Verdict (why): the property-level predicates of Storage.tla evaluated on the OBSERVED *)
(* pre/post state.  Drift (dr): the observed step differs from the deterministic design  *)
(* model (informational).  Total: every step is enabled, nothing depends on deadlock.    *)
EXTENDS Storage, Json, IOUtils

Traces == JsonDeserialize(IOEnv.TRACE_FILE)
Keys == {"k1", "k2", "k3", "address_in"}

VARIABLES tid, l, recs, why, dr
vars == <<tid, l, recs, why, dr>>

Init == tid \in 1..Len(Traces) /\ l = 0 /\ recs = Traces[tid].init /\ why = "ok" /\ dr = "ok"

Obs(e) == [recs |-> e.post, ret |-> e.ret, val |-> e.val, out |-> e.out]

Step ==
  /\ l < Len(Traces[tid].ev)
  /\ LET e == Traces[tid].ev[l + 1]
         o == Obs(e)
         m == Apply(recs, e.act, Keys)            \* what the design model does
         w == WhyNot(recs, e.act, o, Keys)
     IN /\ l' = l + 1
        /\ recs' = e.post                         \* follow the implementation
        /\ why' = IF why # "ok" THEN why ELSE w
        /\ dr' = IF dr # "ok" THEN dr
                 ELSE IF m.recs # o.recs THEN "state"
                 ELSE IF m.out # o.out THEN "outcome"
                 ELSE IF m.out = "ok" /\ (m.ret # o.ret \/ m.val # o.val) THEN "return"
                 ELSE "ok"
        /\ tid' = tid

Done == l = Len(Traces[tid].ev) /\ UNCHANGED vars

Next == Step \/ Done
Spec == Init /\ [][Next]_vars

\* report (never stop): one line per rejected / drifting trace, printed when it is complete
\* or at the step where the verdict turned bad
Report ==
  /\ (why' # "ok" /\ why = "ok") =>
        PrintT(ToJson([tag |-> "REJECT", tid |-> tid, l |-> l', why |-> why']))
  /\ (dr' # "ok" /\ dr = "ok") =>
        PrintT(ToJson([tag |-> "DRIFT", tid |-> tid, l |-> l', why |-> dr']))
=============================================================================
