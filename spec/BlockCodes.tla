------------------------------ MODULE BlockCodes ------------------------------
(* Binary block codes of ETSI TS 102 361-1 annex B.3 as used by fec/hamming_*.py,         *)
(* golay_20_8_7.py, quadratic_residue_16_7_6.py.  Words are integers, most significant    *)
(* bit = first transmitted bit (as the library's bitarrays).                              *)
(* (B) a code is described by what was LEARNED through the public API:                    *)
(*     rows[i] = generate(unit message i), i = 1 (first message bit) .. k                 *)
(* (P) the clauses of C06 over the learned encoder: systematic, encoder output passes the *)
(*     checker, checker accepts exactly the code, minimum distance, single errors are     *)
(*     repaired, double errors of the extended code are reported.                         *)
(* (D) the codes as shortened cyclic codes: parity = data(x) x^r mod g(x) (+ overall      *)
(*     parity bit for the extended Hamming code) - compared with the learned rows.        *)
EXTENDS Integers, Sequences, FiniteSets, Bitwise, Folds

Bit(w, i) == (w \div (2 ^ i)) % 2                       \* i = 0 is the last bit
Weight(w, n) == Cardinality({i \in 0..(n - 1) : Bit(w, i) = 1})

\* linear encoder spanned by the learned rows: message m (k bits, MSB first)
Enc(rows, k, m) ==
  MapThenFoldSet(LAMBDA a, b : a ^^ b, 0, LAMBDA i : rows[i], LAMBDA S : CHOOSE x \in S : TRUE,
                 {i \in 1..k : Bit(m, k - i) = 1})

DataOf(w, n, k) == w \div (2 ^ (n - k))
IsCodeword(rows, n, k, w) == Enc(rows, k, DataOf(w, n, k)) = w

\* ---------------------------------------------------------------- (D) polynomial definition
\* remainder of a (degree < n) modulo g (degree r), both as integers
PolyMod(a, g, r, n) ==
  LET Step(acc, i) == IF Bit(acc, i) = 1 THEN acc ^^ (g * (2 ^ (i - r))) ELSE acc
      F[i \in (r - 1)..(n - 1)] == IF i = n - 1 THEN Step(a, i)
                                   ELSE IF i >= r THEN Step(F[i + 1], i) ELSE F[i + 1]
  IN IF n - 1 < r THEN a ELSE F[r - 1]

\* systematic cyclic encoder: m * x^r + (m * x^r mod g); ext = TRUE appends an overall parity bit
CyclicEnc(m, g, r, nn, ext) ==
  LET n0 == IF ext THEN nn - 1 ELSE nn
      sh == m * (2 ^ r)
      cw == sh + PolyMod(sh, g, r, n0)
  IN IF ext THEN cw * 2 + (Weight(cw, n0) % 2) ELSE cw
=============================================================================
