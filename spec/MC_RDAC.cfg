SPECIFICATION Spec
CONSTANTS
  MaxDepth = 3
INVARIANT PropertyHolds
INVARIANT StepsInRange
CONSTRAINT Bound
VIEW View
CHECK_DEADLOCK FALSE
