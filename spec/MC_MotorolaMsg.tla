----------------------------- MODULE MC_MotorolaMsg -----------------------------
(* C16: TLC judges TMS / ARS messages built from fields by the library.               *)
EXTENDS MotorolaMsg, Json, IOUtils, TLC
D == JsonDeserialize(IOEnv.DATA_FILE)
VARIABLES chunk, idx
vars == <<chunk, idx>>
ChunkSize == 64
N == Len(D.samples)
Init == chunk \in 0..((N + ChunkSize - 1) \div ChunkSize - 1) /\ idx = -1
Next == idx = -1 /\ idx' \in (chunk * ChunkSize)..((chunk + 1) * ChunkSize - 1) /\ idx' < N /\ UNCHANGED chunk
Spec == Init /\ [][Next]_vars

Judge(i) ==
  LET s == D.samples[i + 1]
      spec == IF s.kind = "tms" THEN TmsEnc(s.f) ELSE ArsEnc(s.f)
  IN [why |-> IF s.err # "" THEN "BuildSerialiseParse/" \o s.err
              ELSE IF ~LengthRule(s.bytes) THEN "LeadingLengthIsNumberOfOctetsThatFollow"
              ELSE IF s.parsed # s.f THEN "FieldsComeBackEqual"
              ELSE IF s.bytes2 # s.bytes THEN "SerialisesAgainToTheSameBytes"
              ELSE IF s.kind = "ars" /\ s.len # Len(s.bytes) THEN "ReportedLengthIsOctetsProduced" ELSE "ok",
      dr |-> IF s.err = "" /\ s.bytes # spec THEN "octets-differ-from-format-specification" ELSE "ok"]

Report ==
  LET j == Judge(idx') IN
  /\ j.why # "ok" => PrintT(ToJson([tag |-> "REJECT", idx |-> idx', why |-> j.why]))
  /\ j.dr # "ok" => PrintT(ToJson([tag |-> "DRIFT", idx |-> idx', why |-> j.dr]))
=============================================================================
