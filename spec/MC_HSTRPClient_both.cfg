SPECIFICATION Spec
CONSTANTS
  Sequential = FALSE
  MaxWake = 3
PROPERTY EveryServiceAsksToConnect
CHECK_DEADLOCK FALSE
