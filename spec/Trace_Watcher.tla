---------------------------- MODULE Trace_Watcher ----------------------------
(* Code -> spec for TransmissionWatcher.  An event is one process_burst call (op "burst":  *)
(* the burst carries target id tgt; op "notarget": target 0 and nothing to guess from) or  *)
(* one end_all_transmissions call:  [tgt, ts, op, b, out, post, obs]                       *)
EXTENDS Watcher, Json, IOUtils

Traces == JsonDeserialize(IOEnv.TRACE_FILE)

VARIABLES tid, l, terms, tok, mons, why, dr
vars == <<tid, l, terms, tok, mons, why, dr>>

Init == /\ tid \in 1..Len(Traces) /\ l = 0
        /\ terms = <<>> /\ tok = 0 /\ mons = <<>>
        /\ why = "ok" /\ dr = "ok"

Step ==
  /\ l < Len(Traces[tid].ev)
  /\ LET e == Traces[tid].ev[l + 1]
         r == JudgeWatcher(terms, tok, mons, e)
     IN /\ l' = l + 1 /\ tid' = tid
        /\ terms' = e.post.terms /\ tok' = e.post.tok         \* follow the implementation
        /\ mons' = r.mons
        /\ why' = IF why # "ok" THEN why ELSE r.why
        /\ dr' = IF dr # "ok" THEN dr ELSE r.dr

Done == l = Len(Traces[tid].ev) /\ UNCHANGED vars
Next == Step \/ Done
Spec == Init /\ [][Next]_vars

Report ==
  /\ (why' # "ok" /\ why = "ok") => PrintT(ToJson([tag |-> "REJECT", tid |-> tid, l |-> l', why |-> why']))
  /\ (dr' # "ok" /\ dr = "ok") => PrintT(ToJson([tag |-> "DRIFT", tid |-> tid, l |-> l', why |-> dr']))
  /\ l' > l => LET x == JudgeWatcher(terms, tok, mons, Traces[tid].ev[l']).ext
               IN x # "ok" => PrintT(ToJson([tag |-> "OUTSIDE", tid |-> tid, l |-> l', why |-> x]))
=============================================================================
