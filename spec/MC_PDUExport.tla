------------------------------ MODULE MC_PDUExport ------------------------------
(* prints the layout catalogue as JSON for the harness adapters *)
EXTENDS PDULayouts, Json, TLC
VARIABLE x
Init == x = 0 /\ PrintT(ToJson([tag |-> "LAYOUTS", all |-> [n \in DOMAIN All |-> All[n].L], total |-> [n \in DOMAIN All |-> All[n].total]]))
Next == x' = x
Spec == Init /\ [][Next]_x
=============================================================================
