SPECIFICATION Spec
CONSTANTS
 ResendInRespSent = FALSE
 MaxLoss = 0
 MaxForget = 0
 MaxDrop = 0
 MaxDmr = 0
 Impatient = TRUE
 MaxFlight = 3
CONSTRAINT Bounded
PROPERTY AcceptOnlyOnAccept
CHECK_DEADLOCK FALSE
