"""Growth phase (attached to C13, next to the MMDVM frame phase): the Homebrew / MMDVM repeater client
okdmr/dmrlib/protocols/mmdvm/mmdvm_client_protocol.py against spec/MMDVMClient.tla.

* design level (MC_MMDVMClient.tla): the client in a closed loop with a Homebrew master over lossy FIFO channels; TLC decides
  the liveness property EventuallyInSync (refuted for the code as committed, proved with the timer branch the class lacks) and the
  action property AcceptOnlyOnAccept (holds while one login request is in flight, refuted when two are);
* TLC -> code: the counterexamples are written with -dumpTrace json and replayed event by event on the real class (status,
  transport, queue contents, counters compared with every state of the counterexample);
* code -> spec: seeded random event histories on the real class judged by Trace_MMDVMClient.tla, with a coverage floor over
  (status, event) pairs.

The class as committed refers to names that do not exist in its module (`Mmdvm`, `common_log_format`, `get_dmr_data_hash`,
`log_mmdvm_configuration`) and to `self.settings` (the constructor stores `self.config`): the harness first records that every entry
point fails at first use, then supplies exactly those names in its own process (nothing in /repo is touched) and binds the rest.
Everything here is informational (OUTSIDE-LISTED-PROPERTIES / MODEL-DRIFT): no listed property covers this class."""
import asyncio
import hashlib
import json
import os
import struct

from harness import core

RID = 2300123
PASSWORD = "s3cret"
CH_BASE = 0x5EED0000
STATUS = {1: "New", 2: "ReqSent", 3: "RespSent", 4: "Ok", 5: "AuthFailed"}


class Settings:
    """what the class expects behind `self.settings` (the settings object of the bridge this file was taken from)"""
    hb_password = PASSWORD
    hb_tx_power = 5
    hb_color_code = 1
    hb_latitude = "50.0755"
    hb_longitude = "14.4378"
    hb_antenna_height = 12
    hb_location = "Praha"
    hb_description = "verif"
    hb_timeslots = "3"
    hb_url = "https://example.invalid"
    hb_software_id = "okdmr"
    hb_package_id = "verif"

    def get_repeater_dmrid(self):
        return RID

    def get_repeater_callsign(self):
        return "OK4DMR"

    def get_repeater_rx_freq(self):
        return "438800000"

    def get_repeater_tx_freq(self):
        return "431200000"


class FakeTransport:
    def __init__(self):
        self.sent, self.closing = [], False

    def sendto(self, data, addr=None):
        self.sent.append(bytes(data))

    def is_closing(self):
        return self.closing

    def get_extra_info(self, name, default=None):
        return default


class StepQueue:
    """queue_outgoing whose get() hands out one packet per step of the harness"""

    def __init__(self, loop):
        self.loop, self.items, self.waiter = loop, [], None

    def put_nowait(self, x):
        self.items.append(bytes(x))

    async def get(self):
        self.waiter = self.loop.create_future()
        return await self.waiter

    def release_one(self):
        if self.items and self.waiter is not None and not self.waiter.done():
            w, self.waiter = self.waiter, None
            w.set_result(self.items.pop(0))
            return True
        return False


class Incoming:
    def __init__(self):
        self.items = []

    def put_nowait(self, x):
        self.items.append(x)


def datagram(m):
    """the octets of a master datagram of the model: [k, ch]"""
    k = m["k"]
    if k == "ACK":
        return b"RPTACK" + struct.pack(">I", (CH_BASE + m["ch"]) if m["ch"] else RID)
    if k == "NAK":
        return b"MSTNAK" + struct.pack(">I", RID)
    if k == "PONG":
        return b"MSTPONG" + struct.pack(">I", RID)
    if k == "CL":
        return b"MSTCL" + struct.pack(">I", RID)
    if k == "DMRD":
        return b"DMRD" + bytes([7]) + (2300001).to_bytes(3, "big") + (9).to_bytes(3, "big") + struct.pack(">I", RID) + bytes([0x21]) + \
            struct.pack(">I", 0xCAFE0001) + bytes(33) + bytes(2)
    return b"RPTSBKN" + struct.pack(">I", RID)        # OTHER: a datagram that parses and that the client has no branch for


def classify(p):
    if p[:4] == b"RPTL" and len(p) == 8:
        return {"k": "RPTL", "ch": 0}
    if p[:4] == b"RPTK" and len(p) == 40:
        for ch in range(0, 64):
            n = (CH_BASE + ch) if ch else RID
            if p[8:] == hashlib.sha256(n.to_bytes(4, "big") + PASSWORD.encode()).digest() and p[4:8] == struct.pack(">I", RID):
                return {"k": "RPTK", "ch": ch}
        return {"k": "RPTK", "ch": -1}
    if p[:4] == b"RPTC" and len(p) == 302:
        return {"k": "RPTC", "ch": 0}
    if p[:7] == b"RPTPING" and len(p) == 11:
        return {"k": "RPTPING", "ch": 0}
    if p[:5] == b"RPTCL" and len(p) == 9:
        return {"k": "RPTCL", "ch": 0}
    return {"k": "?" + p[:7].decode("latin-1"), "ch": 0}


class Rig:
    """one real MMDVMClientProtocol with its two coroutines under the harness's control"""

    def __init__(self, supply_names=True):
        import okdmr.dmrlib.protocols.mmdvm.mmdvm_client_protocol as mod
        self.mod = mod
        self.loop = asyncio.new_event_loop()
        self.real_sleep = asyncio.sleep
        self.sleepers = []
        rig = self

        async def fake_sleep(delay, result=None):
            fut = rig.loop.create_future()
            rig.sleepers.append(fut)
            await fut
            return result

        self.fake_sleep = fake_sleep
        self.saved = {}
        if supply_names:
            from okdmr.kaitai.homebrew.mmdvm2020 import Mmdvm2020
            for name, val in (("Mmdvm", Mmdvm2020), ("common_log_format", lambda **kw: ""), ("get_dmr_data_hash", lambda d: ""),
                              ("log_mmdvm_configuration", lambda **kw: None)):
                self.saved[name] = getattr(mod, name, None)
                setattr(mod, name, val)
        self.outq = StepQueue(self.loop)
        self.inq = Incoming()
        self.cb = [0]
        cfg = mod.MMDVMClientConfiguration(upstream_addr=("192.0.2.1", 62031), repeater_id=RID, callsign="OK4DMR")
        self.p = mod.MMDVMClientProtocol(cfg, lambda: self.cb.__setitem__(0, self.cb[0] + 1), self.outq, self.inq)
        if supply_names:
            self.p.settings = Settings()
        self.transports = []
        self.sent = []
        self.tasks = [self.loop.create_task(self.p.periodic_maintenance()), self.loop.create_task(self.p.send_mmdvm_from_queue())]
        self._run()

    def _run(self):
        asyncio.sleep = self.fake_sleep
        try:
            for _ in range(3):
                self.loop.run_until_complete(self.real_sleep(0))
        finally:
            asyncio.sleep = self.real_sleep

    def failed_tasks(self):
        return [type(t.exception()).__name__ for t in self.tasks if t.done() and not t.cancelled() and t.exception() is not None]

    def apply(self, ev):
        """one event of the model; returns the datagrams written to a transport during it"""
        before = sum(len(t.sent) for t in self.transports)
        a = ev["a"]
        if a == "tick":
            if self.sleepers:
                self.sleepers.pop(0).set_result(None)
            self._run()
        elif a == "made":
            t = FakeTransport()
            self.transports.append(t)
            self.p.connection_made(t)
        elif a == "close":
            if self.p.transport is not None:
                self.p.transport.closing = True
        elif a == "lost":
            self.p.connection_lost(None)
        elif a == "disc":
            self.p.disconnect()
        elif a == "recv":
            self.p.datagram_received(datagram(ev["m"]), ("192.0.2.1", 62031))
        elif a == "pump":
            if self.outq.release_one():
                self._run()
        allsent = [x for t in self.transports for x in t.sent]
        return [classify(x) for x in allsent[before:]]

    def project(self):
        tr = "none" if self.p.transport is None else ("closing" if self.p.transport.is_closing() else "open")
        return {"st": STATUS.get(self.p.connection_status, str(self.p.connection_status)), "tr": tr,
                "outq": [classify(x) for x in self.outq.items], "inq": len(self.inq.items), "cb": self.cb[0]}

    def close(self):
        for t in self.tasks:
            t.cancel()
        try:
            self.loop.run_until_complete(asyncio.gather(*self.tasks, return_exceptions=True))
        except Exception:  # noqa
            pass
        self.loop.close()
        for name, val in self.saved.items():
            if val is None:
                try:
                    delattr(self.mod, name)
                except AttributeError:
                    pass
            else:
                setattr(self.mod, name, val)


def as_committed(ctx):
    """the class without the names the harness supplies: which entry points work at all"""
    out = {}
    for name, evs in (("connection_made", [{"a": "made"}]), ("datagram_received", [{"a": "recv", "m": {"k": "PONG", "ch": 0}}]),
                      ("periodic_maintenance", [{"a": "tick"}]), ("disconnect", [{"a": "disc"}])):
        rig = Rig(supply_names=False)
        try:
            if name == "disconnect":
                rig.p.transport = FakeTransport()
            for e in evs:
                rig.apply(e)
            failed = rig.failed_tasks()
            out[name] = ("raise:" + failed[0]) if failed else "ok"
        except Exception as ex:  # noqa
            out[name] = "raise:" + type(ex).__name__
        finally:
            rig.close()
    ctx.note("mmdvm_client_as_committed", out)
    bad = sorted(k for k, v in out.items() if v != "ok")
    if bad:
        ctx.outside("MMDVMClientProtocol as committed cannot run: " + ", ".join(f"{k} -> {out[k][6:]}" for k in bad) +
                    " (the module never imports Mmdvm / the logging helpers it calls, and reads self.settings where the constructor stores self.config); "
                    "the rest of this phase supplies those names in the harness process")
    return out


def replay_counterexample(ctx, path, what):
    """TLC -> code: every client-level event of a counterexample on the real class, state compared after each step"""
    ce = json.load(open(path))["counterexample"]["state"]
    states = [s[1] for s in ce]
    rig = Rig()
    steps = 0
    try:
        for prev, cur in zip(states, states[1:]):
            ev = cur["last"]
            if ev["a"] in ("env", "init"):
                continue
            if ev["a"] == "lost":
                rig.apply({"a": "close"})
            sent = rig.apply(ev)
            steps += 1
            want = {"st": cur["c"]["st"], "tr": cur["c"]["tr"], "outq": [{"k": m["k"], "ch": m["ch"]} for m in cur["c"]["outq"]],
                    "inq": cur["c"]["inq"], "cb": cur["c"]["cb"]}
            got = rig.project()
            if got != want:
                ctx.model_drift(f"MMDVM client, {what}: after event {json.dumps(ev)} the real class is in {json.dumps(got)}, the counterexample in {json.dumps(want)}")
                return None
            if ev["a"] == "pump" and len(cur["c2m"]) > len(prev["c2m"]) and sent != [{"k": cur["c2m"][-1]["k"], "ch": cur["c2m"][-1]["ch"]}]:
                ctx.model_drift(f"MMDVM client, {what}: pump wrote {sent}, the counterexample {cur['c2m'][-1]}")
                return None
        return rig, steps, states[-1]
    except Exception as ex:  # noqa
        ctx.model_drift(f"MMDVM client, {what}: the real class raised {type(ex).__name__} while a counterexample was replayed")
        rig.close()
        return None


def random_history(rng, n):
    evs = []
    master = ["ACK", "ACK", "NAK", "PONG", "CL", "DMRD", "OTHER"]
    for _ in range(n):
        a = rng.choice(["tick", "tick", "made", "close", "lost", "disc", "recv", "recv", "recv", "recv", "pump", "pump", "pump"])
        m = {"k": "", "ch": 0, "for": ""}
        if a == "recv":
            k = rng.choice(master)
            m = {"k": k, "ch": rng.randrange(1, 6) if k == "ACK" and rng.random() < 0.7 else 0, "for": ""}
        evs.append({"a": a, "m": m})
    return evs


def run_history(evs):
    rig = Rig()
    out = []
    try:
        for e in evs:
            pre = rig.project()["st"]
            err = ""
            try:
                sent = rig.apply(e)
            except Exception as ex:  # noqa
                sent, err = [], type(ex).__name__
            failed = rig.failed_tasks()
            if failed and not err:
                err = "task:" + failed[0]
            out.append({"a": e["a"], "m": e["m"], "post": rig.project(), "sent": sent, "err": err, "pre": pre})
            if err:
                break
    finally:
        rig.close()
    return out


def phase(ctx):
    committed = as_committed(ctx)
    # ---- design level
    expect = {"MC_MMDVMClient_safety.cfg": None, "MC_MMDVMClient_live.cfg": "EventuallyInSync", "MC_MMDVMClient_fixed.cfg": None,
              "MC_MMDVMClient_impatient.cfg": "AcceptOnlyOnAccept", "MC_MMDVMClient_drop.cfg": "AcceptOnlyOnAccept",
              "MC_MMDVMClient_dmr.cfg": "DmrOnlyWhenLoggedIn"}
    dumps = {}
    for cfg, want in expect.items():
        dump = os.path.join(ctx.rundir, cfg.replace(".cfg", ".trace.json"))
        res = core.run_tlc(ctx, "MC_MMDVMClient", cfg, workers=1, timeout=600, extra=("-dumpTrace", "json", dump))
        got = res.violated
        ctx.note("mmdvm_client_design_" + cfg[15:-4], f"{got or 'all properties hold'} ({res.distinct} states)")
        if (got or None) != want:
            ctx.model_drift(f"MMDVM client design model {cfg}: TLC reports {got or 'no violation'}, the recorded expectation is {want or 'no violation'}")
        if got and os.path.exists(dump):
            dumps[cfg] = dump
    # ---- TLC -> code: the counterexamples on the real class
    if "MC_MMDVMClient_live.cfg" in dumps:
        r = replay_counterexample(ctx, dumps["MC_MMDVMClient_live.cfg"], "liveness counterexample")
        if r is not None:
            rig, steps, last = r
            quiet_ticks = 0
            for _ in range(5):
                rig.apply({"a": "tick"})
                p = rig.project()
                quiet_ticks += 1 if (p["st"] == last["c"]["st"] and not p["outq"]) else 0
            ctx.note("mmdvm_client_liveness_counterexample_replayed_steps", steps)
            if last["c"]["st"] == "RespSent" and quiet_ticks == 5:
                ctx.outside("MMDVMClientProtocol: after one lost datagram of the challenge exchange (RPTK or the RPTACK that answers it) the client "
                            "stays in CON_LOGIN_RESPONSE_SENT for ever - periodic_maintenance has no branch for that status, five further wake-ups "
                            "send nothing (TLC: EventuallyInSync refuted, counterexample replayed on the real class; with the missing timer branch the property holds)")
            else:
                ctx.model_drift(f"MMDVM client: the real class leaves the final state of the liveness counterexample ({quiet_ticks}/5 quiet wake-ups)")
            rig.close()
    for cfg, label in (("MC_MMDVMClient_impatient.cfg", "two login requests in flight (timer faster than the round trip)"),
                       ("MC_MMDVMClient_drop.cfg", "two login requests in flight (socket dropped and came back)")):
        if cfg in dumps:
            r = replay_counterexample(ctx, dumps[cfg], "safety counterexample " + cfg[15:-4])
            if r is not None:
                rig, steps, last = r
                ctx.note("mmdvm_client_counterexample_replayed_steps_" + cfg[15:-4], steps)
                if last["c"]["st"] == "Ok" and last["ms"]["ph"] != "Authed" and last["ms"]["ph"] != "Configured":
                    ctx.outside("MMDVMClientProtocol: with " + label + " the second challenge (RPTACK) is taken for the acceptance of the challenge "
                                "response: the client logs 'Master Login Accept' and sends its configuration while the master has not authenticated it "
                                "(TLC: AcceptOnlyOnAccept refuted, counterexample replayed on the real class)")
                rig.close()
    if "MC_MMDVMClient_dmr.cfg" in dumps:
        r = replay_counterexample(ctx, dumps["MC_MMDVMClient_dmr.cfg"], "safety counterexample dmr")
        if r is not None:
            rig, steps, last = r
            ctx.note("mmdvm_client_counterexample_replayed_steps_dmr", steps)
            if last["c"]["st"] != "Ok" and last["c"]["inq"] >= 1 and rig.project()["inq"] >= 1:
                ctx.outside("MMDVMClientProtocol: DMR data from the master is put on queue_incoming whatever the connection status - after the "
                            "socket dropped (status New, not logged in) a DMRD datagram is still forwarded "
                            "(TLC: DmrOnlyWhenLoggedIn refuted, counterexample replayed on the real class)")
            rig.close()
    # ---- code -> spec: random histories judged by Trace_MMDVMClient
    import random
    rng = random.Random(ctx.seed * 131 + 5)
    traces, pairs, errs = [], set(), {}
    for i in range(150 if ctx.quick else 2500):
        evs = random_history(rng, rng.choice([8, 20, 40]))
        rec = run_history(evs)
        for e in rec:
            pairs.add((e["pre"], e["a"] if e["a"] != "recv" else "recv:" + e["m"]["k"]))
            if e["err"]:
                errs[e["err"]] = errs.get(e["err"], 0) + 1
            ctx.count(core.digest(["mmdvmc", e["pre"], e["a"], e["m"]["k"], e["post"]["st"], len(e["post"]["outq"])]))
        traces.append({"init": {}, "ev": [{k: v for k, v in e.items() if k != "pre"} for e in rec]})
    want_pairs = {(s, a) for s in ("New", "ReqSent", "RespSent", "Ok")
                  for a in ("tick", "made", "close", "lost", "disc", "pump", "recv:ACK", "recv:NAK", "recv:PONG", "recv:CL", "recv:DMRD", "recv:OTHER")}
    missing = sorted(want_pairs - pairs)
    ctx.note("mmdvm_client_histories", len(traces))
    ctx.note("mmdvm_client_status_event_pairs_covered", f"{len(want_pairs & pairs)} of {len(want_pairs)}")
    if len(missing) > 4:
        raise core.MachineryError(f"MMDVM client phase: (status, event) pairs never exercised: {missing[:8]}")
    for k, n in sorted(errs.items()):
        ctx.outside(f"MMDVMClientProtocol (missing names supplied) raised {k} in a random event history")
    for part in core.chunks(traces, 500):
        ctx.validate_traces("Trace_MMDVMClient", "Trace_MMDVMClient.cfg", part)
