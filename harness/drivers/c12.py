"""C12 — Hytera HSTRP/HRNP/HDAP messages are framed consistently and re-encode equally.
spec/HyteraFraming.tla is the oracle for the format facts the property names (service byte, length field in the protocol's
endianness, checksum, terminator, reported length, HRNP length and ones-complement checksum, HSTRP option chain);
MC_HyteraFraming.tla judges application PDUs (RRS, LP, TMP, RCP - every implemented opcode) built from in-range fields,
alone, nested in HRNP and nested in HSTRP with 0..3 options, and their parse -> serialise round trips."""
import json
import os

from harness import core, gen
from harness.catalogue import struct


def builders():
    import datetime
    from okdmr.dmrlib.etsi.layer3.elements.talker_alias_data_format import TalkerAliasDataFormat
    from okdmr.dmrlib.hytera.pdu import location_protocol as L
    from okdmr.dmrlib.hytera.pdu import radio_control_protocol as R
    from okdmr.dmrlib.hytera.pdu import radio_registration_service as S
    from okdmr.dmrlib.hytera.pdu import text_message_protocol as T
    from okdmr.dmrlib.hytera.pdu.radio_ip import RadioIP
    rid = lambda r: r.choice([0, 1, 2 ** 24 - 1, r.randrange(1 << 24)])
    ip = lambda r: RadioIP(rid(r), subnet=r.choice([10, 11, 0, 255]))
    req = lambda r: r.choice([0, 1, 2 ** 31, 2 ** 32 - 1, r.getrandbits(32)])
    rel = lambda r: bool(r.getrandbits(1))
    out = []
    # ---- RRS
    def rrs(op):
        def f(r):
            kw = dict(opcode=op, is_reliable=rel(r), radio_ip=ip(r))
            if op == S.RRSTypes.RadioRegistrationAnswer:        # only the fields the opcode carries
                kw.update(result=r.choice(list(S.RRSResult)), renew_time_seconds=r.choice([1, 300, 0xFFFE, r.randrange(1, 0xFFFF)]))
            if op == S.RRSTypes.RegistrationStatusCheckAnswer:
                kw.update(radio_state=r.choice(list(S.RRSRadioState)))
            return S.RadioRegistrationService(**kw)
        return f

    for op in S.RRSTypes:
        out.append(("RRS", op.name, rrs(op)))
    # ---- LP

    calls = [0]

    def gps(r):
        # the special values are walked through by a counter (every one of them occurs in every run, whatever the seed), the
        # random ones fill the rest
        n = calls[0]
        calls[0] += 1
        lat = [0.0, 4718.8051, 8959.9999, round(r.uniform(0, 8959.9999), 4)][n % 4]
        lon = [0.0, 1854.4387, 17959.9999, round(r.uniform(0, 17959.9999), 4), round(r.uniform(0, 17959.9999), 4)][n % 5]
        # the speed field holds three characters: "x.y" below 10, an integer from 10 on; values that only reach 10 after rounding
        # to a tenth (9.95 .. 9.99) belong to the second form
        speeds = [0.0, 0.01, 0.04, 0.05, 0.1, 5.0, 9.9, 9.94, 9.95, 9.96, 9.99, 10.0, 10.4, 12.0, 99.0, 99.4, 99.6, 100.0, 999.0, 999.4, 999.5,
                  999.9, 0, 7, 12, 999,      # whole-number speeds given as int, as the parser itself stores a null speed
                  float(r.randrange(0, 1000)), r.randrange(1, 100) / 10, round(r.uniform(9.9, 10.1), 3), round(r.uniform(0, 999.9), 2)]
        spd = speeds[n % len(speeds)]
        # the legal values whose text is all zeros or collides with an "absent" sentinel: midnight, the first day of 2000
        # (None = no fix time / date, what the parser stores for NULs)
        tm = [None, datetime.time(0, 0, 0), datetime.time(0, 0, 1), datetime.time(23, 59, 59), datetime.time(10, 0, 0),
              datetime.time(r.randrange(24), r.randrange(60), r.randrange(60)), datetime.time(r.randrange(24), r.randrange(60), r.randrange(60)),
              datetime.time(r.randrange(24), r.randrange(60), r.randrange(60)),
              # a fix time as a receiver's clock gives it (datetime.now().time()): the six-character field holds its whole seconds
              datetime.time(r.randrange(24), r.randrange(60), r.randrange(60), r.choice([1, 500000, 999999, r.randrange(1, 1000000)]))][n % 9]
        dt = [None, datetime.date(2000, 1, 1), datetime.date(2099, 12, 31), datetime.date(2010, 10, 10), datetime.date(r.randrange(2000, 2100), 2, 28),
              datetime.date(r.randrange(2000, 2100), r.randrange(1, 13), r.randrange(1, 29)),
              datetime.date(r.randrange(2000, 2100), r.randrange(1, 13), r.randrange(1, 29)),
              datetime.date(2069, 6, 15), datetime.date(2068, 12, 31), datetime.date(r.randrange(2000, 2100), r.randrange(1, 13), r.randrange(1, 29))][n % 10]
        return L.GPSData(data_valid=r.choice(["A", "V"]), greenwich_time=tm, greenwich_date=dt,
                         north_south=r.choice(["N", "S"]), latitude=lat, east_west=r.choice(["E", "W"]), longitude=lon, speed_knots=spd,
                         direction=r.choice([0, 1, 121, 359]))

    out.append(("LP", "StandardRequest", lambda r: L.LocationProtocol(opcode=L.LocationProtocolSpecificService.StandardRequest, request_id=req(r),
                                                                     radio_ip=ip(r), is_reliable=rel(r))))
    out.append(("LP", "StandardReport", lambda r: L.LocationProtocol(opcode=L.LocationProtocolSpecificService.StandardReport, request_id=req(r),
                                                                    radio_ip=ip(r), result=r.choice([c.value for c in L.LocationProtocolResultCodes] + list(L.LocationProtocolResultCodes)),
                                                                    gpsdata=gps(r), is_reliable=rel(r))))
    # ---- TMP
    texts = ["", "A", "Hello", "žluťoučký kůň", "中文" * 40, "x" * 200, " ", "trailing ", " lead", "line\r\n", "\x00nul", "nul\x00", "\u00a0nbsp\u00a0", "\ufeffbom"]

    def tmp(op):
        def f(r):
            has_opt = bool(r.getrandbits(1))
            kw = dict(opcode=op, is_reliable=rel(r), is_confirmed=rel(r), has_option=has_opt, request_id=req(r), destination_ip=ip(r),
                      option_data=(r.choice([b"", b"\x01", b"\x00", bytes(7), b"\xff" * 5, gen.rbytes(r, 7), gen.rbytes(r, 300)]) if has_opt else None))
            if op in (T.TMPService.SendPrivateMessage, T.TMPService.SendGroupMessage):
                kw.update(source_ip=ip(r), text_data=r.choice(texts))
            elif op in (T.TMPService.SendPrivateMessageAck, T.TMPService.PrivateShortDataAck):
                kw.update(source_ip=ip(r), result_code=r.choice(list(T.TMPResultCodes)))
            elif op in (T.TMPService.SendGroupMessageAck, T.TMPService.GroupShortDataAck):
                kw.update(result_code=r.choice(list(T.TMPResultCodes)))
            else:
                kw.update(source_ip=ip(r), short_data=r.choice([b"", b"\x00", gen.rbytes(r, 9), gen.rbytes(r, 140)]))
            return T.TextMessageProtocol(**kw)
        return f

    for op in (T.TMPService.SendPrivateMessage, T.TMPService.SendGroupMessage, T.TMPService.SendPrivateMessageAck, T.TMPService.SendGroupMessageAck,
               T.TMPService.PrivateShortData, T.TMPService.PrivateShortDataAck, T.TMPService.GroupShortData, T.TMPService.GroupShortDataAck):
        out.append(("TMP", op.name, tmp(op)))
    # ---- RCP
    nlong = [0]

    def long_len(r):
        nlong[0] += 1
        return [255, 256, 257, 512, 513, 300, 768, 1024][(nlong[0] // 3) % 8] if nlong[0] % 3 == 0 else r.randrange(0, 12)

    nscn = [0]

    def scn_settings(r):
        """the settings of a status change notification request: given (0..4 targets), or - every third time - LEFT OUT, the
        optional argument's default; the time before that the caller built such a request without settings and then added entries
        to the PDU's own dictionary (a PDU under construction) - which is nobody else's dictionary"""
        nscn[0] += 1
        if nscn[0] % 3 == 1:
            p0 = R.RadioControlProtocol(opcode=R.RCPOpcode.StatusChangeNotificationRequest)
            for t in r.sample([x for x in R.StatusChangeNotificationTargets], 2):
                p0.status_change_settings[t] = r.choice([x for x in R.StatusChangeNotificationSetting])
            p0.as_bytes()
        if nscn[0] % 3 == 2:
            return dict()
        return dict(status_change_settings={t: r.choice([x for x in R.StatusChangeNotificationSetting])
                                            for t in r.sample([x for x in R.StatusChangeNotificationTargets], r.randrange(0, 5))})

    O = R.RCPOpcode
    ct = lambda r: r.choice(list(R.RCPCallType))
    res = lambda r: r.choice(list(R.RCPResult))
    id32 = lambda r: r.choice([0, 1, 2 ** 24 - 1, 2 ** 32 - 1, r.getrandbits(32)])
    rcp = {
        "CallRequest": lambda r: dict(call_type=ct(r), target_id=id32(r)),
        "CallReply": lambda r: dict(result=res(r)),
        "RepeaterBroadcastTransmitStatus": lambda r: dict(repeater_mode=r.choice(list(R.RepeaterMode)), repeater_status=r.choice(list(R.RepeaterStatus)),
                                                          repeater_service_type=r.choice(list(R.RepeaterServiceType)), call_type=ct(r),
                                                          target_id=id32(r), sender_id=id32(r)),
        "BroadcastMessageConfigurationRequest": lambda r: dict(broadcast_type=r.randrange(256)),
        "BroadcastMessageConfigurationReply": lambda r: dict(result=res(r)),
        "StatusChangeNotificationReply": lambda r: dict(result=res(r)),
        "RadioIDAndRadioIPQueryReply": lambda r: dict(result=res(r), target=r.choice(list(R.RadioIpIdTarget)), raw_value=gen.rbytes(r, 4)),
        "RadioIDAndRadioIPQueryRequest": lambda r: dict(target=r.choice(list(R.RadioIpIdTarget))),
        "BroadcastStatusConfigurationRequest": lambda r: dict(broadcast_config_raw=(lambda n: bytes([n]) + gen.rbytes(r, 2 * n))(r.randrange(0, 6))),
        "BroadcastStatusConfigurationReply": lambda r: dict(result=res(r)),
        "SendTalkerAliasRequest": lambda r: dict(call_type=ct(r), sender_id=id32(r), target_id=id32(r),
                                                 talker_alias_format=r.choice(list(TalkerAliasDataFormat)), talker_alias_data=gen.rbytes(r, r.choice([0, 1, 14, 31]))),
        "SendTalkerAliasReply": lambda r: dict(result=res(r), call_type=ct(r), sender_id=id32(r), target_id=id32(r)),
        "ZoneAndChannelOperationRequest": lambda r: dict(raw_payload=gen.rbytes(r, 5)),
        "ZoneAndChannelOperationReply": lambda r: dict(raw_payload=gen.rbytes(r, r.choice([1, 6, 9]))),
        "StatusChangeNotificationRequest": lambda r: scn_settings(r),
        "RadioStatusReport": lambda r: dict(status_change_target=r.choice([x for x in R.StatusChangeNotificationTargets]), status_change_value=r.randrange(1 << 16)),
        # a pass-through payload is any octets: lengths that need the second octet of the (little-endian) RCP length field, whose
        # two octets read the other way round give a smaller number (256, 512, 513 ...), are walked through by a counter
        "UnknownService": lambda r: dict(raw_payload=gen.rbytes(r, long_len(r)), raw_opcode=bytes([0x7E, 0x7F])),
    }
    for name, kw in rcp.items():
        if hasattr(O, name):
            out.append(("RCP", name, lambda r, name=name, kw=kw: R.RadioControlProtocol(opcode=getattr(O, name), is_reliable=rel(r), **kw(r))))
    return out


def layout_fields(proto, o):
    """octet sequences of the fields a payload layout of spec/HyteraPayloads.tla is made of, taken from the attributes of the
    built object with the harness's own big-endian arithmetic (GPS record: the library's 40 octets)"""
    def ip(x):
        return [int(x.subnet) & 255] + list(int(x.radio_id).to_bytes(3, "big")) if x is not None else []

    def code(x):
        v = x.value if hasattr(x, "value") else x
        return [int(v) & 255] if v is not None else []

    lay = {"ip": [], "ip2": [], "req": [], "res": [], "renew": [], "gps": [], "body": [], "has_opt": False, "opt": [], "confirmed": False}
    if proto == "RCP":
        val = lambda x: int(x.value) if hasattr(x, "value") else (int(x) if x is not None else 0)
        le4 = lambda x: list(int(x or 0).to_bytes(4, "little"))
        n = o.opcode.name
        return {"ct": val(getattr(o, "call_type", None)), "res": val(getattr(o, "result", None)), "tgt": le4(getattr(o, "target_id", 0)),
                "snd": le4(getattr(o, "sender_id", 0)), "mode": val(getattr(o, "repeater_mode", None)), "status": val(getattr(o, "repeater_status", None)),
                "svc": val(getattr(o, "repeater_service_type", None)), "bt": int(getattr(o, "broadcast_type", 0) or 0),
                "iptgt": val(getattr(o, "radio_ip_id_target", None)),
                "raw": list((o.broadcast_config_raw if n == "BroadcastStatusConfigurationRequest" else o.raw_value if n == "RadioIDAndRadioIPQueryReply"
                             else o.raw_payload) or b""),
                "fmt": val(getattr(o, "talker_alias_data_format", None)), "alias": list(getattr(o, "talker_alias_data", b"") or b""),
                "settings": [[val(k), val(v)] for k, v in (getattr(o, "status_change_settings", None) or {}).items()],
                "sct": val(getattr(o, "status_change_target", None)), "scv": int(getattr(o, "status_change_value", 0) or 0)}
    if proto == "RRS":
        lay["ip"] = ip(o.radio_ip)
        if o.opcode.name == "RadioRegistrationAnswer":
            lay["res"], lay["renew"] = code(o.result), list(int(o.renew_time_seconds).to_bytes(4, "big"))
        elif o.opcode.name == "RegistrationStatusCheckAnswer":
            lay["res"] = code(o.radio_state)
    elif proto == "LP":
        lay["req"], lay["ip"] = list(int(o.request_id).to_bytes(4, "big")), ip(o.radio_ip)
        if o.specific_service.name == "StandardReport":
            r = o.result.value if hasattr(o.result, "value") else o.result
            lay["res"], lay["gps"] = list(int(r).to_bytes(2, "big")), list(o.gpsdata.as_bytes())
    elif proto == "TMP":
        lay["req"], lay["ip"], lay["ip2"] = list(int(o.request_id).to_bytes(4, "big")), ip(o.destination_ip), ip(o.source_ip)
        lay["res"] = code(o.result_code) if o.result_code is not None else []
        lay["body"] = list(o.text_data) if o.opcode.name in ("SendPrivateMessage", "SendGroupMessage") else list(o.short_data)
        lay["has_opt"], lay["opt"], lay["confirmed"] = bool(o.has_option), list(o.option_data or b""), bool(o.is_confirmed)
    return lay


def run(ctx):
    ctx.rule = ("every implemented opcode of RRS (5), LP (2), TMP (8), RCP (17) built from in-range fields (boundary radio ids, request ids up to "
                "2^32-1, UTF-16 text, option data 0..300 octets, GPS over the NMEA range incl. speeds >= 10 kn), serialised, parsed, re-serialised, "
                "nested in HRNP and in HSTRP with 0..3 options; TLC recomputes every format fact. distinct = distinct PDUs.")
    ctx.assumptions += [
        "GPS speed is a 3-character field (x.y below 10, integers 10..999): any speed of the NMEA range 0..999.9 is built; field equality is judged on the value the field can hold (nearest tenth / integer, at most 999)",
        "field equality is value-based over all attributes of the parsed object (computed by the harness, judged as a boolean)",
    ]
    core.setup_repo_path()
    import random
    from okdmr.dmrlib.hytera.pdu.hdap import HDAP
    from okdmr.dmrlib.hytera.pdu.hrnp import HRNP, HRNPOpcodes
    from okdmr.dmrlib.hytera.pdu.hstrp import HSTRP, HSTRPOptions, HSTRPOptionType, HSTRPPacketType
    rng = random.Random(ctx.seed)
    samples = []
    B = builders()
    per = 25 if ctx.quick else 1500
    # opcodes interleaved (what one PDU leaves behind must not show in the next); every other sample is handled by a
    # caller that edits, after use, the objects it built and the objects it got back
    for rnd in range(per):
        for proto, name, build in B:
            owned = []
            s = {"proto": proto, "op": name, "lay": layout_fields("-", None), "err": "", "frame": [], "reliable": False, "len": 0, "frame2": [], "fields_equal": False,
                 "hrnp": [], "hrnp2": [], "hrnp_ok": False, "hstrp": [], "hstrp2": [], "sn": 0, "opts": []}
            stage = "build"
            try:
                o = build(rng)
                try:
                    s["lay"] = layout_fields(proto, o)
                except Exception as ex:  # noqa: the harness reads attributes the object does not have
                    raise core.MachineryError(f"layout_fields({proto}/{name}): {type(ex).__name__}: {ex}")
                owned.append(o)
                s["reliable"] = bool(o.is_reliable)
                stage = "serialise"
                fr = o.as_bytes()
                s["frame"], s["len"] = list(fr), len(o)
                g = getattr(o, "gpsdata", None)
                if g is not None and isinstance(getattr(g, "speed_knots", None), float):
                    # field equality is judged on what the three-character speed field can hold
                    v = g.speed_knots
                    g.speed_knots = 0.0 if round(v, 1) <= 0 else (round(v, 1) if round(v, 1) < 10 else float(min(round(v), 999)))
                if g is not None and getattr(g, "greenwich_time", None) is not None and g.greenwich_time.microsecond:
                    # ... and on what the six-character hhmmss field can hold
                    g.greenwich_time = g.greenwich_time.replace(microsecond=0)
                stage = "parse"
                p = HDAP.from_bytes(gen.as_caller_bytes(fr, len(fr)))
                owned.append(p)
                s["frame2"] = list(p.as_bytes())
                s["fields_equal"] = struct(p) == struct(o)
                stage = "hrnp"
                h = HRNP(data=o, opcode=HRNPOpcodes.DATA, source=rng.randrange(0x20, 0x30), destination=0x10, packet_number=rng.randrange(1 << 16),
                         block_number=rng.randrange(256))
                if rnd % 3 != 1:
                    # packet numbers aimed at the corners of ones-complement addition: the word sum carries a second time
                    # after the first end-around fold / the folded sum is 0xFFFF (checksum 0x0000)
                    h.packet_number = 0
                    b0 = h.as_bytes()
                    cd = b0[:10] + b0[12:] + (b"\x00" if len(b0) % 2 else b"")
                    s0 = sum(int.from_bytes(cd[i:i + 2], "big") for i in range(0, len(cd), 2))
                    low0, h0 = s0 & 0xFFFF, s0 >> 16
                    if h0 >= 1:
                        h.packet_number = (65535 - low0) if rnd % 3 == 0 else (65535 - h0 - low0) % 65536
                hb = h.as_bytes()
                s["hrnp"] = list(hb)
                hp = HRNP.from_bytes(gen.as_caller_bytes(hb, len(hb) + 1))
                owned += [h, hp]
                s["hrnp2"], s["hrnp_ok"] = list(hp.as_bytes()), bool(hp.checksum_correct)
                stage = "hstrp"
                k = rng.randrange(0, 4)
                opts = HSTRPOptions() if k else None
                optrec = []
                for _ in range(k):
                    t = rng.choice(list(HSTRPOptionType))
                    d = gen.rbytes(rng, {HSTRPOptionType.RTP: 0, HSTRPOptionType.DeviceID: 4}.get(t, 1))
                    opts.add_option(t, d)
                    optrec.append({"tag": t.value, "data": list(d)})
                s["sn"], s["opts"] = rng.randrange(1 << 16), optrec
                hs = HSTRP(pkt_type=HSTRPPacketType(have_options=k > 0), sn=s["sn"], options=opts, payload=o)
                sb = hs.as_bytes()
                s["hstrp"] = list(sb)
                hs2 = HSTRP.from_bytes(sb)
                owned += [hs, hs2]
                s["hstrp2"] = list(hs2.as_bytes())
            except core.MachineryError:
                raise
            except Exception as ex:  # noqa
                s["err"] = f"{stage}:{type(ex).__name__}"
            if rnd % 2:
                seen = set()
                for x in owned:
                    gen.scribble(x, seen=seen)
            samples.append(s)
            ctx.count(core.digest([proto, name, s["frame"], s["opts"]]))
    path = os.path.join(ctx.rundir, "c12_data.json")
    json.dump({"samples": samples}, open(path, "w"))
    ctx.sample({k: samples[40][k] for k in ("proto", "op", "frame", "opts", "hstrp")})
    res = core.run_tlc(ctx, "MC_HyteraFraming", "MC_HyteraFraming.cfg", env={"DATA_FILE": path}, timeout=1800, jvm=("-Xss256m",))
    if not res.ok or res.distinct < len(samples):
        raise core.MachineryError(f"TLC did not judge all samples ({res.distinct} < {len(samples)})")
    ctx.traces_validated = len(samples)
    ctx.note("opcodes", len(B))
    groups = {}
    for v in core.parse_printed_json(res, tag="REJECT"):
        s = samples[v["idx"]]
        groups.setdefault(f"hytera/{s['proto']}/{s['op']}/{v['why']}", []).append(s)
    drift = {}
    for v in core.parse_printed_json(res, tag="DRIFT"):
        drift[v["why"]] = drift.get(v["why"], 0) + 1
    for why, n_ in sorted(drift.items()):
        ctx.model_drift(f"{why} ({n_} PDUs)")
    for key, items in sorted(groups.items()):
        ctx.violation(key, f"{key}: {len(items)} PDUs, first frame {bytes(items[0]['frame']).hex()[:120]} err={items[0]['err']}",
                      {"count": len(items), "first": items[:2]})
    detect_phase(ctx, samples)


DECODERS = {"HyteraSimpleTransportReliabilityProtocol": "HSTRP", "HyteraRadioNetworkProtocol": "HRNP", "RealTimeTransportProtocol": "RTP",
            "IpSiteConnectHeartbeat": "IpSiteConnectHeartbeat", "IpSiteConnectProtocol": "IPSC", "HyteraDmrApplicationProtocol": "HDAP",
            "Mmdvm2020": "MMDVM"}
KAITAI_FILES = {"hytera_simple_transport_reliability_protocol": "HSTRP", "hytera_radio_network_protocol": "HRNP",
                "real_time_transport_protocol": "RTP", "ip_site_connect_heartbeat": "IpSiteConnectHeartbeat", "ip_site_connect_protocol": "IPSC",
                "hytera_dmr_application_protocol": "HDAP"}


def detect_phase(ctx, samples):
    """growth beyond the statement (spec/Detect.tla): protocol detection of utils/parsing.py as a decision table; the table is
    compared with the decoder the real functions select (drift) and the datagrams the library serialises itself are followed
    through it (observations outside the listed properties)"""
    import contextlib
    import io
    import random
    import traceback
    from harness.catalogue import harvest
    from okdmr.dmrlib.utils.parsing import parse_hytera_data, try_parse_packet
    rng = random.Random(ctx.seed + 5)

    def selected(d):
        try:
            return DECODERS.get(type(parse_hytera_data(d)).__name__, "skip")
        except BaseException as ex:  # noqa: the decoder that was selected may reject the datagram
            files = [os.path.basename(f.filename)[:-3] for f in traceback.extract_tb(ex.__traceback__)]
            for f in files:                   # the outermost decoder is the one that was selected
                if f in KAITAI_FILES:
                    return KAITAI_FILES[f]
            return "IndexError" if isinstance(ex, IndexError) and files and files[-1] == "parsing" else "skip"

    def first(d):
        with contextlib.redirect_stderr(io.StringIO()), contextlib.redirect_stdout(io.StringIO()):
            r = try_parse_packet(d)
        return "failed" if r is None else DECODERS.get(type(r).__name__, "skip")

    obs = []

    def add(d, kind=""):
        obs.append({"d": list(d), "hytera": selected(d), "first": first(d), "kind": kind})
        ctx.count(core.digest(["detect", list(d)]))

    for s_ in samples[:: max(1, len(samples) // 300)]:
        if s_["frame"]:
            add(bytes(s_["frame"]), "HDAP")
        if s_["hrnp"]:
            add(bytes(s_["hrnp"]), "HRNP")
        if s_["hstrp"]:
            add(bytes(s_["hstrp"]), "HSTRP")
    for f in [x for x in harvest("hytera/test_hytera_ipsc.py") + harvest("etsi/layer2/test_burst.py") if len(x) == 72 and x[2:4] == b"ZZ"][:40]:
        add(f, "IPSC")
    for f0 in (0, 2, 8, 9, 17, 50, 90, 126, 128, 136, 145, 191, 192, 255):
        for n in (0, 1, 2, 7, 12, 20, 21, 22, 40, 72):
            for eq in (False, True):
                d = bytearray(rng.getrandbits(8) for _ in range(n))
                if n >= 1:
                    d[0] = f0
                if n >= 22:
                    d[21] = d[20] if eq else d[20] ^ 1
                add(bytes(d))
    for pre in (b"USRP", b"DMRD", b"RPTL", b"RPTPING", b"MSTPONG", b"MSTNAK", b"RPTACK", b"XXXX", b"ZZZZ"):
        add(pre + bytes(rng.getrandbits(8) for _ in range(rng.choice([0, 4, 51]))))
    path = os.path.join(ctx.rundir, "c12_detect.json")
    json.dump({"obs": obs}, open(path, "w"))
    res = core.run_tlc(ctx, "MC_Detect", "MC_Detect.cfg", env={"DATA_FILE": path}, timeout=900, jvm=("-Xss64m",))
    if not res.ok or res.distinct < len(obs):
        raise core.MachineryError(f"TLC did not follow all datagrams through the detection table ({res.distinct} < {len(obs)})")
    ctx.note("detection_datagrams", len(obs))
    design = sorted({v["why"] for v in core.parse_printed_json(res, tag="DESIGN")})
    ctx.note("detection_design_findings", design)
    for v in core.parse_printed_json(res, tag="DRIFT"):
        ctx.model_drift(f"Detect: datagram {bytes(obs[v['idx']]['d']).hex()[:24]}...: {v['why']}")
    for v in core.parse_printed_json(res, tag="OUTSIDE"):
        ctx.outside(v["why"])


def replay(ctx, rec):
    print("replay: re-running the check (PDUs are regenerated from the seed)")
    run(ctx)
    return ctx.finish()
