"""C18 — repeater handshake handlers serve only registered peers and keep peers separate.
spec/P2P.tla (on Storage.tla) and spec/RDAC.tla: design models + property monitors; MC_P2P / MC_RDAC
(exhaustive interleavings of 3 peers, edge dumps); Trace_P2P / Trace_RDAC (TLC judges recorded runs of
the real handlers with a recording transport; Repeater.read_snmp_values is stubbed)."""
import json
import os
from multiprocessing import Pool

from harness import core, gen
from harness.drivers.c08 import tours_from_edges
from harness.drivers.c17 import FakeTransport
from harness.drivers.c20 import enc, builtin_of

PING = bytes([0x0A, 0x00, 0x00, 0x00, 0x14])
ACK = bytes([0x0C, 0x00, 0x00, 0x00, 0x14])
P2P_PORT, RDAC_PORT = 50000, 50002


def stub_snmp():
    from okdmr.dmrlib.storage.repeater import Repeater
    Repeater.read_snmp_values = lambda self, *a, **k: {}


# ------------------------------------------------------------------------------ P2P


def p2p_build(rng, d):
    cls = d["cls"]
    if cls in ("reg", "dmr", "rdac", "ack", "unk"):
        n = rng.randrange(21, 48)
        data = bytearray(gen.rbytes(rng, n))
        data[0:3] = b"P2P"
        data[4] = 0xFF if d["ovf"] else rng.randrange(0, 0xFF)
        if bytes(data[4:9]) in (PING, ACK):
            data[8] = 0
        if cls in ("reg", "dmr", "rdac") and not d["ovf"] and rng.random() < 0.25:
            # a command is a command whatever its octets 4..8 are: they may look like a keep-alive or like an acknowledgement
            data[4:9] = rng.choice([PING, ACK])
        if cls == "ack":
            data[4:9] = ACK
            data[20] = rng.choice([0x00, 0x13, 0x7F])
        elif cls == "unk":
            data[20] = rng.choice([0x00, 0x0F, 0x13, 0xFF])
            if rng.random() < 0.2:
                data = data[:rng.randrange(3, 21)]     # too short to carry a type
        else:
            data[20] = {"reg": 0x10, "dmr": 0x11, "rdac": 0x12}[cls]
        return bytes(data)
    if cls == "ping":
        # a keep-alive is recognised by octets 4..8 alone; ovf = it ends before octet 14 (9..14 octets)
        data = bytearray(gen.rbytes(rng, rng.randrange(9, 15) if d["ovf"] else rng.choice([15, 15, 16, rng.randrange(15, 32)])))
        if data[:3] == b"P2P":
            data[0] = 0
        data[4:9] = PING
        return bytes(data)
    # garbage
    data = bytearray(gen.rbytes(rng, rng.choice([0, 1, 2, 5, 9, 21, 40])))
    if data[:3] == b"P2P":
        data[0] = 0
    if bytes(data[4:9]) == PING:
        data[8] ^= 0xFF
    return bytes(data)


def p2p_classify(out, inp):
    if out == b"\x00":
        return "reject", 0
    if len(out) >= 15 and out[4:9] == PING and out[12] == 0xFF and out[14] == 0x01:
        return "ping_answer", 0
    if len(out) >= 24 and out[:3] == b"P2P" and out[4] == 0x0B and out[12:16] == b"\xff\xff\x01\x00" and out[-4:-2] == b"\xff\x01":
        return "redirect", int.from_bytes(out[-2:], "little")
    if len(out) == len(inp) + 1 and out[:3] == b"P2P" and out[-1] == 0x01 and len(out) > 21:
        if out[20] == 0x10 and out[3] == 0x50 and out[13:16] == b"\x01\x01\x5a" and out[4] == (inp[4] + 1) & 0xFF:
            return "reg_reply", 0
        if out[20] in (0x11, 0x12) and out[13] == 0x01 and out[4] == (inp[4] + 1) & 0xFF:
            return ("accept_dmr" if out[20] == 0x11 else "accept_rdac"), 0
    return "unknown", 0


def addr_rec(a):
    return {"ip": a[0], "port": a[1]}


class P2PSut:
    def __init__(self, rng):
        from okdmr.dmrlib.protocols.hytera.p2p_datagram_protocol import P2PDatagramProtocol
        from okdmr.dmrlib.storage.repeater_storage import RepeaterStorage
        stub_snmp()
        self.rng = rng
        self.st = RepeaterStorage()
        self.h = P2PDatagramProtocol(storage=self.st, p2p_port=P2P_PORT, rdac_port=RDAC_PORT)
        self.tr = FakeTransport()
        self.h.connection_made(self.tr)

    def project(self):
        out = []
        for n, r in enumerate(self.st.all()):
            out.append({"id": n + 1,
                        "f": builtin_of(r),
                        "attrs": {"p2p_is_registered": enc("True" if r.attr("p2p_is_registered") else None)}})
        return out

    def event(self, op, src, d=None, cfg=None):
        self.tr.sent.clear()
        outcome = "ok"
        d = d or {"cls": "garbage", "ovf": False}
        cfg = cfg or src
        if op == "configure":
            self.st.match_incoming(tuple(src), auto_create=True, patch={"address_out": tuple(cfg)})
            data = b""
        else:
            data = p2p_build(self.rng, d)
            try:
                self.h.datagram_received(data, tuple(src))
            except Exception:  # noqa
                outcome = "raise"
        sent = []
        for o, dst in self.tr.sent:
            k, port = p2p_classify(bytes(o), data)
            sent.append({"kind": k, "dst": addr_rec(dst) if dst else {"ip": "", "port": 0}, "port": port})
        return {"op": op, "src": addr_rec(src), "d": d, "cfg": addr_rec(cfg),
                "out": {"sent": sent, "out": outcome, "recs": self.project()}}


def p2p_run(args):
    seed, steps = args
    import random
    core.setup_repo_path()
    sut = P2PSut(random.Random(seed))
    return {"init": {}, "ev": [sut.event(op, src, d, cfg) for op, src, d, cfg in steps]}


# ------------------------------------------------------------------------------ RDAC

PREFIX = {"FD": 0xFD, "10": 0x10, "00": 0x00, "FA": 0xFA}


def rdac_build(rng, d):
    if d["cls"] == "reset":
        return b"\x00" if d["zero"] else bytes([rng.randrange(1, 256)])
    if d["cls"] == "resp":
        head = bytes([0x7E, 0x04, 0x00, PREFIX[d["k"]]])
        if d["long"]:
            body = bytearray(226)
            # four UTF-16 text fields; badtext: a lone surrogate in one of them (legal octets, not legal UTF-16)
            text = "OK1DMR".encode("utf_16_le") if not d.get("badtext") else b"O\x00\x00\xd8K\x00"
            for off in (56, 88, 120, 184):
                body[off - 4:off - 4 + len(text)] = text
            body[14:17] = gen.rbytes(rng, 3)       # dmr id octets 18..20
            body[22] = rng.randrange(0, 3)         # repeater mode, octet 26
            return head + bytes(body)
        return head + gen.rbytes(rng, rng.randrange(0, 6))
    # other: a prefix no step expects - including the empty datagram and fragments (prefixes / inner parts) of the responses
    # the steps do expect, which are not those responses
    k = rng.random()
    if k < 0.3:
        full = bytes([0x7E, 0x04, 0x00, rng.choice(list(PREFIX.values()))])
        return rng.choice([b"", full[:2], full[:3], full[1:3], full[1:4], full[2:4]])
    if k < 0.6:
        return bytes([0x7E, 0x04, 0x00, rng.choice([0x55, 0x01, 0xFB, 0xFE])]) + gen.rbytes(rng, rng.randrange(0, 30))
    data = bytearray(gen.rbytes(rng, rng.randrange(2, 40)))
    if data[:3] == b"\x7e\x04\x00":
        data[0] = 0
    return bytes(data)


class CallbackFault(Exception):
    """raised by the harness's own completion callback (the application's fault, not the handler's)"""


def peer_label(a):
    return f"{a[0]}:{a[1]}"


def steps_by_peer(step, peers):
    """the handler's step dictionary read per PEER (ip, port) - the statement's unit ('never changes another peer's step'). A
    handler that keeps one step per ip shows it for every peer of that ip, and so shows one peer moving another."""
    out = {}
    for p in sorted(peers):
        if tuple(p) in step:
            out[peer_label(p)] = int(step[tuple(p)])
        elif p[0] in step:
            out[peer_label(p)] = int(step[p[0]])
    return out


class RDACSut:
    def __init__(self, rng, raising=False):
        from okdmr.dmrlib.protocols.hytera.rdac_datagram_protocol import RDACDatagramProtocol
        from okdmr.dmrlib.storage.repeater_storage import RepeaterStorage
        stub_snmp()
        self.rng = rng
        self.st = RepeaterStorage()
        self.done = []

        def callback(i):
            self.done.append(i)
            if raising:
                raise CallbackFault("the application's completion callback fails")
        self.h = RDACDatagramProtocol(storage=self.st, callback=callback)
        self.tr = FakeTransport()
        self.h.connection_made(self.tr)
        self.peers = set()

    def event(self, addr, d):
        self.peers.add(tuple(addr))
        self.tr.sent.clear()
        self.done.clear()
        outcome = "ok"
        try:
            self.h.datagram_received(rdac_build(self.rng, d), tuple(addr))
        except CallbackFault:
            pass                         # the application's own fault comes back to it; what the handler did is judged as usual
        except Exception:  # noqa
            outcome = "raise"
        rpt = self.st.match_incoming(tuple(addr))
        return {"ip": peer_label(addr), "d": d,
                "out": {"st": steps_by_peer(self.h.step, self.peers), "nsent": len(self.tr.sent), "lens": [len(x[0]) for x in self.tr.sent],
                        "done": len(self.done), "doneIsPeer": bool(self.done) and rpt is not None and all(x == rpt.id for x in self.done),
                        "out": outcome}}


EXPECTED = {1: "FD", 2: "10", 3: "00", 4: "00", 5: "10", 6: "00", 7: "10", 8: "10", 10: "00", 11: "10", 12: "00", 13: "FA"}


def path_to(step):
    """datagrams that take a fresh peer to `step`"""
    ds = []
    if step == 0:
        return ds
    ds.append({"cls": "reset", "k": "none", "long": False, "zero": True})
    s = 1
    while s != step:
        ds.append({"cls": "resp", "k": EXPECTED[s], "long": True, "zero": False})
        s = 10 if s == 8 else s + 1
    return ds


def rdac_run(args):
    seed, steps = args
    import random
    core.setup_repo_path()
    # in one run out of three the application's completion callback raises (a fault at the point where the run is reported)
    sut = RDACSut(random.Random(seed), raising=seed % 3 == 1)
    return {"init": {}, "ev": [sut.event(a, d) for a, d in steps]}


# ------------------------------------------------------------------------------ both handlers on one storage (growth)


class StartupSut:
    """P2P and RDAC handler sharing one RepeaterStorage, as the gateway wires them"""

    def __init__(self, rng):
        from okdmr.dmrlib.protocols.hytera.p2p_datagram_protocol import P2PDatagramProtocol
        from okdmr.dmrlib.protocols.hytera.rdac_datagram_protocol import RDACDatagramProtocol
        from okdmr.dmrlib.storage.repeater_storage import RepeaterStorage
        stub_snmp()
        self.rng = rng
        self.st = RepeaterStorage()
        self.done = []
        self.p = P2PDatagramProtocol(storage=self.st, p2p_port=P2P_PORT, rdac_port=RDAC_PORT)
        self.r = RDACDatagramProtocol(storage=self.st, callback=lambda i: self.done.append(i))
        self.ptr, self.rtr = FakeTransport(), FakeTransport()
        self.p.connection_made(self.ptr)
        self.r.connection_made(self.rtr)

    project = P2PSut.project

    def p2p(self, src, d):
        self.ptr.sent.clear()
        outcome = "ok"
        data = p2p_build(self.rng, d)
        try:
            self.p.datagram_received(data, tuple(src))
        except Exception:  # noqa
            outcome = "raise"
        sent = []
        for o, dst in self.ptr.sent:
            k, port = p2p_classify(bytes(o), data)
            sent.append({"kind": k, "dst": addr_rec(dst) if dst else {"ip": "", "port": 0}, "port": port})
        return {"h": "p2p", "op": "recv", "src": addr_rec(src), "d": d, "cfg": addr_rec(src),
                "out": {"sent": sent, "out": outcome, "recs": self.project()}}

    def rdac(self, src, d):
        self.rpeers = getattr(self, "rpeers", set())
        self.rpeers.add(tuple(src))
        self.rtr.sent.clear()
        self.done.clear()
        outcome = "ok"
        try:
            self.r.datagram_received(rdac_build(self.rng, d), tuple(src))
        except Exception:  # noqa
            outcome = "raise"
        rpt = self.st.match_incoming(tuple(src))
        return {"h": "rdac", "ip": peer_label(src), "src": addr_rec(src), "d": d, "recs": self.project(),
                "out": {"st": steps_by_peer(self.r.step, self.rpeers), "nsent": len(self.rtr.sent), "done": len(self.done),
                        "doneIsPeer": bool(self.done) and rpt is not None and all(x == rpt.id for x in self.done), "out": outcome}}


def startup_run(args):
    seed, steps = args
    import random
    core.setup_repo_path()
    sut = StartupSut(random.Random(seed))
    return {"init": {}, "ev": [sut.p2p(src, d) if h == "p2p" else sut.rdac(src, d) for h, src, d in steps]}


def startup_history(rng, n):
    """2..3 repeaters each following the start-up script (registration, RDAC request, the RDAC run on the RDAC port, DMR request,
    pings) at their own pace, interleaved, with deviations: requests before registration, RDAC traffic from addresses that never
    registered, resets, unexpected responses, a repeater that shares its IP with another one"""
    ips = rng.sample(["ip1", "ip2", "ip3"], rng.randrange(2, 4))
    reps = [{"p": (ip, P2P_PORT), "r": (ip, RDAC_PORT if rng.random() < 0.7 else 40000 + k), "script": None} for k, ip in enumerate(ips)]
    if rng.random() < 0.4:
        reps.append({"p": (ips[0], P2P_PORT + 1), "r": (ips[0], RDAC_PORT + 1), "script": None})       # behind the same address
    P = lambda cls: {"cls": cls, "ovf": False}
    for rp in reps:
        sc = []
        if rng.random() < 0.25:
            sc += [("p2p", rp["p"], P(rng.choice(["rdac", "dmr", "ping"])))]          # asks before registering
        if rng.random() < 0.85:
            sc += [("p2p", rp["p"], P("reg"))]
        sc += [("p2p", rp["p"], P("ping"))] * rng.choice([0, 1])
        sc += [("p2p", rp["p"], P("rdac"))]
        sc += [("rdac", rp["r"], d) for d in path_to(rng.choice([14, 14, 14, 6, 10]))]
        sc += [("p2p", rp["p"], P("dmr")), ("p2p", rp["p"], P("ping"))]
        rp["script"] = sc
    steps = []
    while len(steps) < n and any(rp["script"] for rp in reps):
        rp = rng.choice([x for x in reps if x["script"]])
        k = rng.random()
        if k < 0.12:
            steps.append(("rdac", rp["r"], rng.choice([{"cls": "reset", "k": "none", "long": False, "zero": rng.random() < 0.5},
                                                      {"cls": "resp", "k": rng.choice(["FD", "10", "00", "FA"]), "long": rng.random() < 0.7, "zero": False},
                                                      {"cls": "other", "k": "none", "long": False, "zero": False}])))
        elif k < 0.2:
            steps.append(("p2p", rng.choice([rp["p"], rp["r"], ("ip9", P2P_PORT)]), P(rng.choice(["ping", "dmr", "rdac", "ack", "unk", "garbage"]))))
        else:
            steps.append(rp["script"].pop(0))
    return steps


def startup_phase(ctx):
    n, ln = (150, 120) if ctx.quick else (2500, 250)
    jobs = [(ctx.seed * 9176 + i, startup_history(ctx.rng, ctx.rng.randrange(10, ln))) for i in range(n)]
    with Pool(core.NCPU) as pool:
        hist = pool.map(startup_run, jobs, chunksize=8)
    completed = 0
    for t, j in zip(hist, jobs):
        t["seed"], t["steps"] = j
        for e in t["ev"]:
            completed += e["out"].get("done", 0) if e["h"] == "rdac" else 0
            ctx.count(core.digest(["startup", e["h"], e["d"], e["out"].get("st") or [x["kind"] for x in e["out"]["sent"]]]))
    ctx.note("startup_histories", len(hist))
    ctx.note("startup_rdac_runs_completed", completed)
    if completed < 20:
        raise core.MachineryError("start-up histories hardly ever complete an RDAC run: the growth phase would be vacuous")
    for part in core.chunks(hist, 300):
        for tid, l, why in ctx.validate_traces("Trace_Startup", "Trace_Startup.cfg", part):
            t = part[tid]
            e = t["ev"][l - 1]
            ctx.violation(f"startup/{why}/{e['h']}/{e['d']['cls']}",
                          f"both handlers on one storage: step {l} ({e['h']} handler, datagram {json.dumps(e['d'])} from {e['src']}) breaks {why}",
                          {"handler": "startup", "seed": t["seed"], "steps": t["steps"][:l], "clause": why, "origin": "start-up history"})


LOOPCFG = """SPECIFICATION Spec
CONSTANTS
  Lose = {lose}
  Swap = {swap}
  Dup = {dup}
  InLoop = {inloop}
{prop}INVARIANT CompletesAtMostOnce
INVARIANT CompletionMeansIdentified
INVARIANT StepsInRange
ACTION_CONSTRAINT Report
CHECK_DEADLOCK FALSE
"""


def rdac_inloop_run(seed):
    import asyncio
    import random
    import warnings
    warnings.simplefilter("ignore")          # "coroutine was never awaited": part of what is being observed, not of the report
    core.setup_repo_path()
    from okdmr.dmrlib.hytera.snmp import SNMP
    from okdmr.dmrlib.protocols.hytera.rdac_datagram_protocol import RDACDatagramProtocol
    from okdmr.dmrlib.storage.repeater_storage import RepeaterStorage

    async def walk(self, ip, snmp_community="public", first_try=True, timeout_secs=2):
        return {"callsign": "OK1DMR"}
    SNMP.walk_ip = walk
    rng = random.Random(seed)
    done, raised = [], []
    h = RDACDatagramProtocol(storage=RepeaterStorage(), callback=lambda i: done.append(i))
    h.connection_made(FakeTransport())

    async def main():
        import contextlib
        import io
        import warnings
        for d in path_to(14):
            try:
                with contextlib.redirect_stdout(io.StringIO()), warnings.catch_warnings():
                    warnings.simplefilter("ignore")
                    h.datagram_received(rdac_build(rng, d), ("ip1", RDAC_PORT))
            except Exception as ex:  # noqa
                raised.append(type(ex).__name__)
    asyncio.run(main())
    return {"step": steps_by_peer(h.step, [("ip1", RDAC_PORT)]).get(peer_label(("ip1", RDAC_PORT)), 0), "done": len(done), "raised": "+".join(raised) or "nothing"}


def rdacloop_phase(ctx):
    """growth beyond the statement (spec/MC_RDACLoop.tla): the RDAC handler in a closed loop with a repeater that answers as
    expected, over a network that loses, swaps or duplicates responses.  TLC proves completion on the clean network and lists
    every maximal behaviour of the faulty one; each is replayed on the real handler (per-step verdicts by Trace_RDAC - these
    are ordinary datagram histories of C18 - and the final step / completions compared with the model)."""
    with open(os.path.join(ctx.rundir, "MC_RDACLoop_clean.cfg"), "w") as f:
        f.write(LOOPCFG.format(lose=0, swap=0, dup=0, inloop="FALSE", prop="PROPERTY EventuallyIdentified\n"))
    res = core.run_tlc(ctx, "MC_RDACLoop", "MC_RDACLoop_clean.cfg", timeout=600, workers=1)
    if res.violated:
        ctx.outside(f"RDAC closed loop on a clean network: the design model violates {res.violated}")
    b = (1, 1, 1) if ctx.quick else (2, 2, 2)
    with open(os.path.join(ctx.rundir, "MC_RDACLoop_faulty.cfg"), "w") as f:
        f.write(LOOPCFG.format(lose=b[0], swap=b[1], dup=b[2], inloop="FALSE", prop=""))
    res = core.run_tlc(ctx, "MC_RDACLoop", "MC_RDACLoop_faulty.cfg", timeout=1800, workers=1)
    if res.violated:
        ctx.outside(f"RDAC closed loop on a faulty network: the design model violates {res.violated}")
    runs, seen = [], set()
    for v in core.parse_printed_json(res, tag="LOOP") :
        k = core.digest(v["hist"])
        if k not in seen:
            seen.add(k)
            runs.append(v)
    if len(runs) < 20:
        raise core.MachineryError(f"closed-loop model produced only {len(runs)} behaviours")
    addr = ("ip1", RDAC_PORT)
    jobs = [(ctx.seed * 77 + i, [(addr, d) for d in v["hist"]]) for i, v in enumerate(runs)]
    with Pool(core.NCPU) as pool:
        traces = pool.map(rdac_run, jobs, chunksize=16)
    stalled = 0
    for t, j, v in zip(traces, jobs, runs):
        t["seed"], t["steps"] = j
        last = t["ev"][-1]["out"]
        ctx.count("loop" + core.digest(v["hist"]), len(v["hist"]))
        if last["st"].get(peer_label(addr), 0) != v["step"] or sum(e["out"]["done"] for e in t["ev"]) != v["done"]:
            ctx.model_drift(f"RDAC closed loop: after {len(v['hist'])} datagrams the handler is at step {last['st'].get(peer_label(addr), 0)}, the model at {v['step']}")
        if v["step"] != 14:
            stalled += 1
    ctx.note("rdac_closed_loop", {"behaviours": len(runs), "stalled": stalled, "budgets_lose_swap_dup": list(b)})
    if stalled:
        ctx.outside("RDAC identification has no timer and never repeats a request: with one lost, swapped or duplicated response the closed loop "
                    f"(handler + a repeater answering as expected) ends before step 14 with nothing in flight in {stalled} of {len(runs)} maximal "
                    "behaviours of the model, and the real handler, fed the same datagrams, is in the same step (it owns no timer); only the repeater's "
                    "one-octet reset restarts it")
    for part in core.chunks(traces, 300):
        judge(ctx, part, ctx.validate_traces("Trace_RDAC", "Trace_RDAC.cfg", part), "closed-loop behaviour", "rdac")
    # ---- the same clean run with the handler driven from inside a running event loop and the SNMP read NOT replaced
    # (only the network call below it, SNMP.walk_ip, is): the model says the run reaches step 14 and never reports it
    with open(os.path.join(ctx.rundir, "MC_RDACLoop_inloop.cfg"), "w") as f:
        f.write(LOOPCFG.format(lose=0, swap=0, dup=0, inloop="TRUE", prop=""))
    res = core.run_tlc(ctx, "MC_RDACLoop", "MC_RDACLoop_inloop.cfg", timeout=600, workers=1)
    with Pool(1) as pool:                      # a process of its own: the stub of this phase differs from the other phases'
        obs = pool.apply(rdac_inloop_run, (ctx.seed,))
    ctx.note("rdac_inside_running_loop", {"model_violates": res.violated, "observed": obs})
    model_silent = bool(res.violated) and "CompletionMeansIdentified" in str(res.violated)
    if model_silent != (obs["step"] == 14 and obs["done"] == 0):
        ctx.model_drift(f"RDAC inside a running loop: model says {'no ' if model_silent else ''}completion report, observed {obs}")
    if obs["step"] == 14 and obs["done"] == 0:
        ctx.outside("RDAC identification driven from inside a running asyncio event loop (how a DatagramProtocol is driven outside tests), with only "
                    f"the network call SNMP.walk_ip replaced: the completing datagram raises {obs['raised']} (Repeater.read_snmp_values calls "
                    "asyncio.run()), the step is 14 and the completion callback is never invoked - C18 prescribes a stub for read_snmp_values, "
                    "under which completion is reported exactly once")


def snmp_run(args):
    """worker: SNMP.walk_ip against a scripted repeater (puresnmp's client classes replaced, nothing else)"""
    seed, cases = args
    import asyncio
    import contextlib
    import io
    import logging
    import warnings
    warnings.simplefilter("ignore")
    logging.disable(logging.CRITICAL)
    core.setup_repo_path()
    import puresnmp
    from okdmr.dmrlib.hytera.snmp import SNMP
    state = {}

    class Client:
        def __init__(self, ip, credentials):
            self.community = credentials.community

    class Wrapper:
        def __init__(self, client):
            self.c = client.community

        async def get(self, oid):
            kind, k = state["env"][self.c]
            if not state["tried"] or state["tried"][-1] != self.c:
                state["tried"].append(self.c)
            state["n"][self.c] = state["n"].get(self.c, 0) + 1
            if kind != "success" and state["n"][self.c] == k:
                if kind == "refused":
                    raise ConnectionRefusedError()
                await asyncio.sleep(30)
            return b"\x00\x01" if oid in SNMP.ALL_FLOATS else (b"OK1DMR" if oid in SNMP.ALL_STRINGS else 5)
    puresnmp.Client, puresnmp.PyWrapper = Client, Wrapper
    out = []
    for c, pub, hyt in cases:
        state.update(env={"public": pub, "hytera": hyt}, tried=[], n={})
        rec = {"c": c, "pub": list(pub), "hyt": list(hyt), "ret": 0, "tried": [], "out": "ok", "exc": ""}
        try:
            with contextlib.redirect_stdout(io.StringIO()), contextlib.redirect_stderr(io.StringIO()):
                data = asyncio.run(SNMP().walk_ip("10.0.0.1", snmp_community=c, timeout_secs=0.02))
            rec["ret"] = len(data)
        except Exception as ex:  # noqa
            rec["out"], rec["exc"] = "raise", type(ex).__name__
        rec["tried"] = list(state["tried"])
        out.append(rec)
    return out


def snmp_phase(ctx):
    """growth beyond the statement (spec/SNMPWalk.tla): the SNMP read the RDAC handler triggers on completion"""
    res = core.run_tlc(ctx, "MC_SNMPWalk", "MC_SNMPWalk.cfg", timeout=600, workers=1)
    expect = {}
    for v in core.parse_printed_json(res, tag="EXPECT"):
        expect[v["why"]] = expect.get(v["why"], 0) + 1
    ctx.note("snmp_walk_design_expectations_failing", expect)
    r = ctx.rng
    n = 20
    scripts = [("success", 0)] + [(k, i) for k in ("timeout", "refused") for i in (1, 2, 7, n)]
    cases = [(c, p, h) for c in ("public", "hytera") for p in scripts for h in scripts]
    r.shuffle(cases)
    cases = cases[:60 if ctx.quick else len(cases)]
    with Pool(core.NCPU) as pool:
        parts = pool.map(snmp_run, [(ctx.seed + i, cases[i::8]) for i in range(8)])
    obs = sum(parts, [])
    for o in obs:
        ctx.count(core.digest(["snmp", o["c"], o["pub"], o["hyt"], o["ret"], o["out"]]))
    path = os.path.join(ctx.rundir, "c18_snmp.json")
    json.dump({"cases": obs}, open(path, "w"))
    res = core.run_tlc(ctx, "MC_SNMPWalk", "MC_SNMPWalk_judge.cfg", env={"DATA_FILE": path}, timeout=600)
    if not res.ok or res.distinct < len(obs):
        raise core.MachineryError(f"TLC did not judge all SNMP observations ({res.distinct} < {len(obs)})")
    drift = {}
    for v in core.parse_printed_json(res, tag="DRIFT"):
        drift.setdefault(v["why"], []).append(obs[v["idx"]])
    for why, items in sorted(drift.items()):
        ctx.model_drift(f"SNMP walk: {why} for {len(items)} scripts, first {json.dumps(items[0])}")
    raised = [o for o in obs if o["out"] == "raise"]
    partial = [o for o in obs if o["out"] == "ok" and 0 < o["ret"] < n]
    ctx.note("snmp_walk", {"scripts": len(obs), "raised": len(raised), "partial_reads_returned": len(partial)})
    if raised and "NeverRaises" in expect:
        ctx.outside(f"SNMP.walk_ip: a request that times out makes the call raise {raised[0]['exc']} ({len(raised)} of {len(obs)} scripts): the except "
                    "clause meant to fall back to the other community names a module (puresnmp.api) in its tuple, so matching any exception against it "
                    "fails - the fallback to the other community never runs")
    if partial and "AllOrNothing" in expect:
        ctx.outside(f"SNMP.walk_ip: a refused request after some answered ones returns the values read so far ({len(partial)} of {len(obs)} scripts); "
                    "Repeater.read_snmp_values patches the record with that partial read")


# ------------------------------------------------------------------------------ run

P2PCFG = """SPECIFICATION Spec
CONSTANTS
  P2PPort = 50000
  RdacPort = 50002
  MaxDepth = {depth}
INVARIANT PropertyHolds
INVARIANT MonMatchesStorage
CONSTRAINT Bound
VIEW View
ACTION_CONSTRAINT Edge
CHECK_DEADLOCK FALSE
"""
RDACCFG = """SPECIFICATION Spec
CONSTANTS
  MaxDepth = {depth}
INVARIANT PropertyHolds
INVARIANT StepsInRange
CONSTRAINT Bound
VIEW View
ACTION_CONSTRAINT Edge
CHECK_DEADLOCK FALSE
"""


def judge(ctx, traces, rejects, origin, what):
    for tid, l, why in rejects:
        t = traces[tid]
        e = t["ev"][l - 1]
        cls = e["d"]["cls"]
        ctx.violation(f"{what}/{why}/{cls}", f"{origin}: step {l} datagram {json.dumps(e['d'])} breaks {why}; "
                                            f"observed {json.dumps(e['out'])[:300]}",
                      {"handler": what, "seed": t["seed"], "steps": t["steps"][:l], "clause": why, "origin": origin})


def run(ctx):
    ctx.rule = ("TLC explores all interleavings of datagrams from 3 peers for the P2P and the RDAC handler models to a "
                "depth bound; dumped edges are replayed on the real handlers (transition tours / per-edge set-up paths) "
                "with a recording transport; random histories up to 150 datagrams are recorded; TLC judges every step.")
    ctx.assumptions += [
        "Repeater.read_snmp_values is stubbed (no network)",
        "peers are the code's keys: full address for P2P, IP for RDAC",
        "the first datagram of a peer starts the RDAC run (step 0 -> 1); after completion (step 14) a one-byte datagram is a keep-alive, not a restart",
        "served responses may go to the stored outbound address, the requester, or the requester's IP at the P2P port",
        "whether handling raises (octet 4 = 0xFF, short ping, short step-10 response) is outside the statement (drift only)",
    ]
    # ---- P2P
    with open(os.path.join(ctx.rundir, "MC_P2P_run.cfg"), "w") as f:
        f.write(P2PCFG.format(depth=4 if ctx.quick else 6))
    res = core.run_tlc(ctx, "MC_P2P", "MC_P2P_run.cfg", timeout=3000, workers=1)
    if res.violated:
        ctx.note("design_counterexample_p2p", res.violated)
    edges = core.parse_printed_json(res, tag="EDGE")
    ctx.note("p2p_edges", len(edges))
    if len(edges) < 100:
        raise core.MachineryError("P2P edge dump too small")
    core.edge_label_coverage(ctx, edges, lambda e: str(e["op"]) + ":" + str(e["d"].get("cls") if isinstance(e["d"], dict) else e["d"]), "p2p", 5)
    for e in edges:   # the tour builder expects ts/b style keys only for chaining; add what it needs
        e.setdefault("ts", 0)
    tours = tours_from_edges(edges, max_len=30)
    jobs = []
    for n, t in enumerate(tours):
        steps = [(e["op"] if e["op"] != "recv" else "recv", (e["src"]["ip"], e["src"]["port"]), e["d"],
                  (e["cfg"]["ip"], e["cfg"]["port"])) for e in t]
        jobs.append((ctx.seed * 3 + n, steps))
        for e in t:
            ctx.count(core.digest(["p2p", e["fv"], e["op"], e["src"], e["d"]]))
    with Pool(core.NCPU) as pool:
        traces = pool.map(p2p_run, jobs, chunksize=8)
    for t, j in zip(traces, jobs):
        t["seed"], t["steps"] = j
    ctx.sample({"p2p_tour_prefix": traces[len(traces) // 2]["ev"][:2]})
    for part in core.chunks(traces, 500):
        judge(ctx, part, ctx.validate_traces("Trace_P2P", "Trace_P2P.cfg", part), "transition tour", "p2p")
    # random P2P histories
    srcs = [("10.0.0.%d" % (i // 2 + 1), 50000 + i % 2) for i in range(6)]
    n, ln = (200, 60) if ctx.quick else (3000, 150)
    jobs = []
    for i in range(n):
        steps = []
        for _ in range(ctx.rng.randrange(5, ln)):
            src = ctx.rng.choice(srcs)
            if ctx.rng.random() < 0.08:
                steps.append(("configure", src, None, (src[0], 50010 + ctx.rng.randrange(3))))
            else:
                cls = ctx.rng.choices(["reg", "dmr", "rdac", "ping", "ack", "unk", "garbage"], weights=[4, 5, 5, 5, 2, 2, 2])[0]
                steps.append(("recv", src, {"cls": cls, "ovf": cls in ("reg", "dmr", "rdac", "ping") and ctx.rng.random() < 0.12}, None))
        jobs.append((ctx.seed * 5 + i, steps))
    with Pool(core.NCPU) as pool:
        hist = pool.map(p2p_run, jobs, chunksize=8)
    for t, j in zip(hist, jobs):
        t["seed"], t["steps"] = j
        for e in t["ev"]:
            ctx.count(core.digest(["p2p", e["d"], e["out"]["sent"], len(e["out"]["recs"])]))
    for part in core.chunks(hist, 300):
        judge(ctx, part, ctx.validate_traces("Trace_P2P", "Trace_P2P.cfg", part), "random history", "p2p")
    # ---- RDAC
    with open(os.path.join(ctx.rundir, "MC_RDAC_run.cfg"), "w") as f:
        f.write(RDACCFG.format(depth=3 if ctx.quick else 5))
    res = core.run_tlc(ctx, "MC_RDAC", "MC_RDAC_run.cfg", timeout=3000, workers=1)
    if res.violated:
        ctx.note("design_counterexample_rdac", res.violated)
    edges = core.parse_printed_json(res, tag="EDGE")
    ctx.note("rdac_edges", len(edges))
    if len(edges) < 100:
        raise core.MachineryError("RDAC edge dump too small")
    core.edge_label_coverage(ctx, edges, lambda e: str(e["d"].get("cls") if isinstance(e["d"], dict) else e["d"]) + ":" + str(e["d"].get("k") if isinstance(e["d"], dict) else ""), "rdac", 5)
    ctx.exhaustive = True
    seen, jobs = set(), []
    ipaddr = {"ip1": ("10.1.0.1", 50002), "ip2": ("10.1.0.2", 50002), "ip3": ("10.1.0.3", 50002)}
    for e in edges:
        k = core.digest([e["from"], e["ip"], e["d"]])
        if k in seen:
            continue
        seen.add(k)
        steps = []
        for ip, s in sorted(e["from"].items()):
            steps += [(ipaddr[ip], d) for d in path_to(s)]
        steps.append((ipaddr[e["ip"]], e["d"]))
        jobs.append((ctx.seed * 11 + len(jobs), steps))
        ctx.count("rdac" + k)
    if ctx.quick and len(jobs) > 2500:
        ctx.rng.shuffle(jobs)
        jobs = jobs[:2500]
    with Pool(core.NCPU) as pool:
        traces = pool.map(rdac_run, jobs, chunksize=16)
    for t, j in zip(traces, jobs):
        t["seed"], t["steps"] = j
    ctx.sample({"rdac_edge_replay_tail": traces[len(traces) // 2]["ev"][-2:]})
    for part in core.chunks(traces, 1000):
        judge(ctx, part, ctx.validate_traces("Trace_RDAC", "Trace_RDAC.cfg", part), "edge replay", "rdac")
    # random RDAC histories: several peers progressing, with resets, wrong responses; two peers behind each IP (different ports) are
    # two peers: each follows its own script, and a reset or response of one must not move the other
    peers = [("10.2.0.%d" % (i // 2 + 1), 50002 + i % 2) for i in range(6)]
    n, ln = (200, 80) if ctx.quick else (3000, 150)
    jobs = []
    for i in range(n):
        steps, prog = [], {}
        for _ in range(ctx.rng.randrange(5, ln)):
            a = ctx.rng.choice(peers)
            s = prog.get(a, 0)
            r = ctx.rng.random()
            if r < 0.08:
                d = {"cls": "reset", "k": "none", "long": False, "zero": ctx.rng.random() < 0.5}
                prog[a] = 1 if s != 14 else 14
            elif r < 0.75 and s in EXPECTED:
                d = {"cls": "resp", "k": EXPECTED[s], "long": ctx.rng.random() < 0.9, "zero": False}
                if d["long"] and ctx.rng.random() < 0.12:
                    d["badtext"] = True
                if not (s == 10 and not d["long"]) and not (s == 6 and d.get("badtext")):
                    prog[a] = 10 if s == 8 else s + 1
            elif r < 0.9:
                d = {"cls": "resp", "k": ctx.rng.choice(["FD", "10", "00", "FA"]), "long": ctx.rng.random() < 0.5, "zero": False}
                if s == 0:
                    prog[a] = 1
                elif s in EXPECTED and EXPECTED[s] == d["k"] and not (s == 10 and not d["long"]):
                    prog[a] = 10 if s == 8 else s + 1
            else:
                d = {"cls": "other", "k": "none", "long": False, "zero": False}
                if s == 0:
                    prog[a] = 1
            steps.append((a, d))
        jobs.append((ctx.seed * 23 + i, steps))
    with Pool(core.NCPU) as pool:
        hist = pool.map(rdac_run, jobs, chunksize=8)
    for t, j in zip(hist, jobs):
        t["seed"], t["steps"] = j
        for e in t["ev"]:
            ctx.count(core.digest(["rdac", e["d"], e["out"]["st"].get(e["ip"]), e["out"]["done"]]))
    for part in core.chunks(hist, 300):
        judge(ctx, part, ctx.validate_traces("Trace_RDAC", "Trace_RDAC.cfg", part), "random history", "rdac")
    # what a finished peer's "no data" octet (one-byte 0x00 at step 14) is answered with: the statement says nothing about it
    odd = [e["out"]["lens"] for t in hist for k, e in enumerate(t["ev"]) if e["d"]["cls"] == "reset" and e["d"]["zero"] and e["out"]["nsent"] == 1
           and k > 0 and e["out"]["st"].get(e["ip"]) == 14 and t["ev"][k - 1]["out"]["st"].get(e["ip"]) == 14 and e["out"]["lens"] != [1]]
    if odd:
        ctx.outside(f"RDAC: the 'no data available' octet of a peer whose identification is complete is answered with a datagram of {odd[0][0]} octets, "
                    f"not with one octet ({len(odd)} observations)")
    bad = sum(1 for t in hist for e in t["ev"] if e["d"].get("badtext") and e["out"]["out"] == "raise")
    if bad:
        ctx.outside("RDAC step 6 decodes four UTF-16 text fields of the repeater's response (firmware, call sign, hardware, serial number): a response "
                    f"whose text is not valid UTF-16 makes the handler raise UnicodeDecodeError and the step stays 6 ({bad} such responses in the random "
                    "histories; RDAC.tla TextRaises, no drift) - C18 does not promise that the handlers never raise")
    startup_phase(ctx)
    rdacloop_phase(ctx)
    snmp_phase(ctx)


def replay(ctx, rec):
    r = rec["record"]
    if r["handler"] == "startup":
        t = startup_run((r["seed"], [(s[0], tuple(s[1]), s[2]) for s in r["steps"]]))
        rej = ctx.validate_traces("Trace_Startup", "Trace_Startup.cfg", [t])
    elif r["handler"] == "p2p":
        t = p2p_run((r["seed"], [(s[0], tuple(s[1]), s[2], tuple(s[3]) if s[3] else None) for s in r["steps"]]))
        rej = ctx.validate_traces("Trace_P2P", "Trace_P2P.cfg", [t])
    else:
        t = rdac_run((r["seed"], [(tuple(s[0]), s[1]) for s in r["steps"]]))
        rej = ctx.validate_traces("Trace_RDAC", "Trace_RDAC.cfg", [t])
    if rej:
        print(f"VIOLATION property=C18 replay={rec.get('path', '(given)')} why={rej[0][2]} step={rej[0][1]}")
        return 1
    print("replay: property holds on this history")
    return 0
