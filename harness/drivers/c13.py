"""C13 — Hytera IPSC frames map to bursts identically by either decoder and re-encode.
spec/IPSC.tla (72-octet layout, well-formedness, ids / colour / timeslot / burst octets / burst class as the frame encodes
them) + MC_IPSC.tla: TLC decodes every frame itself and judges Burst.from_hytera_ipsc(bytes) against
Burst.from_hytera_ipsc(IpSiteConnectProtocol) and against the frame, and as_ipsc_bytes against the original 72 octets.
Frames: the repository's captured frames and generated frames over sequence x packet/slot/frame/call types x colour codes x
timeslots x ids x reserved bytes with payloads valid for the indicated kind."""
import json
import os
import warnings

from harness import core, gen

SLOT_FOR = {"VoiceLCHeader": 0x1111, "TerminatorWithLC": 0x2222, "CSBK": 0x3333, "DataHeader": 0x4444, "Rate12Data": 0x5555,
            "Rate34Data": 0x6666, "PIHeader": 0x0000}


def observe_path(frame, use_kaitai, scribble=False):
    from okdmr.dmrlib.etsi.layer2.burst import Burst
    from okdmr.kaitai.hytera.ip_site_connect_protocol import IpSiteConnectProtocol
    o = {"err": "", "cls": "", "bits": "", "timeslot": 0, "seq": -1, "cc": -1, "src": -1, "dst": -1, "fsrc": -1, "fdst": -1, "octets": [], "reser": [], "reser_err": ""}
    try:
        with warnings.catch_warnings():
            warnings.simplefilter("ignore")
            k = frame[4] + frame[40]
            if not use_kaitai and k % 7 == 5:
                # a receive buffer that is used again: the datagram is decoded from a memoryview of the buffer, then the next datagram
                # arrives in the same buffer - everything read from the burst afterwards (ids, octets, the re-serialised frame)
                # is about the frame that was decoded, not about what the buffer holds now
                rx = bytearray(b"\x00" + bytes(frame) + b"\x00")
                b = Burst.from_hytera_ipsc(memoryview(rx)[1:-1])
                rx[:] = bytes(x ^ 0xFF for x in rx)
            else:
                b = Burst.from_hytera_ipsc(IpSiteConnectProtocol.from_bytes(frame) if use_kaitai else gen.as_caller_buffer(frame, k))
        o["cls"] = type(b).__name__
        o["octets"] = list(b.full_bits.tobytes())
        o["bits"] = core.digest(o["octets"])
        o["timeslot"], o["seq"] = int(b.timeslot), int(b.sequence_no)
        o["cc"] = int(b.hytera_ipsc.color_code)
        o["src"], o["dst"] = int(b.source_radio_id), int(b.target_radio_id)
        # ids as decoded from the frame
        o["fsrc"], o["fdst"] = int(b.hytera_ipsc.source_radio_id), int(b.hytera_ipsc.destination_radio_id)
        try:
            o["reser"] = list(b.hytera_ipsc.as_ipsc_bytes())
        except Exception as ex:  # noqa
            o["reser_err"] = type(ex).__name__
        if scribble:
            gen.scribble(b)
    except Exception as ex:  # noqa
        o["err"] = type(ex).__name__
    return o


def run(ctx):
    ctx.rule = ("the repository's captured 72-octet frames and generated well-formed frames: sequence {0,1,255,random} x 4 packet types x slot "
                "types x frame types x call types x colour codes 0..15 x both timeslots x ids {0,1,2^24-1,random, zero / all-ones octets in each position} x random reserved bytes, "
                "payload = a burst valid for the indicated kind (data bursts by data type, voice bursts, sync / wake-up). distinct = frames.")
    ctx.assumptions += [
        "a wake-up call type (2, 12) indicates a wake-up burst in every slot but the sync slot; a sync / wake-up payload has no structure, so any 34 octets - the empty payload of the captured frames, random octets, a whole DMR data or voice burst - are 'a payload that parses as the indicated kind'",
        "well-formed frame: 0x5A5A, colour nibble repeated four times, low octet of both id fields zero, timeslot 0x1111/0x2222 (the 34th payload octet is arbitrary); frames with unknown packet / frame types are folded with a warning by design and are not generated",
        "colour code and ids 'as the frame encodes them' are compared on the decoded IPSC object (a burst only knows the colour code of its own slot type / EMB); the burst's own ids must equal the frame's too, id 0 included; the two decoders are also compared on the burst's own ids",
    ]
    core.setup_repo_path()
    import random
    from harness.catalogue import harvest
    from harness.drivers.c01 import make_pdu
    from okdmr.dmrlib.utils.bits_bytes import byteswap_bytes
    rng = random.Random(ctx.seed)
    frames = [s for s in harvest("hytera/test_hytera_ipsc.py") + harvest("etsi/layer2/test_burst.py") + harvest("tools/test_pcap_tool.py")
              if len(s) == 72 and s[2:4] == b"ZZ"]
    # ... and the example frames documented in the library's own sources (docstrings of the sync / wake-up classes)
    import glob
    import re
    for src in sorted(glob.glob(os.path.join(core.REPO, "okdmr", "dmrlib", "hytera", "*.py"))):
        for h in re.findall(r"\b([0-9a-fA-F]{144})\b", open(src).read()):
            f_ = bytes.fromhex(h)
            if f_[2:4] == b"ZZ" and f_ not in frames:
                frames.append(f_)
    ctx.note("repository_frames", len(frames))
    kinds = {"CSBK/pre": "CSBK", "CSBK/other": "CSBK", "DH/C": "DataHeader", "DH/U": "DataHeader", "VLC": "VoiceLCHeader", "TLC": "TerminatorWithLC",
             "PI": "PIHeader", "R12/u": "Rate12Data", "R12/c": "Rate12Data", "R34/u": "Rate34Data"}
    n = 500 if ctx.quick else 30000
    for k in range(n):
        cc = k % 16
        r = rng.random()
        if r < 0.6:
            kind = rng.choice(list(kinds))
            pdu, dt, _ = make_pdu(rng, kind)
            burst = gen.assemble_data_burst(pdu, dt, cc, rng.choice(gen.DATA_SYNCS))
            slot = SLOT_FOR[kinds[kind]]
            frame_type = rng.choice([0x0000, 0x3333, 0x6666])
        elif r < 0.9:
            burst = gen.voice_sync_burst(rng) if rng.random() < 0.3 else gen.voice_emb_burst(rng, colour_code=cc, lcss=rng.randrange(4))
            slot = rng.choice([0x7777, 0x8888, 0x9999, 0xAAAA, 0xBBBB, 0xCCCC])
            frame_type = rng.choice([0x1111, 0xBBBB])
        elif r < 0.95:
            burst = gen.rbytes(rng, 33)
            slot, frame_type = 0xEEEE, 0xEEEE
        else:
            burst = bytes(33)
            slot, frame_type = 0xDDDD, 0x0000
        if k % 23 == 7:
            # the slot type the library's enumeration defines as Undefined (0xFFFF) around a data burst
            pdu, dt, _ = make_pdu(rng, rng.choice(list(kinds)))
            burst = gen.assemble_data_burst(pdu, dt, cc, rng.choice(gen.DATA_SYNCS))
            if k % 46 == 7:
                # ... or around a data burst of a data type the library has no PDU class for (idle, MBC, unified single block)
                from okdmr.dmrlib.etsi.layer2.elements.data_types import DataTypes
                burst = gen.raw_data_burst(gen.rbits(rng, 96), rng.choice([DataTypes.Idle, DataTypes.MBCHeader, DataTypes.MBCContinuation,
                                                                             DataTypes.UnifiedSingleBlockData]), cc, rng.choice(gen.DATA_SYNCS))
            slot = 0xFFFF
        if k % 3 == 2:
            frame_type = rng.choice([0x0000, 0x1111, 0x3333, 0x6666, 0xBBBB, 0xEEEE])      # the types cross: any frame type with any slot type
        # 24-bit ids: extremes, random values and values with zero / all-ones octets in each position
        ident = lambda: rng.choice([0, 1, 2 ** 24 - 1, rng.randrange(1 << 24), rng.randrange(1 << 24),
                                    rng.choice([0x000100, 0x010000, 0x800000, 0x00FF00, 0xFF0000, 0x0000FF, 0x123400, 0x120034, 0x001234, 0xFFFF00]),
                                    rng.randrange(1 << 16) << 8, rng.randrange(1 << 8) << 16])
        # the call types cross every slot type: a wake-up call type (2, 12) also turns up in sync, data and voice slots
        call = rng.choice([0, 1, 0, 1, 2, 12]) if slot != 0xDDDD else rng.choice([0, 1, 2, 12])
        if call in (2, 12) and slot not in (0xDDDD, 0xEEEE) and rng.random() < 0.5:
            burst = bytes(33)            # the indicated kind is then a wake-up burst: half with the empty payload of the captured ones,
            #                              half with the payload the slot type names (a wake-up payload has no structure: any octets do)
        if slot in (0xDDDD, 0xEEEE) and k % 3 == 0:
            # sync / wake-up payloads have no structure either: among "arbitrary" octets are those of a DMR data or voice burst
            pdu, dt, _ = make_pdu(rng, rng.choice(list(kinds)))
            burst = rng.choice([gen.assemble_data_burst(pdu, dt, cc, rng.choice(gen.DATA_SYNCS)), gen.voice_sync_burst(rng), gen.rbytes(rng, 33)])
        # "arbitrary reserved bytes" include the segments a serialiser might take for absent: all zeros, all ones
        res = lambda n_: rng.choice([gen.rbytes(rng, n_), gen.rbytes(rng, n_), bytes(n_), b"\xff" * n_])
        f = (res(2) + b"ZZ" + bytes([rng.choice([0, 1, 255, rng.randrange(256)])]) + res(3)
             + bytes([rng.choice([65, 66, 67, 1])]) + res(7)
             + (b"\x11\x11" if rng.random() < 0.5 else b"\x22\x22") + slot.to_bytes(2, "little") + bytes([cc | cc << 4] * 2)
             + frame_type.to_bytes(2, "little") + res(2) + byteswap_bytes(burst + res(1)) + res(2) + bytes([call])
             + (ident() << 8).to_bytes(4, "little") + (ident() << 8).to_bytes(4, "little") + res(1))
        frames.append(f)
    # no vacuity: every member of the library's own slot / frame / packet / call type enumerations occurs in the generated frames
    from okdmr.dmrlib.hytera.ipsc_elements.call_type import CallType
    from okdmr.dmrlib.hytera.ipsc_elements.frame_type import FrameType
    from okdmr.dmrlib.hytera.ipsc_elements.packet_type import PacketType
    from okdmr.dmrlib.hytera.ipsc_elements.slot_type import SlotType
    for E, get in ((SlotType, lambda f_: int.from_bytes(f_[18:20], "little")), (FrameType, lambda f_: int.from_bytes(f_[22:24], "little")),
                   (PacketType, lambda f_: f_[8]), (CallType, lambda f_: f_[62])):
        missing = {m.value for m in E} - {get(f_) for f_ in frames}
        if missing:
            raise core.MachineryError(f"{E.__name__} members never generated: {sorted(missing)}")
    # some frames are received twice in a row (a repeater's retransmission); the caller edits the first decoding before the
    # second arrives, and both must still be judged as decodings of the frame
    again = []
    for k, f in enumerate(frames):
        again.append(f)
        if k % 4 == 1:
            again.append(f)
    frames = again
    samples = []
    for f in frames:
        # every other frame is decoded by a caller that edits the bursts it got back after use
        samples.append({"frame": list(f), "a": observe_path(f, False, len(samples) % 2 == 1), "b": observe_path(f, True, len(samples) % 2 == 1)})
        ctx.count(core.digest([len(samples), list(f)]))
    path = os.path.join(ctx.rundir, "c13_data.json")
    json.dump({"samples": samples}, open(path, "w"))
    ctx.sample({"frame_hex": bytes(samples[3]["frame"]).hex(), "bytes_path": {k: samples[3]["a"][k] for k in ("cls", "timeslot", "seq", "cc", "src", "dst", "err")}})
    res = core.run_tlc(ctx, "MC_IPSC", "MC_IPSC.cfg", env={"DATA_FILE": path}, timeout=1800, jvm=("-Xss256m",))
    if not res.ok or res.distinct < len(samples):
        raise core.MachineryError(f"TLC did not judge all samples ({res.distinct} < {len(samples)})")
    ctx.traces_validated = len(samples)
    groups = {}
    for v in core.parse_printed_json(res, tag="REJECT"):
        groups.setdefault(f"ipsc/{v['why']}", []).append(samples[v["idx"]])
    mmdvm_phase(ctx)
    # growth beyond the statement (spec/MMDVMClient.tla): the Homebrew repeater client, informational only - whatever happens
    # in it, the verdict on C13 stands
    try:
        from harness import growth_mmdvm_client
        growth_mmdvm_client.phase(ctx)
    except core.MachineryError:
        raise
    except Exception as ex:  # noqa
        ctx.model_drift(f"MMDVM client phase could not run: {type(ex).__name__}: {ex}")
    for key, items in sorted(groups.items()):
        ctx.violation(key, f"{key}: {len(items)} frames, first {bytes(items[0]['frame']).hex()}", {"count": len(items), "first_hex": [bytes(x["frame"]).hex() for x in items[:3]]})


def mmdvm_phase(ctx):
    """growth beyond the statement (spec/MMDVM.tla): Homebrew DMRD frames decoded by Burst.from_mmdvm"""
    core.setup_repo_path()
    import random
    from harness.drivers.c01 import make_pdu
    from okdmr.dmrlib.etsi.layer2.burst import Burst
    from okdmr.kaitai.homebrew.mmdvm2020 import Mmdvm2020
    rng = random.Random(ctx.seed + 9)
    samples = []
    kinds = ["CSBK/other", "DH/U", "VLC", "TLC", "R12/u", "R34/u", "R1/u"]
    for k in range(300 if ctx.quick else 5000):
        r = rng.random()
        cc = rng.randrange(16)
        if r < 0.5:
            pdu, dt, _ = make_pdu(rng, rng.choice(kinds))
            burst = gen.assemble_data_burst(pdu, dt, cc, rng.choice(gen.DATA_SYNCS))
            ft = rng.choice([2, 2, 2, 0, 1, 3])
        elif r < 0.8:
            burst = gen.voice_sync_burst(rng) if rng.random() < 0.4 else gen.voice_emb_burst(rng, colour_code=cc, lcss=rng.randrange(4))
            ft = rng.choice([0, 1, 0, 1, 2])
        else:
            # a data / control burst that carries embedded signalling instead of a SYNC pattern (reverse channel): only the frame type says so
            pdu, dt, _ = make_pdu(rng, "CSBK/other")
            b = bytearray(gen.assemble_data_burst(pdu, dt, cc, gen.DATA_SYNCS[0]))
            v = gen.voice_emb_burst(rng, colour_code=cc, lcss=0)
            full = int.from_bytes(bytes(b), "big")
            centre = (int.from_bytes(v, "big") >> 108) & ((1 << 48) - 1)
            full = (full & ~(((1 << 48) - 1) << 108)) | (centre << 108)
            burst = full.to_bytes(33, "big")
            ft = 2
        ident = lambda: rng.choice([0, 1, 2 ** 24 - 1, rng.randrange(1 << 24), rng.randrange(1 << 16) << 8])
        bits = (rng.getrandbits(1) << 7) | (rng.getrandbits(1) << 6) | (ft << 4) | rng.randrange(16)
        f = (b"DMRD" + bytes([rng.choice([0, 1, 255, rng.randrange(256)])]) + ident().to_bytes(3, "big") + ident().to_bytes(3, "big")
             + rng.getrandbits(32).to_bytes(4, "big") + bytes([bits]) + rng.choice([0, 1, 2 ** 32 - 1, rng.getrandbits(32)]).to_bytes(4, "big")
             + bytes(burst) + gen.rbytes(rng, rng.choice([0, 1, 2])))
        o = {"frame": list(f), "err": "", "src": -1, "dst": -1, "timeslot": 0, "seq": -1, "stream": [0, 0], "octets": [], "centre": "",
             "is_vocoder": False, "has_emb": False, "has_slot_type": False, "is_start": False}
        try:
            with warnings.catch_warnings():
                warnings.simplefilter("ignore")
                b = Burst.from_mmdvm(Mmdvm2020.from_bytes(f).command_data)
            sn = int.from_bytes(b.stream_no, "big") if isinstance(b.stream_no, (bytes, bytearray)) else int(b.stream_no)
            o.update(src=int(b.source_radio_id), dst=int(b._target_radio_id), timeslot=int(b.timeslot), seq=int(b.sequence_no),
                     stream=[sn >> 16, sn & 0xFFFF], octets=list(b.full_bits.tobytes()), centre=b.sync_or_embedded_signalling.name,
                     is_vocoder=bool(b.is_vocoder), has_emb=bool(b.has_emb), has_slot_type=bool(b.has_slot_type), is_start=bool(b.is_voice_superframe_start))
        except Exception as ex:  # noqa
            o["err"] = type(ex).__name__
        samples.append(o)
        ctx.count(core.digest(["mmdvm", list(f)]))
    path = os.path.join(ctx.rundir, "c13_mmdvm.json")
    json.dump({"samples": samples}, open(path, "w"))
    res = core.run_tlc(ctx, "MC_MMDVM", "MC_MMDVM.cfg", env={"DATA_FILE": path}, timeout=900, jvm=("-Xss64m",))
    if not res.ok or res.distinct < len(samples):
        raise core.MachineryError(f"TLC did not decode all DMRD frames ({res.distinct} < {len(samples)})")
    ctx.note("mmdvm_frames", len(samples))
    seen = {}
    for v in core.parse_printed_json(res, tag="DRIFT"):
        seen[v["why"]] = seen.get(v["why"], 0) + 1
    for why, n_ in sorted(seen.items()):
        if why.startswith("classification-ignores"):
            ctx.outside(f"Burst.from_mmdvm: {why.split(' (')[0]}: the comparison mmdvm.frame_type == 2 is between an enumeration member and an integer and never true, "
                        f"so every burst is announced as a vocoder burst; only a SYNC pattern makes it a data burst ({why.split(' (')[1]}")
        else:
            ctx.model_drift(f"MMDVM: {why} ({n_} frames)")


def replay(ctx, rec):
    core.setup_repo_path()
    bad = 0
    for h in rec["record"].get("first_hex", []):
        f = bytes.fromhex(h)
        a, b = observe_path(f, False), observe_path(f, True)
        same = (a["src"], a["dst"], a["cc"]) == (b["src"], b["dst"], b["cc"]) and a["reser"] == list(f) and b["reser"] == list(f)
        print(h[:24], "...", "ok" if same else f"differs: bytes path {a['src']},{a['dst']},{a['cc']},{a['reser_err']} parser path {b['src']},{b['dst']},{b['cc']},{b['reser_err']}")
        bad += 0 if same else 1
    if bad:
        print(f"VIOLATION property=C13 replay={rec.get('path', '(given)')} {bad} frames still fail")
        return 1
    return 0
