"""C03 — layer-2/3 PDUs and information elements survive encode-decode with every field.
spec/Layout.tla (generic field-layout codec), spec/PDULayouts.tla (46 layouts: CSBK opcodes, data header formats, full LC
opcodes 96/77 bit, short LC, PI header, 12 rate-block variants, UDP/IPv4 header with 0/1/2 extension words).
TLC (MC_PDUCases) checks the layouts and Dec(Enc(v)) = v at design level and enumerates the case analysis
(layout x field x boundary value); the harness builds every case with the real classes; TLC (MC_PDUJudge) judges the
round trips, arbitrary bit strings (documented error or fixed point) and all 2^w values of every element."""
import enum
import importlib
import json
import os
import pkgutil

from harness import core, gen
from harness.catalogue import canon
from harness.drivers.c09 import pack

ELEMENT_WIDTHS = {"AccessTypes": 1, "CsbkOpcodes": 6, "DataPacketFormats": 4, "DataTypes": 4, "DefinedDataFormats": 6, "FeatureSetIDs": 8,
                  "FLCOs": 6, "FullMessageFlag": 1, "LCSS": 2, "PreemptionPowerIndicator": 1, "ResynchronizeFlag": 1, "SAPIdentifier": 4,
                  "SARQ": 1, "SLCOs": 4, "SupplementaryFlag": 1, "UDTFormat": 4, "ActivityID": 4, "AdditionalInformationField": 1,
                  "AnnouncementType": 5, "AnswerResponse": 8, "ChannelTimingOpcode": 2, "DynamicIdentifier": 2, "IPAddressIdentifier": 4,
                  "PositionError": 3, "RandomAccessServiceFunction": 2, "ReasonCode": 8, "SourceType": 1, "TalkerAliasDataFormat": 2,
                  "UDPPortIdentifier": 7, "UDTOptionFlag": 1}
DOCUMENTED = ("ValueError", "KeyError", "NotImplementedError", "AssertionError")


def element_classes():
    out = []
    for pkg in ("okdmr.dmrlib.etsi.layer2.elements", "okdmr.dmrlib.etsi.layer3.elements"):
        p = importlib.import_module(pkg)
        for m in pkgutil.iter_modules(p.__path__):
            mod = importlib.import_module(pkg + "." + m.name)
            for n, c in vars(mod).items():
                if isinstance(c, type) and issubclass(c, enum.Enum) and c.__module__ == mod.__name__ and n in ELEMENT_WIDTHS:
                    out.append(c)
    return out


def elements():
    from bitarray.util import ba2int, int2ba
    recs = []
    for E in element_classes():
        w = ELEMENT_WIDTHS[E.__name__]
        defined = {m.value for m in E}
        # every value twice: ascending, then descending - the second time each value comes after all the others (what an
        # enumeration member remembers of an earlier, undefined value shows when a defined one is serialised afterwards)
        for v in list(range(1 << w)) + list(range((1 << w) - 1, -1, -1)):
            r = {"enum": E.__name__, "w": w, "v": v, "defined": v in defined, "result": -1, "rname": "", "wbits": w, "back": -1, "bits": -1}
            try:
                m = E.from_bits(int2ba(v, length=w)) if hasattr(E, "from_bits") else E(v)
                if m is None:
                    r["result"] = -2
                else:
                    r["result"] = int(m.value)
                    r["rname"] = m.name
                    if hasattr(m, "as_bits"):
                        b = m.as_bits()
                        r["wbits"] = len(b)
                        r["bits"] = ba2int(b) if len(b) else -1
                        m2 = E.from_bits(b) if hasattr(E, "from_bits") else E(ba2int(b))
                        r["back"] = int(m2.value) if m2 is not None else -2
                    else:
                        r["back"] = r["result"]
            except (ValueError, KeyError, NotImplementedError, AssertionError):
                r["result"] = -1
            recs.append(r)
    return recs


RAW_FAMILIES = [("CSBK/PreambleCSBK", 96), ("DataHeader/DataPacketConfirmed", 96), ("FullLC96/GroupVoiceChannelUser", 96),
                ("FullLC77/GroupVoiceChannelUser", 77), ("ShortLC/NullMessage", 36), ("PI/PIHeader", 96),
                ("Rate12Data/Unconfirmed", 96), ("Rate12Data/Confirmed", 96), ("Rate12Data/UnconfirmedLastBlock", 96), ("Rate12Data/ConfirmedLastBlock", 96),
                ("Rate34Data/Unconfirmed", 144), ("Rate34Data/Confirmed", 144), ("Rate34Data/UnconfirmedLastBlock", 144), ("Rate34Data/ConfirmedLastBlock", 144),
                ("Rate1Data/Unconfirmed", 192), ("Rate1Data/Confirmed", 192), ("Rate1Data/UnconfirmedLastBlock", 192), ("Rate1Data/ConfirmedLastBlock", 192),
                ("UDP/UdpNoExt", 72), ("UDP/UdpTwoExt", 104)]


def run(ctx):
    ctx.rule = ("TLC enumerates layout x carried field x boundary value (or enumeration member) for 46 layouts; every case is built with "
                "the real PDU classes, serialised, parsed and re-serialised; arbitrary right-length bit strings (half of them steered to "
                "implemented opcodes) are decoded; all 2^w values of 30 element enumerations are mapped; TLC judges all of it. "
                "distinct = cases + bit strings + element values.")
    ctx.assumptions += [
        "only fields the opcode's layout carries are compared; enumeration-typed fields take defined members; GPS coordinates are drawn from the decoder's grid (raw two's complement value x step) where equality is asked; in-range coordinates between two grid points must serialise and come back as a neighbouring grid point",
        "for arbitrary bits the obligation is a documented 'undefined / not implemented' error (ValueError, KeyError, NotImplementedError) or a fixed point of decode-then-encode",
        "an undefined element value may raise or map to a member, never to nothing; where the standard assigns undefined values to reserved / manufacturer-specific ranges (spec/Elements.tla, eleven elements) the member must be the one of that range; an unlisted manufacturer feature set id (0x04..0x7F) has no reserved member, so only an error satisfies the rule there",
        "absolute bit offsets against the spec layouts are reported as model drift, the statement promises a round trip",
    ]
    core.setup_repo_path()
    import random
    from bitarray import bitarray
    from bitarray.util import int2ba
    from harness.pdu_adapters import Adapter
    rng = random.Random(ctx.seed)
    res0 = core.run_tlc(ctx, "MC_PDUExport", "MC_PDUExport.cfg", workers=1, timeout=300)
    lay = core.parse_printed_json(res0, tag="LAYOUTS")
    if not lay:
        raise core.MachineryError("layout export failed")
    layouts, totals = lay[0]["all"], lay[0]["total"]
    ad = Adapter()
    domains = ad.domains(layouts)
    path = os.path.join(ctx.rundir, "c03_domains.json")
    json.dump({"domains": domains}, open(path, "w"))
    res1 = core.run_tlc(ctx, "MC_PDUCases", "MC_PDUCases.cfg", env={"DATA_FILE": path}, timeout=900)
    if res1.violated:
        ctx.note("design_counterexample", res1.violated)
        raise core.MachineryError(f"the layout specification itself is inconsistent: {res1.violated}")
    cases_in = core.parse_printed_json(res1, tag="CASE")
    if len(cases_in) < 500:
        raise core.MachineryError(f"too few cases enumerated ({len(cases_in)})")
    ctx.note("layouts", len(layouts))
    ctx.note("cases_enumerated_by_tlc", len(cases_in))
    # random in-range values on top of the enumerated boundary cases; GPS coordinates get a dense sample (float scaling)
    def rand_vals(name):
        vals = {}
        for d in layouts[name]:
            if d["k"] != "u":
                continue
            dom = domains.get(f"{name}/{d['f']}")
            vals[d["f"]] = rng.choice(dom) if dom else rng.getrandbits(d["w"])
        return vals

    extra = []
    for name in sorted(layouts):
        for _ in range(30 if ctx.quick else 400):
            extra.append({"name": name, "vals": rand_vals(name)})
    for name in ("FullLC96/GPSInfo", "FullLC77/GPSInfo"):
        special = [0, 1, 2, 3, (1 << 24) - 1, 1 << 24, (1 << 24) + 1, (1 << 25) - 1, (1 << 23) - 1, 1 << 23, (1 << 23) + 1]
        for k in range(15000 if ctx.quick else 400000):
            v = rand_vals(name)
            if k < len(special) ** 2:
                v["longitude_raw"] = special[k % len(special)] & ((1 << 25) - 1)
                v["latitude_raw"] = special[k // len(special)] & ((1 << 24) - 1)
            extra.append({"name": name, "vals": v})
    ctx.note("random_cases", len(extra))
    cases = []
    for c in cases_in + extra:
        name, vals = c["name"], c["vals"]
        rec = {"name": name, "vals": vals, "err": "", "n": 0, "bits": [0], "dec": {k: -1 for k in vals}, "bits2": [0], "objneq": ""}
        try:
            # one case in seven leaves out some of the arguments the constructor declares optional: whatever the defaults mean,
            # the PDU has its fixed length and survives (the omitted fields are judged on that, not on a value)
            omit = ()
            if len(cases) % 7 == 6:
                opt = ad.optional_fields(name, vals)
                omit = tuple(f for f in opt if rng.random() < 0.5) or tuple(opt[:1])
                if "raw_data_1" in omit:
                    omit += tuple(f for f in vals if f.startswith("raw_data_") and f not in omit)
                if "params1" in omit and "params2" not in omit:
                    omit += ("params2",)
                if "talker_alias_data_1" in omit:       # one argument carried in several limbs: all or none
                    omit += tuple(f for f in vals if f.startswith("talker_alias_data_") and (f[18:].isdigit() or f[18:] == "t") and f not in omit)
            o = ad.build(name, vals, plain=len(cases) % 3 == 2, omit=omit)      # one case in three gives enumerations as plain integers
            b = o.as_bits()
            rec["n"], rec["bits"] = len(b), pack(b)
            p = ad.parse(name, b.copy())
            rec["dec"] = ad.extract(name, p, list(vals))
            if omit and len(b) == sum(d["w"] for d in layouts[name]):
                rec["vals"] = dict(vals, **{f: rec["dec"][f] for f in omit})
            rec["bits2"] = pack(p.as_bits())
            if not omit:
                # fields that are objects of the library: same value (same canonical rendering) => equal under ==
                for k_, v_ in vars(o).items():
                    if type(v_).__module__.startswith("okdmr.dmrlib") and not isinstance(v_, enum.Enum) and hasattr(p, k_):
                        w_ = getattr(p, k_)
                        if type(w_) is type(v_) and canon(v_) == canon(w_) and not (v_ == w_):
                            rec["objneq"] = k_
                            break
            if len(cases) % 2:
                # every other case is handled by a caller that edits what it built and what it got back afterwards
                seen = set()          # an object reachable from both is edited once
                gen.scribble(p, seen=seen)
                gen.scribble(o, seen=seen)
        except Exception as ex:  # noqa: failing on in-range values is an observation
            rec["err"] = type(ex).__name__
        cases.append(rec)
        ctx.count(core.digest([name, vals]))
    # ---- arbitrary bit strings
    raws = []
    nraw = 150 if ctx.quick else 3000
    steer = {"CSBK": (2, 8, [0b111000, 0b000100, 0b000101, 0b100110, 0b111101, 0b000111, 0b011001, 0b101000, 0b001000]),
             "FullLC96": (2, 8, [0, 3, 4, 5, 6, 7, 8]), "FullLC77": (2, 8, [0, 3, 4, 5, 6, 7, 8]),
             "DataHeader": (4, 8, [0, 1, 2, 3, 13]), "ShortLC": (0, 4, [0, 1])}
    for name, n in RAW_FAMILIES:
        fam = name.split("/")[0]
        for k in range(nraw):
            b = bitarray([rng.getrandbits(1) for _ in range(n)])
            if fam in steer and k % 4 != 0:
                lo, hi, ops = steer[fam]
                b[lo:hi] = int2ba(rng.choice(ops), length=hi - lo)
                if fam in ("CSBK", "FullLC96", "FullLC77") and k % 2:
                    b[8:16] = int2ba(rng.choice([0, 0x10, 0x68, 0x08]), length=8)
            r = {"family": name, "n": n, "outcome": "ok", "n1": 0, "bits1": [0], "bits2": [0], "bits": pack(b)}
            try:
                o = ad.parse(name, b.copy())
                b1 = o.as_bits()
                r["n1"], r["bits1"] = len(b1), pack(b1)
                o2 = ad.parse(name, b1.copy())
                r["bits2"] = pack(o2.as_bits())
                if k % 2:
                    seen = set()
                    gen.scribble(o, seen=seen)
                    gen.scribble(o2, seen=seen)
            except Exception as ex:  # noqa
                r["outcome"] = type(ex).__name__
            raws.append(r)
            ctx.count(core.digest([name, r["bits"]]))
    # ---- in-range GPS coordinates between two grid points (the built value cannot survive exactly; it must serialise and come
    # back as a neighbouring grid point), with the extremes of both fields
    from okdmr.dmrlib.etsi.layer2.elements.feature_set_ids import FeatureSetIDs
    from okdmr.dmrlib.etsi.layer2.elements.flcos import FLCOs
    from okdmr.dmrlib.etsi.layer2.pdu.full_link_control import FullLinkControl
    from okdmr.dmrlib.etsi.layer3.elements.position_error import PositionError
    gps = []
    for k in range(400 if ctx.quick else 20000):
        which = k % 2                                  # 0 longitude (25 bit, 360 degrees), 1 latitude (24 bit, 180 degrees)
        w, span = (25, 360.0) if which == 0 else (24, 180.0)
        top = (1 << (w - 1)) - 1
        raw = rng.choice([top, top - 1, -(1 << (w - 1)), -1, 0, rng.randrange(-(1 << (w - 1)), top + 1), rng.randrange(-(1 << (w - 1)), top + 1)])
        quarter = rng.choice([1, 2, 3])
        value = (raw + quarter / 4) * (span / 2 ** w)
        if not -span / 2 <= value < span / 2:
            continue
        rec = {"w": w, "raw": raw, "quarter": quarter, "err": "", "n": 0, "total": 96, "dec": -(1 << 30)}
        try:
            o = FullLinkControl(protect_flag=0, flco=FLCOs.GPSInfo, fid=FeatureSetIDs.StandardizedFID, crc=bitarray([0] * 24),
                                position_error=PositionError(0), longitude=value if which == 0 else 0.0, latitude=value if which == 1 else 0.0)
            b = o.as_bits()
            rec["n"] = len(b)
            p_ = FullLinkControl.from_bits(b)
            got = p_.longitude if which == 0 else p_.latitude
            rec["dec"] = int(round(got / (span / 2 ** w)))
        except Exception as ex:  # noqa
            rec["err"] = type(ex).__name__
        gps.append(rec)
        ctx.count(core.digest(["gps", w, raw, quarter]))
    elems = elements()
    for e in elems:
        ctx.count(f"{e['enum']}:{e['v']}")
    data = {"cases": cases, "raws": raws, "elems": elems, "gps": gps}
    path2 = os.path.join(ctx.rundir, "c03_data.json")
    json.dump(data, open(path2, "w"))
    ctx.sample({"case": cases[len(cases) // 3], "element": elems[40]})
    res = core.run_tlc(ctx, "MC_PDUJudge", "MC_PDUJudge.cfg", env={"DATA_FILE": path2}, timeout=2400, jvm=("-Xss256m",))
    want = len(cases) + len(raws) + len(elems) + len(gps)
    if not res.ok or res.distinct < want:
        raise core.MachineryError(f"TLC did not judge all items ({res.distinct} < {want})")
    ctx.traces_validated = want
    ctx.note("element_values_exhaustive", len(elems))
    groups = {}
    for v in core.parse_printed_json(res, tag="REJECT"):
        ph, i, why = v["phase"], v["idx"], v["why"]
        if ph == "case":
            key = f"pdu/{cases[i]['name']}/{why}"
            item = cases[i]
        elif ph == "raw":
            key = f"pdu-raw/{raws[i]['family'].split('/')[0]}/{why}"
            item = raws[i]
        elif ph == "gps":
            key = f"pdu/FullLC96/GPSInfo/{why}"
            item = gps[i]
        else:
            key = f"element/{elems[i]['enum']}/{why}"
            item = elems[i]
            if why == "UndefinedValueMapsToStandardsReservedMember":
                # which member the value went to is part of the identification: another wrong member is another violation
                key += f"/{item['rname']}"
        groups.setdefault(key, []).append(item)
    for key, items in sorted(groups.items()):
        ctx.violation(key, f"{key}: {len(items)} cases, first {json.dumps(items[0])[:350]}", {"count": len(items), "first": items[:2]})
    drift = {}
    for v in core.parse_printed_json(res, tag="DRIFT"):
        drift.setdefault((cases[v["idx"]]["name"], v["why"]), []).append(v["idx"])
    for (name, why), idxs in sorted(drift.items()):
        ctx.model_drift(f"{name}: {why} ({len(idxs)} cases)")


def replay(ctx, rec):
    print("replay: re-running the check (cases are enumerated by TLC, bit strings regenerated from the seed)")
    run(ctx)
    return ctx.finish()
