"""C09 — variable-length BPTCs (embedded LC, CACH short LC, single burst) are consistent.
spec/VBPTC.tla + MC_VBPTC.tla: TLC judges observations of encode / extractors: all 2^11 single-burst messages with both
parities, the 72 / 28 unit messages, all 31 five-bit checksum values, random messages."""
import json
import os

from harness import core
from harness.drivers.c02 import learn_hcols


def pack(bits):
    """bit string -> list of 16-bit integers (MSB first, last one zero padded)"""
    out = []
    b = list(bits)
    for i in range(0, len(b), 16):
        chunk = b[i:i + 16] + [0] * (16 - len(b[i:i + 16]))
        v = 0
        for x in chunk:
            v = (v << 1) | int(x)
        out.append(v)
    return out or [0]


def sample(kind, msg, odd=False, impolite=False, little=False):
    """impolite: the caller first encodes the message once, damages the returned word in place (channel simulation),
    extracts from the damaged word, damages what it extracted - and only then makes the calls that are recorded"""
    from bitarray import bitarray
    from okdmr.dmrlib.etsi.crc.crc8 import CRC8
    from okdmr.dmrlib.etsi.fec.five_bit_checksum import FiveBitChecksum
    from okdmr.dmrlib.etsi.fec.vbptc_128_72 import VBPTC12873
    from okdmr.dmrlib.etsi.fec.vbptc_32_11 import VBPTC3211
    from okdmr.dmrlib.etsi.fec.vbptc_68_28 import VBPTC6828
    if little:
        msg = bitarray(msg.tolist(), endian="little")       # the same bits kept in a little-endian bitarray
    if impolite:
        if kind == "128_72":
            w0 = VBPTC12873.encode(msg.copy())
            VBPTC12873.deinterleave_data_bits(w0, include_cs5=True).invert()
        elif kind == "68_28":
            w0 = VBPTC6828.encode(msg.copy())
            VBPTC6828.deinterleave_data_bits(w0, include_crc8=True).invert()
        else:
            w0 = VBPTC3211.encode(msg.copy(), even_parity=not odd)
            VBPTC3211.deinterleave_data_bits(w0).invert()
        w0.invert()
    if kind == "128_72":
        cw = VBPTC12873.encode(msg.copy())
        dec = VBPTC12873.deinterleave_data_bits(cw, include_cs5=False)
        csx = VBPTC12873.deinterleave_cs5_bits(cw)
        cscalc = FiveBitChecksum.calculate(bitarray(msg.tolist(), endian="big").tobytes())
        cw2 = VBPTC12873.encode(VBPTC12873.deinterleave_data_bits(cw, include_cs5=True))
        cw3 = VBPTC12873.encode(VBPTC12873.deinterleave_all_bits(cw))
    elif kind == "68_28":
        cw = VBPTC6828.encode(msg.copy())
        dec = VBPTC6828.deinterleave_data_bits(cw, include_crc8=False)
        csx = VBPTC6828.deinterleave_crc8_bits(cw)
        cscalc = CRC8.calculate(bitarray(msg.tolist(), endian="big"))
        cw2 = VBPTC6828.encode(VBPTC6828.deinterleave_data_bits(cw, include_crc8=True))
        cw3 = VBPTC6828.encode(VBPTC6828.deinterleave_all_bits(cw))
    else:
        cw = VBPTC3211.encode(msg.copy(), even_parity=not odd)
        dec = VBPTC3211.deinterleave_data_bits(cw)
        csx, cscalc = bitarray(), 0
        cw2 = VBPTC3211.encode(VBPTC3211.deinterleave_data_bits(cw), even_parity=not odd)
        cw3 = VBPTC3211.encode(VBPTC3211.deinterleave_all_bits(cw), even_parity=not odd)
    return {"kind": kind, "odd": bool(odd), "msg": pack(msg), "cw": pack(cw), "cwlen": len(cw), "dec": pack(dec),
            "csx": [int(b) for b in csx], "cscalc": int(cscalc), "cw2": pack(cw2), "cw3": pack(cw3)}


def run(ctx):
    ctx.rule = ("observations of encode/extractors judged by TLC: (32,11) all 2^11 messages x even/odd parity (exhaustive); "
                "(128,72): 72 unit messages, messages hitting each of the 31 checksum values, random; (68,28): 28 unit messages, "
                "random. distinct = distinct (code, message, parity) samples.")
    ctx.assumptions += [
        "checksum equality in the bit order the repository's own tests assert on on-air words: CS5 most significant bit first, CRC-8 least significant bit first",
        "rows are judged with the parity-check columns learned from Hamming(16,11,4)/(17,12,3).generate (C06 verifies those codes)",
        "2^72 / 2^28 messages via unit messages, every checksum value and random samples (the checksum is not linear)",
    ]
    core.setup_repo_path()
    import random
    from bitarray import bitarray
    from bitarray.util import int2ba
    from okdmr.dmrlib.etsi.fec.five_bit_checksum import FiveBitChecksum
    from okdmr.dmrlib.etsi.fec.hamming_16_11_4 import Hamming16114
    from okdmr.dmrlib.etsi.fec.hamming_17_12_3 import Hamming17123
    rng = random.Random(ctx.seed)
    samples = []
    for m in range(1 << 11):
        for odd in (False, True):
            samples.append(sample("32_11", int2ba(m, length=11), odd, impolite=m % 3 == 0))
    for i in range(72):
        u = bitarray([0] * 72)
        u[i] = 1
        samples.append(sample("128_72", u, impolite=i % 2 == 0))
    seen = set()
    tries = 0
    while len(seen) < 31 and tries < 20000:
        tries += 1
        m = bitarray([rng.getrandbits(1) for _ in range(72)])
        cs = FiveBitChecksum.calculate(m.tobytes())
        if cs not in seen:
            seen.add(cs)
            samples.append(sample("128_72", m, impolite=len(seen) % 2 == 0))
    ctx.note("cs5_values_covered", len(seen))
    for i in range(28):
        u = bitarray([0] * 28)
        u[i] = 1
        samples.append(sample("68_28", u, impolite=i % 2 == 0))
    n = 400 if ctx.quick else 6000
    for _ in range(n):
        samples.append(sample("128_72", bitarray([rng.getrandbits(1) for _ in range(72)]), impolite=bool(rng.getrandbits(1)), little=len(samples) % 4 == 1))
        samples.append(sample("68_28", bitarray([rng.getrandbits(1) for _ in range(28)]), impolite=bool(rng.getrandbits(1)), little=len(samples) % 3 == 0))
        if len(samples) % 7 == 0:
            samples.append(sample("32_11", bitarray([rng.getrandbits(1) for _ in range(11)]), odd=bool(rng.getrandbits(1)), little=True))
    for s in samples:
        ctx.count(core.digest([s["kind"], s["odd"], s["msg"]]))
    data = {"h16": learn_hcols(Hamming16114, 16, 11), "h17": learn_hcols(Hamming17123, 17, 12), "samples": samples}
    path = os.path.join(ctx.rundir, "c09_data.json")
    json.dump(data, open(path, "w"))
    ctx.sample(samples[4096 + 3])
    res = core.run_tlc(ctx, "MC_VBPTC", "MC_VBPTC.cfg", env={"DATA_FILE": path}, timeout=2400, jvm=("-Xss256m",))
    if not res.ok or res.distinct < len(samples):
        raise core.MachineryError(f"TLC did not judge all samples ({res.distinct} < {len(samples)})")
    ctx.exhaustive = False
    ctx.note("single_burst_exhaustive", True)
    ctx.traces_validated = len(samples)
    groups = {}
    for v in core.parse_printed_json(res, tag="REJECT"):
        groups.setdefault((samples[v["idx"]]["kind"], v["why"]), []).append(v["idx"])
    for (kind, why), idxs in sorted(groups.items()):
        s = samples[idxs[0]]
        ctx.violation(f"vbptc/{kind}/{why}", f"VBPTC {kind}: {why} fails for {len(idxs)} of the samples, first message (packed) {s['msg']}",
                      {"kind": kind, "clause": why, "count": len(idxs), "msg": s["msg"], "odd": s["odd"]})
    drift = {}
    for v in core.parse_printed_json(res, tag="DRIFT"):
        drift.setdefault((samples[v["idx"]]["kind"], v["why"]), []).append(v["idx"])
    for (kind, why), idxs in sorted(drift.items()):
        ctx.model_drift(f"VBPTC {kind}: {why} for {len(idxs)} samples")


def replay(ctx, rec):
    print("replay: re-running the check (all samples are regenerated from the seed)")
    run(ctx)
    return ctx.finish()
