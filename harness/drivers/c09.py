"""C09 — variable-length BPTCs (embedded LC, CACH short LC, single burst) are consistent.
spec/VBPTC.tla + MC_VBPTC.tla: TLC judges observations of encode / extractors: all 2^11 single-burst messages with both
parities, the 72 / 28 unit messages, all 31 five-bit checksum values, random messages."""
import json
from multiprocessing import Pool
import os

from harness import core
from harness.drivers.c02 import learn_hcols


def pack(bits):
    """bit string -> list of 16-bit integers (MSB first, last one zero padded)"""
    out = []
    b = list(bits)
    for i in range(0, len(b), 16):
        chunk = b[i:i + 16] + [0] * (16 - len(b[i:i + 16]))
        v = 0
        for x in chunk:
            v = (v << 1) | int(x)
        out.append(v)
    return out or [0]


_NTH = [0]


def sample(kind, msg, odd=False, impolite=False, little=False):
    """impolite: the caller first encodes the message once, damages the returned word in place (channel simulation),
    extracts from the damaged word, damages what it extracted - and only then makes the calls that are recorded"""
    from bitarray import bitarray
    from okdmr.dmrlib.etsi.crc.crc8 import CRC8
    from okdmr.dmrlib.etsi.fec.five_bit_checksum import FiveBitChecksum
    from okdmr.dmrlib.etsi.fec.vbptc_128_72 import VBPTC12873
    from okdmr.dmrlib.etsi.fec.vbptc_32_11 import VBPTC3211
    from okdmr.dmrlib.etsi.fec.vbptc_68_28 import VBPTC6828
    if little:
        msg = bitarray(msg.tolist(), endian="little")       # the same bits kept in a little-endian bitarray
    _NTH[0] += 1
    if _NTH[0] % 4 == 0:
        # a receiver's life: verifications that FAIL come between the encodes (a short LC / embedded LC received with a wrong
        # check value) - whatever a refused verification leaves behind in a shared calculator, the next encode is judged as always
        bad = bitarray([(_NTH[0] >> k) & 1 for k in range(28)])
        c8 = int(CRC8.calculate(bad.copy()))
        for wrong in ((c8 + 1) & 0xFF, c8 ^ 0x80, (~c8) & 0xFF):
            try:
                CRC8.check(bad.copy(), wrong)
            except Exception:  # noqa
                pass
        nine = bytes((_NTH[0] * 37 + k) & 0xFF for k in range(9))
        try:
            FiveBitChecksum.verify(nine, (FiveBitChecksum.calculate(nine) + 1) % 31)
        except Exception:  # noqa
            pass
        try:
            from okdmr.dmrlib.etsi.layer2.pdu.short_link_control import ShortLinkControl
            slc = bitarray([0, 0, 0, _NTH[0] & 1]) + bad[:24] + bitarray([int(b) for b in format(c8 ^ 0x5A, "08b")])
            ShortLinkControl.from_bits(slc)
        except Exception:  # noqa
            pass
    if impolite:
        if kind == "128_72":
            w0 = VBPTC12873.encode(msg.copy())
            VBPTC12873.deinterleave_data_bits(w0, include_cs5=True).invert()
        elif kind == "68_28":
            w0 = VBPTC6828.encode(msg.copy())
            VBPTC6828.deinterleave_data_bits(w0, include_crc8=True).invert()
        else:
            w0 = VBPTC3211.encode(msg.copy(), even_parity=not odd)
            VBPTC3211.deinterleave_data_bits(w0).invert()
        w0.invert()
    if kind == "128_72":
        cw = VBPTC12873.encode(msg.copy())
        dec = VBPTC12873.deinterleave_data_bits(cw, include_cs5=False)
        csx = VBPTC12873.deinterleave_cs5_bits(cw)
        cscalc = FiveBitChecksum.calculate(bitarray(msg.tolist(), endian="big").tobytes())
        cw2 = VBPTC12873.encode(VBPTC12873.deinterleave_data_bits(cw, include_cs5=True))
        cw3 = VBPTC12873.encode(VBPTC12873.deinterleave_all_bits(cw))
    elif kind == "68_28":
        cw = VBPTC6828.encode(msg.copy())
        dec = VBPTC6828.deinterleave_data_bits(cw, include_crc8=False)
        csx = VBPTC6828.deinterleave_crc8_bits(cw)
        cscalc = CRC8.calculate(bitarray(msg.tolist(), endian="big"))
        cw2 = VBPTC6828.encode(VBPTC6828.deinterleave_data_bits(cw, include_crc8=True))
        cw3 = VBPTC6828.encode(VBPTC6828.deinterleave_all_bits(cw))
    else:
        cw = VBPTC3211.encode(msg.copy(), even_parity=not odd)
        dec = VBPTC3211.deinterleave_data_bits(cw)
        csx, cscalc = bitarray(), 0
        cw2 = VBPTC3211.encode(VBPTC3211.deinterleave_data_bits(cw), even_parity=not odd)
        cw3 = VBPTC3211.encode(VBPTC3211.deinterleave_all_bits(cw), even_parity=not odd)
    return {"kind": kind, "odd": bool(odd), "msg": pack(msg), "cw": pack(cw), "cwlen": len(cw), "dec": pack(dec),
            "csx": [int(b) for b in csx], "cscalc": int(cscalc), "cw2": pack(cw2), "cw3": pack(cw3)}


def run(ctx):
    ctx.rule = ("observations of encode/extractors judged by TLC: (32,11) all 2^11 messages x even/odd parity (exhaustive); "
                "(128,72): 72 unit messages, messages hitting each of the 31 checksum values, random; (68,28): 28 unit messages, "
                "random. distinct = distinct (code, message, parity) samples.")
    ctx.assumptions += [
        "checksum equality in the bit order the repository's own tests assert on on-air words: CS5 most significant bit first, CRC-8 least significant bit first",
        "rows are judged with the parity-check columns learned from Hamming(16,11,4)/(17,12,3).generate (C06 verifies those codes)",
        "2^72 / 2^28 messages via unit messages, every checksum value and random samples (the checksum is not linear)",
    ]
    core.setup_repo_path()
    import random
    from bitarray import bitarray
    from bitarray.util import int2ba
    from okdmr.dmrlib.etsi.fec.five_bit_checksum import FiveBitChecksum
    from okdmr.dmrlib.etsi.fec.hamming_16_11_4 import Hamming16114
    from okdmr.dmrlib.etsi.fec.hamming_17_12_3 import Hamming17123
    rng = random.Random(ctx.seed)
    samples = []
    for m in range(1 << 11):
        for odd in (False, True):
            samples.append(sample("32_11", int2ba(m, length=11), odd, impolite=m % 3 == 0))
    for i in range(72):
        u = bitarray([0] * 72)
        u[i] = 1
        samples.append(sample("128_72", u, impolite=i % 2 == 0))
    seen = set()
    tries = 0
    while len(seen) < 31 and tries < 20000:
        tries += 1
        m = bitarray([rng.getrandbits(1) for _ in range(72)])
        cs = FiveBitChecksum.calculate(m.tobytes())
        if cs not in seen:
            seen.add(cs)
            samples.append(sample("128_72", m, impolite=len(seen) % 2 == 0))
    ctx.note("cs5_values_covered", len(seen))
    # the same for the short LC: messages whose CRC-8 takes the special values a shortcut might test for (0, 1, 0x80, 0xFF) - one
    # random message in 256 each, so they are searched for (the library's CRC-8 only aims here, TLC recomputes it)
    from okdmr.dmrlib.etsi.crc.crc8 import CRC8
    want8, tries = {0: 3, 1: 1, 0x80: 1, 0xFF: 2}, 0
    while any(want8.values()) and tries < 60000:
        tries += 1
        m = bitarray([rng.getrandbits(1) for _ in range(28)])
        c8 = int(CRC8.calculate(m.copy()))
        if want8.get(c8) and m.any():
            want8[c8] -= 1
            samples.append(sample("68_28", m, impolite=tries % 2 == 0))
    if any(want8.values()):
        raise core.MachineryError(f"no short-LC messages with the special CRC-8 values found: {want8}")
    # structured fill: constant messages and messages with one constant row of the transmit matrix (12 / 11 message bits)
    for width, kind_, rowlen in ((28, "68_28", 12), (72, "128_72", 11)):
        for base in (0, 1):
            samples.append(sample(kind_, bitarray([base] * width)))
            for start in range(0, width, rowlen):
                m = bitarray([1 - base] * width)
                m[start:start + rowlen] = base
                samples.append(sample(kind_, m))
                m2 = bitarray([rng.getrandbits(1) for _ in range(width)])
                m2[start:start + rowlen] = base
                samples.append(sample(kind_, m2))
    for i in range(28):
        u = bitarray([0] * 28)
        u[i] = 1
        samples.append(sample("68_28", u, impolite=i % 2 == 0))
    n = 400 if ctx.quick else 40000
    for _ in range(n):
        samples.append(sample("128_72", bitarray([rng.getrandbits(1) for _ in range(72)]), impolite=bool(rng.getrandbits(1)), little=len(samples) % 4 == 1))
        samples.append(sample("68_28", bitarray([rng.getrandbits(1) for _ in range(28)]), impolite=bool(rng.getrandbits(1)), little=len(samples) % 3 == 0))
        if len(samples) % 7 == 0:
            samples.append(sample("32_11", bitarray([rng.getrandbits(1) for _ in range(11)]), odd=bool(rng.getrandbits(1)), little=True))
    for s in samples:
        ctx.count(core.digest([s["kind"], s["odd"], s["msg"]]))
    data = {"h16": learn_hcols(Hamming16114, 16, 11), "h17": learn_hcols(Hamming17123, 17, 12), "samples": samples}
    path = os.path.join(ctx.rundir, "c09_data.json")
    json.dump(data, open(path, "w"))
    ctx.sample(samples[4096 + 3])
    res = core.run_tlc(ctx, "MC_VBPTC", "MC_VBPTC.cfg", env={"DATA_FILE": path}, timeout=2400, jvm=("-Xss256m",))
    if not res.ok or res.distinct < len(samples):
        raise core.MachineryError(f"TLC did not judge all samples ({res.distinct} < {len(samples)})")
    ctx.exhaustive = False
    ctx.note("single_burst_exhaustive", True)
    ctx.traces_validated = len(samples)
    groups = {}
    for v in core.parse_printed_json(res, tag="REJECT"):
        groups.setdefault((samples[v["idx"]]["kind"], v["why"]), []).append(v["idx"])
    embedded_lc_phase(ctx)
    pcap_phase(ctx)
    for (kind, why), idxs in sorted(groups.items()):
        s = samples[idxs[0]]
        ctx.violation(f"vbptc/{kind}/{why}", f"VBPTC {kind}: {why} fails for {len(idxs)} of the samples, first message (packed) {s['msg']}",
                      {"kind": kind, "clause": why, "count": len(idxs), "msg": s["msg"], "odd": s["odd"]})
    drift = {}
    for v in core.parse_printed_json(res, tag="DRIFT"):
        drift.setdefault((samples[v["idx"]]["kind"], v["why"]), []).append(v["idx"])
    for (kind, why), idxs in sorted(drift.items()):
        ctx.model_drift(f"VBPTC {kind}: {why} for {len(idxs)} samples")


def embedded_lc_run(args):
    """worker: one scenario through the real EmbeddedExtractor: two sources send link controls as four voice bursts each
    (LCSS first, continuation, continuation, last) inside IPSC frames; some bursts are lost, some carry single-fragment or
    reverse-channel signalling"""
    seed, script = args
    import contextlib
    import io
    import random
    core.setup_repo_path()
    from bitarray import bitarray
    from harness import gen
    from okdmr.dmrlib.etsi.fec.vbptc_128_72 import VBPTC12873
    from okdmr.dmrlib.tools.pcap_tool import EmbeddedExtractor
    from scapy.layers.inet import IP, UDP
    rng = random.Random(seed)
    ex = EmbeddedExtractor()
    LCSS = {"S": 0, "F": 1, "L": 2, "C": 3}
    lcs = {}
    ev = []
    for key, g, k, lcss, pi, lose in script:
        if (key, g) not in lcs:
            lc = gen.full_lc_voice(rng, rng.randrange(1, 1 << 24), group=bool(rng.getrandbits(1)))
            word = VBPTC12873.encode(lc.as_bits()[:72])
            lcs[(key, g)] = (lc.as_bits()[:72], word)
        if lose:
            continue
        sent72, word = lcs[(key, g)]
        frag = word[32 * k:32 * k + 32] if lcss != "S" else gen.rbits(rng, 32)
        burst = gen.voice_emb_burst(rng, colour_code=3, pi=int(pi), lcss=LCSS[lcss], emb32=frag)
        ip, port = ("10.0.0.1", 50000) if key == "k1" else ("10.0.0.2", 50001)
        frame = gen.ipsc_frame(rng, burst, slot_type=0xBBBB, frame_type=0x1111, colour_code=3, src=7, dst=9)
        pkt = IP(src=ip, dst="10.9.9.9") / UDP(sport=port, dport=50000)
        out, err = None, ""
        try:
            with contextlib.redirect_stdout(io.StringIO()):
                out = ex.process_packet(frame, pkt)
        except Exception as exn:  # noqa
            err = type(exn).__name__
        held = ex.data.get(f"{ip}:{port}", (None, bitarray()))[1]
        ev.append({"key": key, "lcss": lcss, "pi": bool(pi), "g": [key, g], "k": k, "delivered": out is not None,
                   "same": out is not None and out.as_bits()[:72] == sent72, "nfrag": len(held) // 32, "err": err})
    return {"ev": ev}


def pcap_run(args):
    """worker: one generated capture file through the real PcapTool.iter_pcap with a recording callback"""
    seed, path, pkts, cfg = args
    import contextlib
    import io
    core.setup_repo_path()
    from okdmr.dmrlib.tools.pcap_tool import PcapTool
    from scapy.layers.inet import IP, UDP
    from scapy.layers.inet6 import IPv6
    from scapy.layers.l2 import Ether, Dot3, LLC
    from scapy.utils import wrpcap
    frames = []
    for n, p in enumerate(pkts):
        udp = UDP(sport=p["sport"], dport=p["dport"])
        if p["load"]:
            udp = udp / (n + 1).to_bytes(2, "big")              # the payload is the packet's index
        net = IP(src=p["src"], dst="10.0.0.9") if p["ip4"] else IPv6(src="fe80::1", dst="fe80::2")
        if p["ether"]:
            frames.append(Ether(src="02:00:00:00:00:01", dst="02:00:00:00:00:02") / net / udp)
        else:
            frames.append(Dot3(src="02:00:00:00:00:01", dst="02:00:00:00:00:02") / LLC() / net / udp)   # an 802.3 / LLC frame
    wrpcap(path, frames)
    calls, err = [], ""
    raising = {n + 1 for n, p in enumerate(pkts) if p["raises"]}

    def cb(data, packet):
        i = int.from_bytes(bytes(data)[:2], "big")
        calls.append(i)
        if i in raising:
            raise RuntimeError("analysis of one packet failed")
    sink = io.StringIO()
    try:
        with contextlib.redirect_stdout(sink), contextlib.redirect_stderr(sink):
            stats = PcapTool.iter_pcap(files=[path], callback=cb, ports_whitelist=list(cfg["pw"]), ports_blacklist=list(cfg["pb"]),
                                       ip_whitelist=list(cfg["ipw"]))
    except Exception as ex:  # noqa
        stats, err = {}, type(ex).__name__
    os.remove(path)
    return {"pkts": pkts, "ipw": cfg["ipw"], "pw": cfg["pw"], "pb": cfg["pb"], "calls": calls, "err": err,
            "stats": sorted([int(k), int(v)] for k, v in stats.items())}


def pcap_phase(ctx):
    """growth beyond the statement (spec/PcapFilter.tla): the capture iterator every analysis tool of the repository starts from"""
    res = core.run_tlc(ctx, "MC_PcapFilter", "MC_PcapFilter.cfg", timeout=900, workers=8)
    ctx.note("pcap_filter_design", res.violated or f"all facts hold over {res.distinct} captures x filter settings")
    if res.violated:
        ctx.outside(f"capture iterator: the design model violates {res.violated}")
    jobs = []
    for i in range(120 if ctx.quick else 2500):
        r = ctx.rng
        ports = [r.choice([1, 2, 3, 50000, 62006, 65535]) for _ in range(4)]
        pkts = []
        for _ in range(r.randrange(0, 9)):
            k = r.random()
            pkts.append({"ether": k >= 0.08, "udp": True, "ip4": not 0.08 <= k < 0.2, "load": not 0.2 <= k < 0.32,
                         "src": r.choice(["10.0.0.1", "10.0.0.2", "10.0.0.3"]), "sport": r.choice(ports), "dport": r.choice(ports),
                         "raises": r.random() < 0.1})
        pick = lambda pool, pr: sorted({r.choice(pool) for _ in range(r.randrange(1, 3))}) if r.random() < pr else []
        cfg = {"ipw": pick(["10.0.0.1", "10.0.0.2"], 0.4), "pw": pick(ports, 0.4), "pb": pick(ports, 0.4)}
        jobs.append((ctx.seed * 31 + i, os.path.join(ctx.rundir, f"capture_{i}.pcap"), pkts, cfg))
    with Pool(core.NCPU) as pool:
        cases = pool.map(pcap_run, jobs, chunksize=8)
    ncalls = sum(len(c["calls"]) for c in cases)
    for c in cases:
        ctx.count(core.digest(["pcap", c["pkts"], c["ipw"], c["pw"], c["pb"], c["calls"]]))
    ctx.note("pcap_filter_captures", {"files": len(cases), "callback_calls": ncalls})
    if ncalls < len(cases) // 2:
        raise core.MachineryError("the capture phase hardly ever reached the callback")
    path = os.path.join(ctx.rundir, "c09_pcap.json")
    json.dump({"cases": cases}, open(path, "w"))
    res = core.run_tlc(ctx, "MC_PcapFilter", "MC_PcapFilter_judge.cfg", env={"DATA_FILE": path}, timeout=900)
    if not res.ok or res.distinct < len(cases):
        raise core.MachineryError(f"TLC did not judge all captures ({res.distinct} < {len(cases)})")
    groups = {}
    for v in core.parse_printed_json(res, tag="DRIFT"):
        groups.setdefault(v["why"], []).append(v["idx"])
    for why, idxs in sorted(groups.items()):
        ctx.model_drift(f"capture iterator: {why} for {len(idxs)} capture files, first {json.dumps({k: cases[idxs[0]][k] for k in ('pkts', 'ipw', 'pw', 'pb', 'calls', 'stats')})[:600]}")


def embedded_lc_phase(ctx):
    """growth beyond the statement (spec/EmbeddedLC.tla): reassembly of the embedded link control over voice bursts"""
    for cfgname, maxloss in (("MC_EmbeddedLC_3.cfg", 3), ("MC_EmbeddedLC_4.cfg", 4)):
        with open(os.path.join(ctx.rundir, cfgname), "w") as f:
            f.write("SPECIFICATION Spec\nCONSTANTS\n  Groups = 2\n  MaxLoss = %d\nINVARIANT SourcesSeparate\nINVARIANT LosslessDeliversAll\n"
                    "INVARIANT DeliveredOnlyCompleteGroups\nCHECK_DEADLOCK FALSE\n" % maxloss)
        res = core.run_tlc(ctx, "MC_EmbeddedLC", cfgname, timeout=600, workers=8)
        ctx.note(f"embedded_lc_design_max_loss_{maxloss}", res.violated or "all invariants hold")
    jobs = []
    for i in range(150 if ctx.quick else 3000):
        script = []
        nxt = {"k1": 0, "k2": 0}
        ngroups = ctx.rng.randrange(2, 5)
        directed = i % 5 == 0        # lose C, L of one superframe and F, C of the next: the pattern TLC found
        while any(v < 4 * ngroups for v in nxt.values()):
            key = ctx.rng.choice([k for k, v in nxt.items() if v < 4 * ngroups])
            n = nxt[key]
            nxt[key] += 1
            k = n % 4
            lose = (directed and key == "k1" and 2 <= n <= 5) or (not directed and ctx.rng.random() < 0.12)
            script.append((key, n // 4, k, "FCCL"[k], False, lose))
            if ctx.rng.random() < 0.08:
                script.append((key, n // 4, k, "S", False, False))                  # a single-fragment burst in between
            if ctx.rng.random() < 0.05:
                script.append((key, n // 4, k, "FCCL"[k], True, False))             # a reverse-channel burst in between
        jobs.append((ctx.seed * 53 + i, script))
    with Pool(core.NCPU) as pool:
        runs = pool.map(embedded_lc_run, jobs, chunksize=8)
    delivered = sum(1 for r in runs for e in r["ev"] if e["delivered"])
    errs = sorted({e["err"] for r in runs for e in r["ev"] if e["err"]})
    for r in runs:
        for e in r["ev"]:
            e.pop("err")
            ctx.count(core.digest(["emb", e["key"], e["lcss"], e["delivered"], e["nfrag"]]))
    ctx.note("embedded_lc_scenarios", len(runs))
    ctx.note("embedded_lc_link_controls_delivered", delivered)
    if delivered < 50:
        raise core.MachineryError("the embedded-LC phase hardly ever got a link control out of the extractor")
    for x in errs:
        ctx.outside(f"embedded-LC extractor raised {x} on a voice burst inside a well-formed IPSC frame")
    for part in core.chunks([{"init": {}, "ev": r["ev"]} for r in runs], 500):
        ctx.validate_traces("Trace_EmbeddedLC", "Trace_EmbeddedLC.cfg", part)


def replay(ctx, rec):
    print("replay: re-running the check (all samples are regenerated from the seed)")
    run(ctx)
    return ctx.finish()
