"""C06 — Hamming, Golay and quadratic-residue codes: exact codeword sets and correction.
spec/BlockCodes.tla + MC_BlockCodes.tla.  The implementation is called on the WHOLE finite domains (all 2^k
messages through generate, all 2^n words through check, every codeword x every single error - and for
Hamming(16,11,4) every double error - through check_and_correct); the observations are handed to TLC, which
enumerates the same domains itself and evaluates every clause of the property on them."""
import json
import os
from multiprocessing import Pool

from harness import core

CODES = [
    # name, module, class, n, k, d, g (generator polynomial incl. top bit, 0 = not compared), r, ext, hamming
    ("Hamming743", "hamming_7_4_3", "Hamming743", 7, 4, 3, 0b1011, 3, False, True),
    ("Hamming1393", "hamming_13_9_3", "Hamming1393", 13, 9, 3, 0b10011, 4, False, True),
    ("Hamming15113", "hamming_15_11_3", "Hamming15113", 15, 11, 3, 0b10011, 4, False, True),
    ("Hamming16114", "hamming_16_11_4", "Hamming16114", 16, 11, 4, 0b10011, 4, True, True),
    ("Hamming17123", "hamming_17_12_3", "Hamming17123", 17, 12, 3, 0b100101, 5, False, True),
    ("Golay2087", "golay_20_8_7", "Golay2087", 20, 8, 7, 0, 12, False, False),
    ("QR1676", "quadratic_residue_16_7_6", "QuadraticResidue1676", 16, 7, 6, 0, 9, False, False),
]


def cls_of(mod, cls):
    import importlib
    return getattr(importlib.import_module("okdmr.dmrlib.etsi.fec." + mod), cls)


def ba(w, n):
    from bitarray.util import int2ba
    return int2ba(w, length=n)


def to_int(x):
    """generate() returns a numpy array, check_and_correct a bitarray"""
    v = 0
    for b in (x.tolist() if hasattr(x, "tolist") else x):
        v = (v << 1) | int(b)
    return v


def work(args):
    kind, mod, cls, n, k, lo, hi, extra = args
    core.setup_repo_path()
    C = cls_of(mod, cls)
    out = []
    if kind == "gen":
        # the caller keeps every encoder output and reads them only after the last call (results must not share storage)
        held = [C.generate(ba(m, k)) for m in range(lo, hi)]
        out = [to_int(x) for x in held]
    elif kind == "check":
        for w in range(lo, hi):
            if C.check(ba(w, n)):
                out.append(w)
    elif kind == "fix1":
        gen = extra
        prev = None
        for m in range(lo, hi):
            for p in range(n):
                w = gen[m] ^ (1 << p)
                st, o = C.check_and_correct(ba(w, n))
                if prev is not None:
                    out += [prev[0], prev[1], to_int(prev[2])]      # the previous result is read after the next call
                prev = (w, 1 if st else 0, o)
        if prev is not None:
            out += [prev[0], prev[1], to_int(prev[2])]
    elif kind == "fix2":
        gen = extra
        for m in range(lo, hi):
            for a in range(n):
                for b in range(a + 1, n):
                    w = gen[m] ^ (1 << a) ^ (1 << b)
                    st, o = C.check_and_correct(ba(w, n))
                    if st:
                        out.append(w)
    return out


def spans(total, parts):
    step = max(1, (total + parts - 1) // parts)
    return [(lo, min(total, lo + step)) for lo in range(0, total, step)]


def learn(ctx, pool):
    data = []
    for name, mod, cls, n, k, d, g, r, ext, ham in CODES:
        C = cls_of(mod, cls)
        rows = [to_int(C.generate(ba(1 << (k - 1 - i), k))) for i in range(k)]
        genall = sum(pool.map(work, [("gen", mod, cls, n, k, lo, hi, None) for lo, hi in spans(1 << k, 16)]), [])
        accepted = sum(pool.map(work, [("check", mod, cls, n, k, lo, hi, None) for lo, hi in spans(1 << n, 64)]), [])
        fix1, fix2 = [], []
        if ham:
            fix1 = sum(pool.map(work, [("fix1", mod, cls, n, k, lo, hi, genall) for lo, hi in spans(1 << k, 32)]), [])
        if ext:
            fix2 = sorted(set(sum(pool.map(work, [("fix2", mod, cls, n, k, lo, hi, genall) for lo, hi in spans(1 << k, 64)]), [])))
        ctx.count(None, (1 << k) + (1 << n) + len(fix1) // 3 + ((1 << k) * n * (n - 1) // 2 if ext else 0))
        data.append({"name": name, "n": n, "k": k, "d": d, "g": g, "r": r, "ext": ext, "hamming": ham, "rows": rows,
                     "genall": genall, "accepted": accepted, "fix1": fix1, "fix2true": fix2})
        ctx.note("learned_" + name, {"rows_digest": core.digest(rows), "accepted": len(accepted), "single_error_cases": len(fix1) // 3,
                                     "double_errors_claimed_repaired": len(fix2)})
    return data


def run(ctx):
    ctx.rule = ("exhaustive: every message, every word, every codeword x single error (and x double error for "
                "Hamming(16,11,4)) is run through the implementation; TLC enumerates the same domains and evaluates the "
                "clauses. distinct = number of (code, domain item) pairs judged by TLC.")
    ctx.assumptions += [
        "code membership is defined by the library's own encoder (learned exhaustively), equality with the ETSI polynomials is informational",
        "words are integers, most significant bit first; the result of check_and_correct is the returned buffer",
    ]
    with Pool(core.NCPU) as pool:
        data = learn(ctx, pool)
    path = os.path.join(ctx.rundir, "c06_data.json")
    json.dump(data, open(path, "w"))
    ctx.sample({"code": data[2]["name"], "rows": data[2]["rows"], "first_single_error_cases": data[2]["fix1"][:9]})
    res = core.run_tlc(ctx, "MC_BlockCodes", "MC_BlockCodes.cfg", env={"DATA_FILE": path}, timeout=1500,
                       jvm=("-Xss256m",))
    if not res.ok:
        raise core.MachineryError("TLC did not complete the enumeration")
    want = sum((1 << c["k"]) + (1 << c["n"]) + len(c["fix1"]) // 3 + ((1 << c["k"]) * c["n"] * (c["n"] - 1) // 2 if c["ext"] else 0)
               for c in data)
    if res.distinct < want:
        raise core.MachineryError(f"TLC judged {res.distinct} items, expected at least {want}")
    ctx.exhaustive = True
    ctx.note("items_judged_by_tlc", want)
    for i in range(want // 1000):
        ctx.distinct.add(i)          # placeholder replaced below
    ctx.distinct = set(range(want))  # every enumerated item is a distinct (code, phase, index)
    seen = {}
    for v in core.parse_printed_json(res, tag="REJECT"):
        seen.setdefault((v["code"], v["why"]), []).append(v)
    for (code, why), items in sorted(seen.items()):
        c = [x for x in data if x["name"] == code][0]
        ex = items[0]
        ctx.violation(f"blockcode/{code}/{why}", f"{code}: {why} fails for {len(items)} items, e.g. phase {ex['phase']} index {ex['idx']}",
                      {"code": code, "clause": why, "phase": ex["phase"], "idx": ex["idx"], "count": len(items)})
    for v in core.parse_printed_json(res, tag="DRIFT"):
        ctx.model_drift(f"{v['code']}: {v['why']}")
    ctx.traces_validated = len(data)


def replay(ctx, rec):
    print("replay: C06 is exhaustive; re-running the whole check")
    run(ctx)
    return ctx.finish()
