"""C10 — rate 3/4 trellis coding is lossless for every 144-bit block.
spec/Trellis34.tla + MC_Trellis34.tla: tables learned through the public API; TLC checks their structure
exhaustively (row-injective 8x8 transition table, bijective constellation and dibit maps, interleave permutation),
runs the encoder x decoder product machine over all tribit strings up to length 4 from every state, re-encodes
observed blocks with the pipeline over the learned tables and judges corrupted streams."""
import json
import os
from array import array

from harness import core
from harness.drivers.c09 import pack


class OctetBlock(bytes):
    """an 18-octet block in a caller's own subclass of bytes"""


def learn():
    from bitarray import bitarray
    from okdmr.dmrlib.etsi.fec.trellis import Trellis34 as T
    table = [[int(T.tribits_to_points(array("B", [s, t]))[1]) for t in range(8)] for s in range(8)]
    first = [int(T.tribits_to_points(array("B", [t]))[0]) for t in range(8)]
    if first != table[0]:
        raise core.MachineryError("encoder does not start in state 0")
    pd = []
    for p in range(16):
        d = T.points_to_dibits(array("B", [p]))
        pd.append([int(d[0]), int(d[1])])
    db = []
    for a in (0, 1):
        for b in (0, 1):
            d = T.bits_to_dibits(bitarray([a, b]))
            db.append({"d": int(d[0]), "bits": [a, b]})
    inter, deinter = [], []
    for i in range(98):
        u = array("b", [0] * 98)
        u[i] = 1
        o = T.interleave(u)
        inter.append(None)
        # out[j] = in[I[j]]: the 1 at input position i appears at output j with I[j] = i
        j = list(o).index(1)
        inter[-1] = j
        o2 = T.deinterleave(u)
        deinter.append(list(o2).index(1))
    # inter[i] = output position of input i  ->  I[j] = input position feeding output j
    I = [0] * 98
    for i, j in enumerate(inter):
        I[j] = i
    # deinterleave: out[k] = in[i] with k = deinter[i]; as a map position->position DI[i] = k
    return {"T": table, "PD": pd, "DB": db, "I": I, "DI": deinter}


def run(ctx):
    ctx.rule = ("tables learned through the public API; TLC checks structure exhaustively and the product machine over "
                "all tribit strings <= 4 from all 8 states; blocks that embed each of the 64 transitions at several positions, "
                "structured and random blocks are encoded/decoded by the implementation (bits and bytes input) and re-encoded by "
                "TLC; streams with one constellation point replaced are judged (unreachable point => rejected). "
                "distinct = distinct blocks + corrupted streams.")
    ctx.assumptions += ["2^144 blocks follow from the row-injective transition table, the bijective maps and the permutation (all checked "
                        "exhaustively on the learned tables) plus the pipeline comparison on sampled blocks",
                        "rejected = Trellis34.decode raises AssertionError"]
    core.setup_repo_path()
    import random
    from bitarray import bitarray
    from bitarray.util import int2ba
    from okdmr.dmrlib.etsi.fec.trellis import Trellis34 as T
    rng = random.Random(ctx.seed)
    data = learn()
    blocks, raw_blocks = [], []

    def add_block(b, impolite=False, little=False, frozen=False):
        """little: the caller keeps its bits in little-endian bitarrays (same bit sequence, other storage order)"""
        err = ""
        if little:
            b = bitarray(b.tolist(), endian="little")
        if frozen:
            from bitarray import frozenbitarray
            b = frozenbitarray(b)        # bits the callee cannot resize or write to
        enc = dec = encb = db = bitarray()
        try:
            if impolite:
                # a caller that owns what it was given: it damages earlier results in place (channel simulation) and
                # asks again - every call must still return a fresh, correct result
                for first in (T.encode(b.tobytes()), T.encode(b.copy())):
                    first.invert()
                    first.append(1)
                e0 = T.encode(b.copy())
                d0 = T.decode(e0.copy())
                d0.invert()
                d1 = T.decode(e0.copy(), as_bytes=True)
                if isinstance(d1, bytearray):
                    d1[0] ^= 0xFF
            enc = T.encode(b if frozen else b.copy())
            octets = bytes(bitarray(b.tolist(), endian="big").tobytes())
            if len(blocks) % 4 == 3:
                # "supplied as bytes" includes instances of subclasses of bytes (a payload wrapper, numpy.bytes_)
                import numpy
                octets = OctetBlock(octets) if len(blocks) % 8 == 3 else numpy.bytes_(octets)
            elif len(blocks) % 4 == 1:
                # ... and the octets as the caller's receive buffer holds them: a bytearray, a memoryview slice
                octets = bytearray(octets) if len(blocks) % 8 == 1 else memoryview(bytes(3) + octets)[3:]
            encb = T.encode(octets)
            held = bitarray(enc.tolist(), endian="little") if little else (frozenbitarray(enc) if frozen else enc.copy())
            dec = T.decode(held)
            decb = T.decode(bitarray(enc.tolist(), endian="little") if little else enc.copy(), as_bytes=True)
            db = bitarray()
            db.frombytes(decb)
        except Exception as ex:  # noqa: a failure on a valid block is an observation, not a harness error
            err = type(ex).__name__
        raw_blocks.append((b, enc))
        blocks.append({"block": pack(b), "enc": pack(enc), "enclen": len(enc), "dec": pack(dec), "encbytes": pack(encb),
                       "decbytes": pack(db), "err": err})
        ctx.count(core.digest(pack(b)))

    # every transition (s, t) embedded at positions 0/1, 20, 46
    for s in range(8):
        for t in range(8):
            for pos in (1, 20, 47):
                b = bitarray([rng.getrandbits(1) for _ in range(144)])
                b[3 * (pos - 1):3 * pos] = int2ba(s, length=3)
                b[3 * pos:3 * pos + 3] = int2ba(t, length=3)
                add_block(b)
    add_block(bitarray([0] * 144))
    add_block(bitarray([1] * 144))
    for i in range(144):
        u = bitarray([0] * 144)
        u[i] = 1
        add_block(u)
    for k in range(300 if ctx.quick else 60000):
        add_block(bitarray([rng.getrandbits(1) for _ in range(144)]), impolite=k % 3 == 0, little=k % 4 == 1, frozen=k % 5 == 2)
    # aimed by the learned tables: legal blocks whose transmitted stream holds a long run of equal dibits (the interleaver puts
    # dibits of points four apart next to each other) - random blocks never exceed a run of about twelve
    Tt, PD, Iv = data["T"], data["PD"], data["I"]
    nrun = 0
    for dv in sorted({x for pr in PD for x in pr}):
        for start in range(0, 98 - 16, 5):
            for L in (16, 22, 30):
                if start + L > 98:
                    continue
                need = {}                                   # point index -> set of halves that must carry dibit dv
                for j in range(start, start + L):
                    need.setdefault(Iv[j] // 2, set()).add(Iv[j] % 2)
                allowed = {q: {pt for pt in range(16) if all(PD[pt][h] == dv for h in hs)} for q, hs in need.items()}
                # forward reachability over (position, state = previous tribit), then a random feasible walk backwards
                reach = [set() for _ in range(50)]
                reach[0] = {0}
                for q in range(49):
                    for st in reach[q]:
                        for t in (range(8) if q < 48 else (0,)):
                            if q not in allowed or Tt[st][t] in allowed[q]:
                                reach[q + 1].add(t)
                if not reach[49]:
                    continue
                tri, cur = [0] * 49, rng.choice(sorted(reach[49]))
                for q in range(48, -1, -1):
                    tri[q] = cur
                    prevs = [st for st in reach[q] if (q not in allowed or Tt[st][cur] in allowed[q])]
                    cur = rng.choice(prevs)
                b = bitarray()
                for t in tri[:48]:
                    b += int2ba(t, length=3)
                add_block(b)
                nrun += 1
    ctx.note("blocks_with_long_runs_of_equal_dibits", nrun)
    if nrun < 20:
        raise core.MachineryError(f"only {nrun} blocks with long dibit runs could be constructed")
    for k in range(40):         # the same few blocks again and again, results damaged in between
        add_block(raw_blocks[k % 5][0].copy(), impolite=True)
    # the two permutations composed directly (the result of one handed straight to the other, earlier results kept)
    comp = []
    for k in range(60 if ctx.quick else 2000):
        x = array("b", [rng.choice([-3, -1, 1, 3]) for _ in range(98)])
        rec = {"dir": "di" if k % 2 == 0 else "id", "x": list(x), "y": [0] * 98, "ylater": [0] * 98, "z": [0] * 98, "err": ""}
        try:
            f, g = (T.interleave, T.deinterleave) if rec["dir"] == "di" else (T.deinterleave, T.interleave)
            y = f(x)
            rec["y"] = [int(v) for v in y]
            z = g(y)
            rec["z"] = [int(v) for v in z]
            rec["ylater"] = [int(v) for v in y]
            if [int(v) for v in x] != rec["x"]:
                rec["err"] = "ArgumentAltered"
        except Exception as ex:  # noqa
            rec["err"] = type(ex).__name__
        comp.append(rec)
        ctx.count(core.digest(["comp", rec["dir"], rec["x"]]))
    data["comp"] = comp
    # corrupted streams: replace the point at position pos by another point
    bad = []
    inv_i = data["I"]           # out[j] = in[I[j]]
    pos_of_in = {inp: j for j, inp in enumerate(inv_i)}
    key = {d["d"]: d["bits"] for d in data["DB"]}
    for _ in range(200 if ctx.quick else 20000):
        b, enc = rng.choice(raw_blocks)
        if len(enc) != 196:
            continue
        pos = rng.randrange(49)
        point = rng.randrange(16)
        e = enc.copy()
        for half in (0, 1):
            j = pos_of_in[2 * pos + half]       # transmitted dibit index carrying dibit (2*pos+half)
            bits = key[data["PD"][point][half]]
            e[2 * j] = bits[0]
            e[2 * j + 1] = bits[1]
        try:
            T.decode(e)
            outcome = "decoded"
        except AssertionError:
            outcome = "rejected"
        except Exception as ex:  # noqa
            outcome = "raise:" + type(ex).__name__
        bad.append({"block": pack(b), "pos": pos, "point": point, "outcome": outcome})
        ctx.count(core.digest([pack(b), pos, point]))
        if len(bad) % 4 == 0:
            add_block(b.copy())          # a valid block right after a rejected / damaged stream: the decoder starts afresh
    # aimed at every impossible (state, point) pair - 8 x 8 of them - with a tail that is a valid continuation from each of the
    # eight states a lenient decoder might assume after swallowing the point (a random tail is rejected a few points later
    # anyway and hides such a decoder), at the first, an inner and the last position
    Tt = data["T"]
    aimed = []

    def stream(points):
        e = bitarray([0] * 196)
        for q, pt in enumerate(points):
            for half in (0, 1):
                j = pos_of_in[2 * q + half]
                bits = key[data["PD"][pt][half]]
                e[2 * j], e[2 * j + 1] = bits[0], bits[1]
        return e

    for st in range(8):
        for pt in [x for x in range(16) if x not in Tt[st]]:
            for pos in (0, 1 + (st + pt) % 46, 48):
                if pos == 0 and st != 0:
                    continue
                for q in range(8) if pos < 48 else (0,):
                    tri = [rng.randrange(8) for _ in range(48)] + [0]
                    if pos > 0:
                        tri[pos - 1] = st
                    pts, cur = [], 0
                    for k_, t_ in enumerate(tri):
                        if k_ == pos:
                            pts.append(pt)
                            cur = q
                        else:
                            pts.append(Tt[cur][t_])
                            cur = t_
                    try:
                        T.decode(stream(pts))
                        outcome = "decoded"
                    except AssertionError:
                        outcome = "rejected"
                    except Exception as ex:  # noqa
                        outcome = "raise:" + type(ex).__name__
                    aimed.append({"points": pts, "pos": pos, "state": st, "point": pt, "assumed": q, "outcome": outcome})
                    ctx.count(core.digest(["aimed", pts]))
    # the last (49th) point: every state emits exactly one point for the flush tribit 000 the encoder appends; the seven other points
    # of its row are points no encoder state can emit THERE, although the row's parity is right
    for st in range(8):
        for t_last in range(1, 8):
            for _ in range(3):
                tri = [rng.randrange(8) for _ in range(47)] + [st]
                pts, cur = [], 0
                for t_ in tri:
                    pts.append(Tt[cur][t_])
                    cur = t_
                pts.append(Tt[st][t_last])
                try:
                    T.decode(stream(pts))
                    outcome = "decoded"
                except AssertionError:
                    outcome = "rejected"
                except Exception as ex:  # noqa
                    outcome = "raise:" + type(ex).__name__
                aimed.append({"points": pts, "pos": 48, "state": st, "point": pts[-1], "assumed": t_last, "outcome": outcome})
                ctx.count(core.digest(["aimed", pts]))
    # plain streams a receiver meets without any encoder behind them: the same point 49 times (the all-zero and the all-one
    # 196 bits are two of these - an idle / erased slot), two points alternating, a valid stream shifted by one point; the model's
    # decoder run says which of them hold a point the state reached cannot emit
    plain = [[pt] * 49 for pt in range(16)]
    for _ in range(24):
        a_, b_ = rng.randrange(16), rng.randrange(16)
        plain.append([a_ if k_ % 2 == 0 else b_ for k_ in range(49)])
    for _ in range(8):
        tri = [rng.randrange(8) for _ in range(48)] + [0]
        pts, cur = [], 0
        for t_ in tri:
            pts.append(Tt[cur][t_])
            cur = t_
        plain.append(pts[1:] + pts[:1])
    nzero = 0
    for pts in plain:
        e = stream(pts)
        nzero += 1 if not e.any() else 0
        try:
            T.decode(e)
            outcome = "decoded"
        except AssertionError:
            outcome = "rejected"
        except Exception as ex:  # noqa
            outcome = "raise:" + type(ex).__name__
        aimed.append({"points": pts, "pos": 0, "state": 0, "point": pts[0], "assumed": 0, "outcome": outcome})
        ctx.count(core.digest(["aimed", pts]))
    if nzero != 1:
        raise core.MachineryError(f"the all-zero stream is not among the plain streams ({nzero})")
    if len(aimed) < 500:
        raise core.MachineryError(f"only {len(aimed)} aimed streams built")
    data["aimed"] = aimed
    data["blocks"], data["bad"] = blocks, bad
    path = os.path.join(ctx.rundir, "c10_data.json")
    json.dump(data, open(path, "w"))
    ctx.sample({"T": data["T"], "block": blocks[5], "corrupted": bad[0]})
    res = core.run_tlc(ctx, "MC_Trellis34", "MC_Trellis34.cfg", env={"DATA_FILE": path}, timeout=2400, jvm=("-Xss256m",))
    if res.violated:
        ctx.violation("trellis/DecoderTracksEncoder", "product machine: the decoder state differs from the encoder state "
                      "(transition table learned from the implementation is not row-injective)", {"trace": [s.get("_text") for s in res.trace]})
    elif not res.ok:
        raise core.MachineryError("TLC did not complete")
    ctx.traces_validated = len(blocks) + len(bad) + len(comp) + len(aimed)
    ctx.exhaustive = False
    ctx.note("structure_exhaustive", True)
    groups = {}
    for v in core.parse_printed_json(res, tag="REJECT"):
        groups.setdefault((v["phase"], v["why"]), []).append(v["idx"])
    for (ph, why), idxs in sorted(groups.items()):
        ctx.violation(f"trellis/{why}", f"{why}: {len(idxs)} {ph} items fail, first index {idxs[0]}",
                      {"phase": ph, "clause": why, "count": len(idxs),
                       "first": (blocks[idxs[0]] if ph == "block" else bad[idxs[0]] if ph == "bad" else comp[idxs[0]] if ph == "comp" else aimed[idxs[0]] if ph == "aimed" else None)})
    drift = {}
    for v in core.parse_printed_json(res, tag="DRIFT"):
        drift.setdefault((v["phase"], v["why"]), []).append(v["idx"])
    for (ph, why), idxs in sorted(drift.items()):
        ctx.model_drift(f"{ph}: {why} for {len(idxs)} items")


def replay(ctx, rec):
    print("replay: re-running the check (samples are regenerated from the seed)")
    run(ctx)
    return ctx.finish()
