"""C19 — codec calls are pure: results do not depend on earlier calls or alter inputs.
spec/Purity.tla: (P) results are a function of the call signature, (D) discipline of the hidden mutable cells
(TLC explores all interleavings of entry-point families over the cells).  Binding: every catalogue signature is
measured as the first call of a pristine process (reference); random interleavings of the catalogue are executed in
single interpreters with shifted wall clock and different seeds, logging result digest, argument intactness and
which hidden cells changed; TLC (Trace_Purity) judges the logs against the reference."""
import json
import os
import subprocess
import sys
from concurrent.futures import ThreadPoolExecutor

from harness import core

RUNNER = os.path.join(core.VERIF, "harness", "purity_runner.py")

MCCFG = """SPECIFICATION DSpec
CONSTANTS
  GetTokenEditsTable = FALSE
INVARIANT NoTaintedRead
INVARIANT OnlyScratchGetsDirty
CHECK_DEADLOCK FALSE
"""


def runner(ctx, mode, names, tag, offset=0, seed=0, full=False):
    nf = os.path.join(ctx.rundir, f"names_{tag}.json")
    of = os.path.join(ctx.rundir, f"out_{tag}.json")
    json.dump(names, open(nf, "w"))
    env = dict(os.environ)
    env["VERIF_REPO"] = core.REPO
    env["PYTHONHASHSEED"] = "0"
    bf = os.path.join(ctx.rundir, "builders.json")
    if not os.path.exists(bf):
        core.setup_repo_path()
        from harness.drivers import c12
        json.dump([[fam, opname] for fam, opname, _ in c12.builders()], open(bf, "w"))
    p = subprocess.run([sys.executable, RUNNER, "--mode", mode, "--names", nf, "--out", of, "--builders", bf,
                        "--offset-days", str(offset), "--seed", str(seed)] + (["--full"] if full else []),
                       env=env, stdout=subprocess.PIPE, stderr=subprocess.STDOUT, text=True, timeout=1200)
    if p.returncode != 0 or not os.path.exists(of):
        raise core.MachineryError(f"purity runner failed ({mode} {tag}): {p.stdout[-800:]}")
    return json.load(open(of))


def all_names():
    core.setup_repo_path()
    from harness import catalogue
    return sorted(catalogue.build().keys())


def run(ctx):
    ctx.rule = ("reference = every catalogue signature (public codec entry points x seeded arguments and the repository's "
                "test vectors) executed as the first call of a pristine process; then random interleavings of ~400 calls "
                "each in one interpreter with shifted clock / other seeds; TLC compares every call with the reference and "
                "checks argument buffers; the design model of hidden cells is explored exhaustively. distinct = distinct "
                "(signature, predecessor signature) pairs executed.")
    ctx.assumptions += [
        "results are compared by value (bytes, bits, public and private fields), not by object identity; log output is not a result",
        "the catalogue is finite (listed in the evidence); in-place Hamming repair is exempt from the argument check",
        "pristine process = the library imported, no call made (children forked from such a parent); a second reference starts from an interpreter that has not imported the library",
        "clock shift by replacing datetime.date/datetime and time.time before the library is imported",
        "an object handed to an observation (a CRC register to digest, a parsed document to as_xml / get_value, a numpy column to a parity helper) is an argument of that call: its value-based rendering is the same afterwards, so that the encode / digest after it returns what it would have returned without it",
    ]
    with open(os.path.join(ctx.rundir, "MC_Purity_run.cfg"), "w") as f:
        f.write(MCCFG)
    res = core.run_tlc(ctx, "Purity", "MC_Purity_run.cfg", workers=4, timeout=300)
    if res.violated:
        ctx.note("design_counterexample", res.violated)
    names = all_names()
    ctx.note("signatures", len(names))
    # ---- reference: 16 parallel pristine parents, each forking one child per signature
    parts = [names[i::core.NCPU] for i in range(core.NCPU)]
    with ThreadPoolExecutor(core.NCPU) as ex:
        outs = list(ex.map(lambda a: runner(ctx, "ref", a[1], f"ref{a[0]}"), enumerate(parts)))
    ref = {}
    for o in outs:
        ref.update(o)
    crashed = [n for n, v in ref.items() if v[0] == "crashed"]
    if crashed:
        raise core.MachineryError(f"reference run crashed for {crashed[:5]}")
    # wall clock / randomness: a second set of pristine processes with the date shifted by 14 000 days (38 years, so that two-digit years straddle any window around 'today') and other seeds
    with ThreadPoolExecutor(core.NCPU) as ex:
        outs2 = list(ex.map(lambda a: runner(ctx, "ref", a[1], f"clk{a[0]}", offset=14000, seed=99, full=True), enumerate(parts)))
    with ThreadPoolExecutor(core.NCPU) as ex:
        outs1 = list(ex.map(lambda a: runner(ctx, "ref", a[1], f"full{a[0]}", full=True), enumerate(parts)))
    shifted, plain = {}, {}
    for o in outs2:
        shifted.update(o)
    for o in outs1:
        plain.update(o)
    from harness import catalogue
    for n in names:
        ctx.count("clock>" + n)
        if shifted[n][0] != plain[n][0]:
            paths = catalogue.diff_paths(plain[n][2], shifted[n][2])
            import re as _re
            where = ",".join(sorted({_re.sub(r"\[\d+\]", "[]", p_) for p_ in paths}))[:160]
            ctx.violation(f"purity/clock/{n.split('#')[0]}/{where}",
                          f"{n}: the same first call in two pristine processes with different date/seed differs at {where}",
                          {"sig": n, "kind": "clock", "paths": paths})
    # import order: the same first call in an interpreter that has not imported the library at all (each child imports what its
    # own call chain imports) - a result must not depend on which other modules of the library happen to be loaded
    with ThreadPoolExecutor(core.NCPU) as ex:
        outs3 = list(ex.map(lambda a: runner(ctx, "cold", a[1], f"cold{a[0]}"), enumerate(parts)))
    cold = {}
    for o in outs3:
        cold.update(o)
    for n in names:
        ctx.count("cold>" + n)
        if cold[n][0] != ref[n][0]:
            ctx.violation(f"purity/import-order/{n.split('#')[0]}",
                          f"{n}: the first call in an interpreter that had not imported the library gives {str(cold[n][2])[:80]}, with every module "
                          f"of the library imported beforehand it gives {str(ref[n][2])[:80]}", {"sig": n, "kind": "cold"})
    for n, v in ref.items():
        if not v[1]:
            ctx.violation(f"purity/ArgumentsIntact/{n.split('#')[0]}", f"{n}: argument buffer altered by the call (first call)",
                          {"sig": n, "kind": "intact"})
    for n, v in ref.items():
        if len(v) > 3 and not v[3]:
            ctx.violation(f"purity/EqualArgumentsEqualResults/{n.split('#')[0]}",
                          f"{n}: calls with equal arguments (equal by value, held in different buffers) returned different results: {str(v[2])[:160]}",
                          {"sig": n, "kind": "same"})
    ctx.sample({"reference_sample": {n: str(ref[n][2])[:80] for n in names[:3]}})
    refmap = {n: v[0] for n, v in ref.items()}
    ref_file = os.path.join(ctx.rundir, "ref.json")
    json.dump(refmap, open(ref_file, "w"))
    # ---- interleavings
    nseq, ln = (32, 350) if ctx.quick else (320, 500)
    seqs = []
    for i in range(nseq):
        if i % 4 == 0:   # each signature twice in a row, in random order (self-dependence)
            base = names[:]
            ctx.rng.shuffle(base)
            s = [x for n in base for x in (n, n)][:ln * 2]
        else:
            s = [ctx.rng.choice(names) for _ in range(ln)]
        seqs.append(s)
    with ThreadPoolExecutor(core.NCPU) as ex:
        evs = list(ex.map(lambda a: runner(ctx, "seq", a[1], f"seq{a[0]}", offset=0, seed=1000 + a[0]),
                          enumerate(seqs)))
    traces = []
    for s, ev in zip(seqs, evs):
        traces.append({"init": {}, "ev": ev, "steps": s})
        prev = "-"
        for e in ev:
            ctx.count(prev + ">" + e["sig"])
            prev = e["sig"]
    ctx.sample({"interleaving_prefix": evs[1][:4]})
    rej = ctx.validate_traces("Trace_Purity", "Trace_Purity.cfg", traces, extra_env={"REF_FILE": ref_file})
    for tid, l, why in rej:
        e = traces[tid]["ev"][l - 1]
        prev = traces[tid]["ev"][l - 2]["sig"] if l >= 2 else "-"
        ctx.violation(f"purity/history/{why}/{e['fam']}",
                      f"call {e['sig']} (step {l}, after {prev}) breaks {why}: digest {e['digest']} vs reference {refmap.get(e['sig'])}",
                      {"names": traces[tid]["steps"][:l], "clause": why, "kind": "seq"})


def replay(ctx, rec):
    r = rec["record"]
    if r.get("kind") != "seq":
        print("replay: re-run the check (reference-level finding)")
        return 0
    names = r["names"]
    ref = runner(ctx, "ref", sorted(set(names)), "ref")
    ev = runner(ctx, "seq", names, "seq", offset=5, seed=5)
    ref_file = os.path.join(ctx.rundir, "ref.json")
    json.dump({n: v[0] for n, v in ref.items()}, open(ref_file, "w"))
    rej = ctx.validate_traces("Trace_Purity", "Trace_Purity.cfg", [{"init": {}, "ev": ev}], extra_env={"REF_FILE": ref_file})
    if rej:
        print(f"VIOLATION property=C19 replay={rec.get('path', '(given)')} why={rej[0][2]} step={rej[0][1]}")
        return 1
    print("replay: property holds on this call sequence")
    return 0
