"""C20 — repeater storage keeps one record per source address with a stable identity.
spec/Storage.tla (design + property predicates), MC_Storage (exhaustive + edge dump),
Trace_Storage (verdicts on observed executions)."""
import os

from harness import core

KEYS = ["k1", "k2", "k3", "address_in"]      # the last: a dynamic attribute whose key is spelt like a member
PLAIN_KEYS = KEYS[:3]
# every data member Repeater.__init__ creates (= Builtin of spec/Storage.tla)
BUILTIN = ["address_in", "address_out", "address_nat", "callsign", "serial", "dmr_id", "snmp_enabled", "nat_enabled"]
NONEV = {"t": "n", "s": "", "ip": "", "port": 0}


def enc(v):
    if v is None:
        return dict(NONEV)
    if isinstance(v, tuple):
        return {"t": "a", "s": "", "ip": v[0], "port": v[1]}
    return {"t": "s", "s": str(v), "ip": "", "port": 0}


def dec(v):
    if v["t"] == "n":
        return None
    if v["t"] == "a":
        return (v["ip"], v["port"])
    return v["s"]


def builtin_of(r):
    return {k: enc(getattr(r, k, None)) for k in BUILTIN}


class Sut:
    """the real RepeaterStorage + the id <-> creation-index map"""

    def __init__(self):
        from okdmr.dmrlib.storage.repeater_storage import RepeaterStorage
        self.st = RepeaterStorage()
        self.objs = []  # creation order

    def sync(self):
        for r in self.st.all():
            if not any(r is o for o in self.objs):
                self.objs.append(r)

    def idx(self, obj):
        if obj is None:
            return 0
        for i, o in enumerate(self.objs):
            if o is obj:
                return i + 1
        # an object the storage does not hold: look up by uuid
        for i, o in enumerate(self.objs):
            if o.id == obj.id:
                return -(i + 1)  # same id but another object: identity broken
        return -999

    def project(self):
        self.sync()
        out = []
        for r in self.st.all():
            out.append({
                "id": self.idx(r),
                "f": builtin_of(r),
                "attrs": {k: enc(r.attr(k)) for k in KEYS},
            })
        return out

    def build(self, recs):
        """construct the storage state `recs` with the operations of the specification itself (an auto-creating lookup and
        one patch per record); returns the recorded events, which are judged by TLC like any other step - so a
        storage that cannot be brought into the state is reported with the clause it breaks, not as a harness failure"""
        ev = []
        for n, rec in enumerate(recs):
            ev.append(self.apply(act("match_incoming", addr=("setup%d" % n, 10_000 + n), auto=True)))
            patch = [(k, dec(rec["f"][k])) for k in BUILTIN]
            patch += [(k, dec(v)) for k, v in rec["attrs"].items() if v["t"] != "n" and k not in BUILTIN]
            ev.append(self.apply(act("patch", id=n + 1, patch=patch)))
            for k, v in rec["attrs"].items():
                if v["t"] != "n" and k in BUILTIN:       # a patch would set the member of that name
                    ev.append(self.apply(act("attr_write", id=n + 1, key=k, val=dec(v))))
        self.sync()
        return ev

    def apply(self, a):
        import uuid
        op = a["op"]
        patch = {}
        for kv in a["patch"]:
            if kv["k"] in patch:
                raise core.MachineryError("patch with a repeated key cannot be a dict")
            patch[kv["k"]] = dec(kv["v"])
        obj = self.objs[a["id"] - 1] if 0 < a["id"] <= len(self.objs) else None
        addr = (a["addr"]["ip"], a["addr"]["port"])
        ret, val, out = None, None, "ok"
        try:
            if op == "match_incoming":
                ret = self.st.match_incoming(addr, auto_create=a["auto"], patch=patch)
            elif op == "save":
                ret = self.st.save(obj, patch=patch)
            elif op == "patch":
                ret = obj.patch(patch)
            elif op == "save_new":
                # a repeater the storage does not hold, made with the storage's own factory, handed to save
                fresh = self.st.create_repeater(address_in=addr)
                got = self.st.save(fresh, patch=patch)
                self.sync()
                ret = None if (got is fresh and not any(got is o for o in self.objs)) else got
            elif op == "match_attr":
                ret = self.st.match_attr(a["key"], dec(a["val"]))
            elif op == "match_ip":
                ret = self.st.match_ip_incoming(addr[0])
            elif op == "match_uuid":
                ret = self.st.match_uuid(obj.id if obj is not None else uuid.uuid4())
            elif op == "attr_read":
                val = obj.attr(a["key"])
                ret = obj
            elif op == "attr_write":
                v = dec(a["val"])
                val = obj.attr(a["key"], v) if v is not None else obj.attr(a["key"])
                ret = obj
            elif op == "delete_attr":
                val = obj.delete_attr(a["key"])
                ret = obj
            else:
                raise core.MachineryError(f"unknown op {op}")
        except core.MachineryError:
            raise
        except Exception:
            out = "raise"
        post = self.project()
        if out == "raise":
            rid, val = 0, None
        else:
            rid = self.idx(ret)
            if op == "delete_attr":
                val = "True" if val else None
        return {"act": a, "post": post, "ret": rid, "val": enc(val), "out": out}


def act(op, addr=("ip1", 1), auto=False, patch=(), id=0, key="", val=None):
    return {"op": op, "addr": {"ip": addr[0], "port": addr[1]}, "auto": auto,
            "patch": [{"k": k, "v": enc(v)} for k, v in patch], "id": id, "key": key, "val": enc(val)}


def random_history(rng, n):
    addrs = [("ip%d" % (i // 2 + 1), i % 2 + 1) for i in range(8)]
    if rng.random() < 0.35:
        # addresses as a dual-stack socket reports them: the IPv4-mapped IPv6 form next to the plain form of the same host - two
        # different source addresses as far as the storage's statement goes ("the same incoming address" is the same tuple)
        addrs = addrs[:4] + [("::ffff:10.9.8.7", 1), ("10.9.8.7", 1), ("::ffff:10.9.8.7", 2), ("::1", 1)]
    strs = ["", "A", "B", "OK4DMR"]
    sut = Sut()
    ev = []
    for _ in range(n):
        nrec = len(sut.objs)
        r = rng.random()

        def rpatch():
            p = []
            for _ in range(rng.choice([0, 0, 1, 1, 2, 3])):
                k = rng.choice(BUILTIN + PLAIN_KEYS * 3)
                if k in ("address_out", "address_in", "address_nat"):
                    if k == "address_in" and rng.random() < 0.7:
                        continue
                    v = rng.choice(addrs)
                elif k in ("callsign", "serial"):
                    v = rng.choice(strs + [None])
                elif k == "dmr_id":
                    v = rng.choice([0, 1, 2300001, None])
                elif k in ("snmp_enabled", "nat_enabled"):
                    v = rng.choice([True, False, None])
                else:
                    v = rng.choice(["x", "y", "z", None])
                if all(k != k0 for k0, _ in p):  # a dict has one value per key
                    p.append((k, v))
            return p

        if r < 0.35 or nrec == 0:
            a = act("match_incoming", addr=rng.choice(addrs), auto=rng.random() < 0.5, patch=rpatch())
        else:
            i = rng.randrange(nrec) + 1
            op = rng.choice(["save", "patch", "match_attr", "match_ip", "match_uuid", "attr_read",
                             "attr_write", "delete_attr", "save_new"])
            if op in ("save", "patch"):
                a = act(op, id=i, patch=rpatch())
            elif op == "save_new":
                a = act(op, addr=rng.choice(addrs), patch=rpatch())
            elif op == "match_attr":
                if rng.random() < 0.5:
                    a = act(op, key="address_in", val=rng.choice(addrs))
                else:
                    a = act(op, key="callsign", val=rng.choice(strs))
            elif op == "match_ip":
                a = act(op, addr=(rng.choice(["ip1", "ip2", "ip3", "ip4", "ip9"]), 1))
            elif op == "match_uuid":
                a = act(op, id=rng.choice([i, nrec + 1]))
            elif op == "attr_read":
                a = act(op, id=i, key=rng.choice(KEYS))
            elif op == "attr_write":
                k = rng.choice(KEYS)
                a = act(op, id=i, key=k, val=rng.choice(addrs + [None]) if k in BUILTIN else rng.choice(["x", "y", "z", None]))
            else:
                a = act(op, id=i, key=rng.choice(KEYS))
        ev.append(sut.apply(a))
    return {"init": [], "ev": ev}


CFG = """SPECIFICATION Spec
CONSTANTS
  MaxDepth = {depth}
  MaxRecs = {recs}
PROPERTY StepProperty
CONSTRAINT Bound
VIEW View
ACTION_CONSTRAINT Edge
CHECK_DEADLOCK FALSE
"""


def judge(ctx, traces, rejects, origin):
    for tid, l, why in rejects:
        t = traces[tid]
        e = t["ev"][l - 1]
        key = f"storage/{e['act']['op']}/{why}"
        ctx.violation(key, f"{origin}: step {l} op={e['act']['op']} breaks {why}",
                      {"trace": {"init": t["init"], "ev": t["ev"][:l]}, "clause": why, "origin": origin})


def run(ctx):
    ctx.rule = ("TLC enumerates every transition of the bounded storage model (3 addresses, 9 patches, "
                "all operations); each is replayed on a real RepeaterStorage built in the source state and "
                "the observed step is judged by TLC against the property predicates; plus random histories "
                "recorded from the real object. distinct = distinct (state, action) pairs / event digests.")
    ctx.assumptions += [
        "patching 'id' or a method name is outside the alphabet (documented read-only)",
        "actions naming a record use an object the caller obtained from the storage",
        "raising on 'patch of nothing found' / delete_attr of a missing key is outside the statement (drift only)",
    ]
    depth, recs = (3, 2) if ctx.quick else (4, 2)        # (4, 3) is some 400 000 edges: hours and tens of gigabytes since records carry eight members
    with open(os.path.join(ctx.rundir, "MC_Storage_run.cfg"), "w") as f:
        f.write(CFG.format(depth=depth, recs=recs))
    res = core.run_tlc(ctx, "MC_Storage", "MC_Storage_run.cfg", timeout=3000, workers=1)
    if res.violated:
        # design-level counterexample: the design model mirrors the code, so reproduce on the code below
        ctx.note("design_counterexample", res.violated)
    edges = core.parse_printed_json(res, tag="EDGE")
    if len(edges) < 100:
        raise core.MachineryError(f"edge dump too small: {len(edges)}")
    core.edge_label_coverage(ctx, edges, lambda e: e["act"]["op"] + ("/create" if e["act"]["op"] == "match_incoming" and e["act"]["auto"] else ""), "storage", 11)
    ctx.note("edges", len(edges))
    ctx.exhaustive = True
    # ---- spec -> code: replay every edge (streamed in chunks: a trace carries the whole projected storage after every step)
    seen = set()
    sampled = [False]
    ntr = [0]

    def flush(part, unbuilt):
        if not part:
            return
        if not sampled[0]:
            ctx.sample({"replayed_edge": part[len(part) // 2]})
            sampled[0] = True
        rej = ctx.validate_traces("Trace_Storage", "Trace_Storage.cfg", part)
        judge(ctx, part, rej, "edge replay")
        rejected = {tid for tid, _, _ in rej}
        if any(i not in rejected for i in unbuilt):
            raise core.MachineryError("a source state could not be constructed although TLC accepts every set-up step")
        ntr[0] += len(part)

    part, unbuilt = [], []
    for e in edges:
        k = core.digest([e["from"], e["act"]])
        if k in seen:
            continue
        seen.add(k)
        sut = Sut()
        pre = sut.build(e["from"])
        built = sut.project() == e["from"]
        if not built:
            unbuilt.append(len(part))      # TLC must reject the set-up steps of this trace; checked in flush
            part.append({"init": [], "ev": pre})
        else:
            part.append({"init": [], "ev": pre + [sut.apply(e["act"])]})
        ctx.count(k if e["act"]["op"] != "match_uuid" or e["from"] else None)
        if len(part) >= 4000:
            flush(part, unbuilt)
            part, unbuilt = [], []
    flush(part, unbuilt)
    ctx.note("edges_replayed", ntr[0])
    many_addresses(ctx)
    # ---- code -> spec: random histories (streamed: every step carries the whole projected storage)
    n, ln = (400, 60) if ctx.quick else (3000, 200)
    done = 0
    while done < n:
        part = []
        for _ in range(min(250, n - done)):
            h = random_history(ctx.rng, ctx.rng.randrange(5, ln))
            part.append(h)
            ctx.count(core.digest(h["ev"][-1]), len(h["ev"]))
        if done == 0:
            ctx.sample({"random_history_prefix": part[0]["ev"][:3]})
        rej = ctx.validate_traces("Trace_Storage", "Trace_Storage.cfg", part)
        judge(ctx, part, rej, "random history")
        done += len(part)


def many_addresses(ctx):
    """one long history beyond the small pool: N distinct addresses auto-created, then each looked up again"""
    import json
    from okdmr.dmrlib.storage.repeater_storage import RepeaterStorage
    n = 2500 if ctx.quick else 12000
    st = RepeaterStorage()
    addrs = [("10.%d.%d.%d" % (k >> 16 & 255, k >> 8 & 255, k & 255), 50000 + k % 7) for k in range(n)]
    objs, first = [], []

    def index(o):
        if o is None:
            return 0
        for i, x in enumerate(objs):
            if x is o:
                return i + 1
        return -next((i + 1 for i, x in enumerate(objs) if x.id == o.id), 99999999)
    ident = {}
    for a in addrs:
        o = st.match_incoming(a, auto_create=True)
        if o is not None and id(o) not in ident:
            objs.append(o)
            ident[id(o)] = len(objs)
        first.append(ident.get(id(o), 0) if o is not None else 0)
    fast = lambda o: 0 if o is None else ident.get(id(o)) or index(o)
    again = [fast(st.match_incoming(a)) for a in addrs]
    againauto = [fast(st.match_incoming(a, auto_create=True)) for a in addrs]
    data = {"n": n, "first": first, "again": again, "againauto": againauto, "len": len(st)}
    path = os.path.join(ctx.rundir, "c20_many.json")
    json.dump(data, open(path, "w"))
    ctx.count("many-addresses", 3 * n)
    res = core.run_tlc(ctx, "MC_StorageMany", "MC_StorageMany.cfg", env={"DATA_FILE": path}, timeout=900)
    if not res.ok or res.distinct < n:
        raise core.MachineryError(f"TLC did not judge the long history ({res.distinct} < {n})")
    groups = {}
    for v in core.parse_printed_json(res, tag="REJECT"):
        groups.setdefault(v["why"], []).append(v["idx"])
    for why, idxs in sorted(groups.items()):
        ctx.violation(f"storage/many-addresses/{why}", f"{n} distinct addresses auto-created and looked up again: {why} fails for {len(idxs)} addresses, "
                      f"first the {min(idxs)}-th", {"clause": why, "count": len(idxs), "first_index": min(idxs), "n": n, "origin": "many addresses"})


def replay(ctx, rec):
    if rec["record"].get("origin") == "many addresses":
        many_addresses(ctx)
        return ctx.finish()
    t = rec["record"]["trace"]
    sut = Sut()
    sut.build(t["init"])
    ev = [sut.apply(e["act"]) for e in t["ev"]]
    rej = ctx.validate_traces("Trace_Storage", "Trace_Storage.cfg", [{"init": t["init"], "ev": ev}])
    if rej:
        print(f"VIOLATION property=C20 replay={rec.get('path', '(given)')} why={rej[0][2]}")
        return 1
    print("replay: property holds on this trace")
    return 0
