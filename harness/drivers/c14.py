"""C14 — MBXML variable-length integers and floats decode to what was encoded.
spec/MBXMLVar.tla (canonical septet forms as the oracle, reader as a state machine, info-time layout) + MC_MBXMLVar.tla:
TLC checks Read(Canonical(v)) = v on all values up to 2^16 and the septet boundaries (design) and judges observed
write_* / read_* calls: dense sweep, septet-length boundaries, multiples of 128^k, random 32-bit values, fractions k/128^p."""
import json
import os

from harness import core, gen


def pair(v):
    return [(v >> 16) & 0xFFFF, v & 0xFFFF]


def boundaries():
    vals = set()
    for k in range(1, 5):
        for d in (-1, 0, 1):
            vals.add(128 ** k + d)
        for m in (1, 2, 3, 63, 64, 65, 127, 128, 129, 255, 256, 1000, 16383, 16384):
            vals.add(m * 128 ** k)
            vals.add(m * 128 ** k + 1)
            vals.add(m * 128 ** k - 1)
    for s in (6, 7, 13, 14, 20, 21, 27, 28, 31, 32):
        for d in (-1, 0, 1):
            vals.add((1 << s) + d)
    vals.update([0, 1, 63, 64, 65, 127, 128, 129, 2 ** 31 - 1, 2 ** 31, 2 ** 32 - 2, 2 ** 32 - 1])
    return sorted(v for v in vals if 0 <= v <= 2 ** 32 - 1)


def run(ctx):
    ctx.rule = ("unsigned: dense sweep 0..2^15 (thorough 2^21), all septet-length boundaries, m*128^k, random 32-bit values; signed: the same "
                "magnitudes up to 2^31-1 with both signs and negative zero; floats i + k/128^p for p = 1..3 incl. negative fractions with "
                "zero integer part; coordinates on the 1e-6 grid; date-times incl. month / leap boundaries. TLC compares written octets with "
                "the canonical form and read-back value / index. distinct = distinct values.")
    ctx.assumptions += [
        "floats are generated exactly representable (i + k/128^p); their round trip is compared as doubles by the harness, the octets against the canonical form by TLC",
        "coordinate writers accept non-negative values only (to_bytes unsigned): latitude 0..90, longitude 0..360 (exclusive); the float scaling is judged on the code by the decoding formula of the XML view, no design-level transfer (double rounding is not modelled)",
    ]
    core.setup_repo_path()
    import datetime
    import random
    from bitarray.util import ba2int
    from okdmr.dmrlib.motorola.mbxml import MBXML
    from okdmr.dmrlib.utils.bits_bytes import bytes_to_bits
    rng = random.Random(ctx.seed)
    bnd = boundaries()
    dense = 1 << (15 if ctx.quick else 20)
    uvals = list(range(dense)) + bnd + [rng.getrandbits(32) for _ in range(20000 if ctx.quick else 200000)]
    U, S, F, GEO, TIME = [], [], [], [], []
    for v in uvals:
        r = {"v": pair(v), "w": [], "r": [0, 0], "idx": -1, "err": ""}
        try:
            w = MBXML.write_uintvar(v)
            r["w"] = list(w)
            val, idx = MBXML.read_uintvar(w + b"\xaa\x55", 0)
            r["r"], r["idx"] = pair(val & 0xFFFFFFFF) if val < 2 ** 32 else [65535, 65535], idx
            if val >= 2 ** 32 or val != v:
                r["r"] = pair(val & 0xFFFFFFFF) if val < 2 ** 32 else [-1, -1]
        except Exception as ex:  # noqa
            r["err"] = type(ex).__name__
        U.append(r)
        ctx.count(f"u{v}")
    svals = [v for v in list(range(1 << (12 if ctx.quick else 16))) + bnd + [rng.getrandbits(31) for _ in range(10000 if ctx.quick else 100000)]
             if v <= 2 ** 31 - 1]
    for v in svals:
        for neg in (False, True):
            r = {"v": pair(v), "neg": neg, "w": [], "r": [0, 0], "rneg": False, "idx": -1, "err": ""}
            try:
                w = MBXML.write_sintvar(-v if neg else v, negative_zero=(neg and v == 0))
                r["w"] = list(w)
                val, idx, sign = MBXML.read_sintvar(w + b"\xaa\x55", 0)
                r["r"] = pair(abs(val)) if abs(val) < 2 ** 32 else [-1, -1]
                r["rneg"], r["idx"] = (sign < 0), idx
                if abs(val) != v:
                    r["r"] = pair(abs(val) & 0xFFFFFFFF) if abs(val) < 2 ** 32 else [-1, -1]
            except Exception as ex:  # noqa
                r["err"] = type(ex).__name__
            S.append(r)
            ctx.count(f"s{v}{neg}")
    # integer parts up to the top of the 32-bit range: with 21 fraction bits such a value uses all 53 bits of a double, where
    # "+ 0.5 then truncate" is an exact tie
    ints = ([0, 1, 37, 63, 64, 127, 128, 160, 16383, 16384, 2 ** 21, 2 ** 31 - 1, 2 ** 31, 2 ** 31 + 1, 2 ** 32 - 2, 2 ** 32 - 1]
            + [rng.getrandbits(rng.choice([4, 8, 16, 31, 32, 32])) for _ in range(300 if ctx.quick else 3000)])
    for i in ints:
        for p in (1, 2, 3):
            ks = {0, 1, 2, 63, 64, 127, 128 ** p - 1, 128 ** p // 2} | {128 ** (p - 1) * m for m in (1, 7, 64, 127)} | {rng.randrange(128 ** p) for _ in range(6)}
            for k in sorted(x for x in ks if 0 <= x < 128 ** p):
                for signed in (False, True):
                    for neg in ((False, True) if signed else (False,)):
                        if neg and i == 0 and k == 0:
                            continue
                        if not signed and i > 2 ** 32 - 1:
                            continue
                        if signed and i > 2 ** 31 - 1:
                            continue               # the signed writer asserts |integer part| < 2^31
                        x = i + k / 128 ** p
                        x = -x if neg else x
                        r = {"v": pair(i), "k": k, "p": p, "signed": signed, "neg": neg, "w": [], "idx": -1, "back_equal": False, "err": ""}
                        try:
                            if (i + k) % 5 == 4:
                                with gen.ambient_numeric_context():
                                    w = MBXML.write_sfloatvar(x, p) if signed else MBXML.write_ufloatvar(x, p)
                            else:
                                w = MBXML.write_sfloatvar(x, p) if signed else MBXML.write_ufloatvar(x, p)
                            r["w"] = list(w)
                            val, idx = (MBXML.read_sfloatvar if signed else MBXML.read_ufloatvar)(w + b"\xaa\x55", 0)
                            r["idx"], r["back_equal"] = idx, bool(val == x)
                        except Exception as ex:  # noqa
                            r["err"] = type(ex).__name__
                        F.append(r)
                        ctx.count(f"f{i}/{k}/{p}/{signed}/{neg}")
    # outside the statement (it names no coordinate domain): what the writers do with southern / western coordinates
    neg = []
    for fn, v in ((MBXML.write_latitude, -12.345345), (MBXML.write_latitude, -0.000001), (MBXML.write_longitude, -73.935242), (MBXML.write_longitude, -180.0)):
        try:
            neg.append(fn(v).hex())
        except Exception as ex:  # noqa
            neg.append(type(ex).__name__)
    if all(x == "OverflowError" for x in neg):
        ctx.outside("MBXML coordinate writers refuse negative latitudes / longitudes (OverflowError: the fields are written and, in the XML view, read as "
                    "unsigned numbers), so southern and western positions cannot be expressed; C14 asks that the writers be inverted by the view's "
                    "formulas and names no coordinate domain - the check covers latitude 0..90 and longitude 0..360")
    else:
        ctx.note("negative_coordinates", neg)
    # coordinates on the 1e-6 grid
    n = 4000 if ctx.quick else 100000
    lat_grid = [0, 1, 2, 45_000_000, 89_999_999, 90_000_000, 12_345_345] + [rng.randrange(0, 90_000_001) for _ in range(n)]
    lon_grid = [0, 1, 2, 24_668_866, 180_000_000, 359_999_999] + [rng.randrange(0, 360_000_000) for _ in range(n)]
    # the XML view is the library's own (MBXMLDocument.as_xml of a report carrying the coordinates in a point-2d, circle-2d or
    # point-3d element), not a formula of the harness
    import re
    from copy import copy
    from okdmr.dmrlib.motorola.lrrp import LRRP
    from okdmr.dmrlib.motorola.mbxml import MBXMLDocument, MBXMLDocumentIdentifier, MBXMLTokenType
    rep_id = MBXMLDocumentIdentifier.LRRP_ImmediateLocationReport_NCDT
    rep_cfg = LRRP.get_configuration(rep_id)

    def xml_view(tid, value):
        doc = MBXMLDocument(document_id=rep_id, elements_config=rep_cfg[MBXMLTokenType.ELEMENT_TOKEN], attributes_config=rep_cfg[MBXMLTokenType.ATTRIBUTE_TOKEN])
        t = copy(rep_cfg[MBXMLTokenType.ELEMENT_TOKEN][tid])
        t.token_id, t.value = tid, value
        doc.parts.append(t)
        return doc.as_xml()

    for k, (mlat, mlon) in enumerate(zip(lat_grid, lon_grid)):
        lat, lon = mlat / 1e6, mlon / 1e6
        rl = {"kind": "lat", "micro": pair(mlat), "back_equal": False, "err": ""}
        ro = {"kind": "lon", "micro": pair(mlon), "back_equal": False, "err": ""}
        try:
            if k % 4 == 3:
                # one coordinate pair in four is written by an application with numeric settings of its own (a decimal context of
                # five digits rounding up, numpy raising on floating-point errors): the four octets do not depend on them
                with gen.ambient_numeric_context():
                    wl, wo = MBXML.write_latitude(lat), MBXML.write_longitude(lon)
            else:
                wl, wo = MBXML.write_latitude(lat), MBXML.write_longitude(lon)
            tid, value = [(0x66, (wl, wo)), (0x51, (wl, wo, 12.5)), (0x69, (wl, wo, -3.25))][k % 3]
            xml = xml_view(tid, value)
            rl["back_equal"] = bool(float(re.search(r"<lat>([^<]+)</lat>", xml).group(1)) == round(lat, 6))
            ro["back_equal"] = bool(float(re.search(r"<long>([^<]+)</long>", xml).group(1)) == round(lon, 6))
        except Exception as ex:  # noqa
            rl["err"] = ro["err"] = type(ex).__name__
        GEO += [rl, ro]
        ctx.count(f"glat{mlat}")
        ctx.count(f"glon{mlon}")
    # date-times
    times = [datetime.datetime(2000, 1, 1, 0, 0, 0), datetime.datetime(2099, 12, 31, 23, 59, 59), datetime.datetime(2003, 6, 30, 7, 30, 0),
             datetime.datetime(2024, 2, 29, 12, 0, 1), datetime.datetime(2023, 2, 28, 23, 59, 59), datetime.datetime(2000, 12, 31, 0, 0, 59)]
    start = datetime.datetime(2000, 1, 1)
    span = int((datetime.datetime(2100, 1, 1) - start).total_seconds())
    times += [start + datetime.timedelta(seconds=rng.randrange(span)) for _ in range(3000 if ctx.quick else 60000)]
    for t in times:
        r = {"y": t.year, "mo": t.month, "d": t.day, "h": t.hour, "mi": t.minute, "s": t.second, "w": [], "back_equal": False, "err": ""}
        try:
            arg = rng.choice([t, t.strftime("%Y%m%d%H%M%S"), int(t.strftime("%Y%m%d%H%M%S"))])
            w = MBXML.write_infotime(arg)
            r["w"] = list(w)
            txt = re.search(r"<info-time>([^<]+)</info-time>", xml_view(0x34, w)).group(1)
            r["back_equal"] = txt == t.strftime("%Y%m%d%H%M%S")
        except Exception as ex:  # noqa
            r["err"] = type(ex).__name__
        TIME.append(r)
        ctx.count(f"t{t}")
    ctx.sample({"uintvar": U[300], "sintvar": S[131], "float": F[50], "time": TIME[2]})
    src = {"u": U, "s": S, "f": F, "geo": GEO, "time": TIME}
    total = sum(len(v) for v in src.values())
    nchunks = max(1, (total + 299999) // 300000)         # TLC judges at most ~300 000 records per run (memory)
    groups, drift = {}, {}
    ctx.traces_validated = 0
    for j in range(nchunks):
        part = {k: v[j::nchunks] for k, v in src.items()}
        data = {"boundaries": [pair(v) for v in bnd]}
        data.update(part)
        path = os.path.join(ctx.rundir, f"c14_data_{j}.json")
        json.dump(data, open(path, "w"))
        res = core.run_tlc(ctx, "MC_MBXMLVar", "MC_MBXMLVar.cfg", env={"DATA_FILE": path}, timeout=2400, jvm=("-Xss256m",))
        os.unlink(path)
        want = 65536 + len(bnd) + sum(len(v) for v in part.values())
        if not res.ok or res.distinct < want:
            raise core.MachineryError(f"TLC did not judge all items ({res.distinct} < {want})")
        ctx.traces_validated += want - 65536 - len(bnd)
        for v in core.parse_printed_json(res, tag="REJECT"):
            groups.setdefault((v["phase"], v["why"]), []).append(part[v["phase"]][v["idx"]])
        for v in core.parse_printed_json(res, tag="DRIFT"):
            drift.setdefault((v["phase"], v["why"]), []).append(v["idx"])
    for (ph, why), items in sorted(groups.items()):
        sub = ""
        if ph == "u":
            vals = [(x["v"][0] << 16) | x["v"][1] for x in items]
            sub = "/multiples-of-128" if all(v % 128 == 0 for v in vals) else "/other"
        if ph == "s":
            sub = "/leading-septet-bit-6" if all(len(x["w"]) and (x["w"][0] & 0x40 or not x["neg"]) for x in items) else "/other"
        ctx.violation(f"mbxml-var/{why}{sub}", f"{why}: {len(items)} values, first {json.dumps(items[0])}", {"count": len(items), "first": items[:3]})
    for (ph, why), idxs in sorted(drift.items()):
        ctx.model_drift(f"{ph}: {why} ({len(idxs)} items)")


def replay(ctx, rec):
    print("replay: re-running the check (values are regenerated from the seed)")
    run(ctx)
    return ctx.finish()
