"""C08 — transmission tracking emits well-formed start/end events for any burst sequence.
spec/Transmission.tla (design model + property monitor), MC_Transmission (exhaustive bounded
exploration, edge dump -> transition tours replayed on a real Terminal), Trace_Transmission
(TLC judges every recorded execution)."""
import contextlib
import io
import json
import os
from multiprocessing import Pool

from harness import core, gen

_tok = [0]


def _token_bytes(n=4):
    _tok[0] += 1
    return _tok[0].to_bytes(n, "big")


def patch_tokens():
    import secrets
    secrets.token_bytes = _token_bytes


class ObserverAbort(BaseException):
    """what an observer may raise that is not an Exception (like asyncio.CancelledError or SystemExit from a callback)"""


class Recorder:
    def __init__(self, sut, raising):
        """raising: False, True (RuntimeError / ValueError) or "base" (an exception outside the Exception hierarchy)"""
        from okdmr.dmrlib.transmission.transmission_observer_interface import TransmissionObserverInterface
        Err1 = ObserverAbort if raising == "base" else RuntimeError
        Err2 = ObserverAbort if raising == "base" else ValueError

        class Obs(TransmissionObserverInterface):
            def transmission_started(o, transmission_type):
                self.ev.append({"e": "started", "k": kind(transmission_type), "hk": "None", "hid": 0, "blocks": []})
                if raising:
                    raise Err1("observer raises")

            def data_transmission_ended(o, transmission_header, blocks):
                self.ev.append(ended("Data", transmission_header, blocks))
                if raising:
                    raise Err1("observer raises")

            def voice_transmission_ended(o, voice_header, blocks):
                self.ev.append(ended("Voice", voice_header, blocks))
                if raising:
                    raise Err2("observer raises")

        self.ev = []
        self.obs = Obs()


def kind(t):
    return {"VoiceTransmission": "Voice", "DataTransmission": "Data", "Idle": "Idle"}[t.name]


def ident(obj):
    """burst id carried by a PDU object (header / CSBK / rate block)"""
    n = type(obj).__name__
    if n == "FullLinkControl":
        op = obj.full_link_control_opcode.name
        if op == "GPSInfo":
            return int(round(obj.longitude / (360 / 2 ** 25)))
        if op.startswith("TalkerAlias"):
            d = bytes(obj.talker_alias_data)
            return int.from_bytes(d[1:3], "big") if len(d) >= 3 and d[0] == 0xA5 else -1
        return obj.source_address
    if n == "DataHeader":
        return obj.llid_source
    if n == "CSBK":
        return obj.source_address
    if n in ("Rate12Data", "Rate34Data", "Rate1Data"):
        return gen.find_marker(obj.data, obj.is_confirmed())
    return -1


def hkind(h):
    n = type(h).__name__
    return {"FullLinkControl": "FLC", "DataHeader": "DH", "NoneType": "None"}.get(n, n)


def ended(k, header, blocks):
    return {"e": "ended", "k": k, "hk": hkind(header), "hid": ident(header) if header is not None else 0,
            "blocks": [ident(x) for x in blocks]}


class Sut:
    def __init__(self, rng, observers=(False,)):
        from okdmr.dmrlib.transmission.terminal import Terminal
        patch_tokens()
        _tok[0] = 0
        self.rng = rng
        self.recs = [Recorder(self, r) for r in observers]
        self.term = Terminal(dmrid=1, observers=[r.obs for r in self.recs])
        self.n = 0

    def project(self):
        out = []
        for i in (1, 2):
            ts = self.term.timeslots[i]
            tx = ts.transmission
            out.append({
                "tx": {"type": kind(tx.type),
                       "hdr": {"kind": hkind(tx.header), "id": ident(tx.header) if tx.header is not None else 0},
                       "blocks": [ident(x) for x in tx.blocks],
                       "expected": tx.blocks_expected, "received": tx.blocks_received,
                       "confirmed": bool(tx.confirmed),
                       "lastVoice": tx.last_voice_burst.name.replace("VoiceBurst", ""),
                       "stream": int.from_bytes(tx.stream_no, "big")},
                "rx": ts.rx_sequence, "reset": bool(ts.reset_rx_sequence), "colour": ts.colour_code})
        return {"slots": out, "tok": _tok[0]}

    def build(self, b):
        """concrete 33 bytes (+ burst type) for the abstract burst b"""
        from okdmr.dmrlib.etsi.layer2.elements.burst_types import BurstTypes
        from okdmr.dmrlib.etsi.layer2.elements.data_types import DataTypes
        from okdmr.dmrlib.etsi.layer2.elements.sap_identifier import SAPIdentifier
        rng, cls, i, cc = self.rng, b["cls"], b["id"], b["cc"]
        sync = rng.choice(gen.DATA_SYNCS)
        D = BurstTypes.DataAndControl
        if cls in ("VH", "TERM"):
            # a voice LC header / terminator carries any full link control: voice channel users mostly, but also talker alias
            # (arbitrary octets, not only ASCII) and GPS info
            k = rng.random()
            lc = gen.full_lc_voice(rng, i, group=rng.random() < 0.5) if k < 0.75 else gen.full_lc_other(rng, "ta" if k < 0.9 else "gps", ident=i)
            return gen.assemble_data_burst(lc, DataTypes.VoiceLCHeader if cls == "VH" else DataTypes.TerminatorWithLC, cc, sync), D
        if cls == "VS":
            return gen.voice_sync_burst(rng), BurstTypes.Vocoder
        if cls == "VE" and cc < 0:
            # a voice burst B..F whose centre is the Reserved SYNC pattern: no superframe start, no EMB, no colour code (cc -1) - for
            # the tracker it is a voice burst like the ones with embedded signalling
            return gen.voice_sync_burst(rng, "Reserved"), BurstTypes.Vocoder
        if cls == "VE":
            return gen.voice_emb_burst(rng, colour_code=cc, pi=rng.getrandbits(1), lcss=rng.randrange(4)), BurstTypes.Vocoder
        if cls == "DH":
            fmts = ["C", "U", "R", "S"] if b["btf"] > 0 else ["C", "U", "R", "S", "T"]
            fmt = rng.choice(fmts)
            if fmt == "R" and b["a"]:
                fmt = "C"  # the response header has no A bit to serialise
            btf = b["btf"]
            if fmt == "S" and btf > 63:
                fmt = "U"  # appended_blocks is a 6-bit field
            sap = SAPIdentifier.UDP_IP_compression if b.get("udp") else None
            h = gen.data_header(rng, fmt, btf=btf, a=b["a"], llid_source=i, sap=sap)
            return gen.assemble_data_burst(h, DataTypes.DataHeader, cc, sync), D
        if cls == "PRE":
            return gen.assemble_data_burst(gen.preamble_csbk(rng, b["btf"], source_address=i), DataTypes.CSBK, cc, sync), D
        if cls == "CSBK":
            return gen.assemble_data_burst(gen.other_csbk(rng, source_address=i), DataTypes.CSBK, cc, sync), D
        if cls in ("R12", "R34", "R1"):
            dt = {"R12": DataTypes.Rate12Data, "R34": DataTypes.Rate34Data, "R1": DataTypes.Rate1Data}[cls]
            data = gen.rate_block_bytes(rng, cls, i, udpz=bool(b.get("udpz")))
            return gen.assemble_data_burst(gen.rate_block(cls, data), dt, cc, sync), D
        if cls == "OTHER":
            dt = rng.choice([DataTypes.Idle, DataTypes.MBCHeader, DataTypes.MBCContinuation,
                             DataTypes.UnifiedSingleBlockData, DataTypes.PIHeader])
            return gen.raw_data_burst(gen.rbits(rng, 96), dt, cc, sync), D
        raise core.MachineryError(f"unknown burst class {cls}")

    def step(self, ts, b, op="burst"):
        from okdmr.dmrlib.etsi.layer2.burst import Burst
        self.n += 1
        b = dict(b)
        b["id"] = self.n
        for r in self.recs:
            r.ev.clear()
        out = {"ev": [], "label": "Unknown", "seq": 0, "stream": 0, "outcome": "ok"}
        sink = io.StringIO()
        raw = None
        try:
            with contextlib.redirect_stdout(sink):
                if op == "burst":
                    raw, bt = self.build(b)
                    # "parseable burst": every third one is parsed from its 33 octets alone, as a receiver without a transport's
                    # burst-type hint does (Burst.from_bytes(x)), the others with the hint an IPSC / MMDVM frame would supply
                    burst = Burst.from_bytes(raw) if self.n % 3 == 1 else Burst.from_bytes(raw, burst_type=bt)
                    res = self.term.process_incoming_burst(burst, ts)
                    out["label"] = res.voice_burst.name.replace("VoiceBurst", "")
                    out["seq"] = res.sequence_no
                    out["stream"] = int.from_bytes(res.stream_no, "big")
                else:
                    self.term.timeslots[ts].transmission.end_transmissions()
                    out["stream"] = int.from_bytes(self.term.timeslots[ts].transmission.stream_no, "big")
        except (Exception, ObserverAbort) as ex:  # noqa
            out["outcome"] = "raise:" + type(ex).__name__
        out["ev"] = list(self.recs[0].ev)
        ab = {"cls": b["cls"], "id": b["id"], "btf": b["btf"], "a": bool(b["a"]), "cc": b["cc"]}
        return {"ts": ts, "op": op, "b": ab, "out": out, "post": self.project(),
                "obs": [list(r.ev) for r in self.recs], "raw": raw.hex() if raw else ""}


IPSC_WAKEUP_NO_TARGET = ("5a5a5a5a0000000042000501020000002222dddd555500004000000000000000000000000100020002000100000000000000"
                         "000000000000ffffef082a00000000000000fb372300")


class WSut(Sut):
    """the same concrete bursts fed through a real TransmissionWatcher (one Terminal per target radio id)"""

    def __init__(self, rng, observers=(False,)):
        from okdmr.dmrlib.transmission.transmission_watcher import TransmissionWatcher
        patch_tokens()
        _tok[0] = 0
        self.rng = rng
        self.recs = [Recorder(self, r) for r in observers]
        self.watcher = TransmissionWatcher(observers=[r.obs for r in self.recs])
        self.n = 0

    def project(self):
        terms = []
        for tid, term in self.watcher.terminals.items():
            self.term = term
            terms.append({"id": tid, "slots": Sut.project(self)["slots"]})
        return {"terms": terms, "tok": _tok[0]}

    def wstep(self, tgt, ts, b, op):
        """op: burst (target id set as a transport frame would), guess (target left to the burst's own header field),
        notarget (target 0, nothing to guess from), endall"""
        from okdmr.dmrlib.etsi.layer2.burst import Burst
        self.n += 1
        b = dict(b)
        b["id"] = self.n
        for r in self.recs:
            r.ev.clear()
        out = {"ev": [], "label": "Unknown", "seq": 0, "stream": 0, "outcome": "ok"}
        returned = False
        try:
            with contextlib.redirect_stdout(io.StringIO()), contextlib.redirect_stderr(io.StringIO()):
                if op == "endall":
                    self.watcher.end_all_transmissions()
                else:
                    if op == "guess":
                        raw, bt = self.build_to(b, tgt)
                    else:
                        raw, bt = self.build(b)
                    burst = Burst.from_bytes(raw) if self.n % 3 == 1 else Burst.from_bytes(raw, burst_type=bt)
                    burst.timeslot = ts
                    if op == "burst":
                        burst.target_radio_id = tgt
                    if op == "notarget" and self.n % 3 == 0:
                        # a target-less burst of the transport's own kind: the IPSC wake-up frame documented in the library's
                        # HyteraIPSCWakeup docstring (destination id 0) - dropped like every burst nobody is the target of
                        burst = Burst.from_hytera_ipsc(bytes.fromhex(IPSC_WAKEUP_NO_TARGET))
                    res = self.watcher.process_burst(burst)
                    if res is not None:
                        returned = True
                        out["label"] = res.voice_burst.name.replace("VoiceBurst", "")
                        out["seq"] = res.sequence_no
                        out["stream"] = int.from_bytes(res.stream_no, "big")
        except Exception as ex:  # noqa
            out["outcome"] = "raise:" + type(ex).__name__
        out["ev"] = list(self.recs[0].ev)
        ab = {"cls": b["cls"], "id": b["id"], "btf": b["btf"], "a": bool(b["a"]), "cc": b["cc"]}
        return {"tgt": tgt, "ts": ts, "op": "burst" if op == "guess" else op, "b": ab, "out": out, "post": self.project(),
                "obs": [list(r.ev) for r in self.recs], "returned": returned}

    def build_to(self, b, tgt):
        """a data header / preamble CSBK whose own destination field names the target"""
        from okdmr.dmrlib.etsi.layer2.elements.burst_types import BurstTypes
        from okdmr.dmrlib.etsi.layer2.elements.data_types import DataTypes
        rng, i, cc = self.rng, b["id"], b["cc"]
        sync = rng.choice(gen.DATA_SYNCS)
        if b["cls"] == "DH":
            fmt = rng.choice(["C", "U"]) if not b["a"] else "C"
            h = gen.data_header(rng, fmt, btf=b["btf"], a=b["a"], llid_source=i, llid_destination=tgt)
            return gen.assemble_data_burst(h, DataTypes.DataHeader, cc, sync), BurstTypes.DataAndControl
        return gen.assemble_data_burst(gen.preamble_csbk(rng, b["btf"], source_address=i, target_address=tgt), DataTypes.CSBK, cc, sync), BurstTypes.DataAndControl


def run_whistory(args):
    """worker: replay one abstract watcher history [(tgt, ts, op, b)] on a fresh TransmissionWatcher"""
    seed, observers, steps = args
    import random
    core.setup_repo_path()
    sut = WSut(random.Random(seed), observers)
    return {"init": {}, "ev": [sut.wstep(tgt, ts, b or NOB, op) for tgt, ts, op, b in steps]}


def random_whistory(rng, n):
    """interleaved traffic towards 2..4 targets on both timeslots, some bursts without a target, occasional end_all"""
    targets = rng.sample([1, 2, 77, 2 ** 24 - 1, 1234567, 9990], rng.randrange(2, 5))
    cc = rng.randrange(16)
    steps = []

    def letter(cls, **kw):
        b = {"cls": cls, "id": 0, "btf": 0, "a": False, "cc": cc}
        b.update(kw)
        if cls == "VE" and rng.random() < 0.125:
            b["cc"] = -1          # one voice burst in eight has the Reserved SYNC pattern in its centre: it carries no colour code
        return b

    pending = {}      # (tgt, ts) -> queued letters of a well-formed fragment
    while len(steps) < n:
        r = rng.random()
        tgt, ts = rng.choice(targets), rng.choice([1, 2])
        if r < 0.03:
            steps.append((0, 1, "endall", None))
        elif r < 0.10:
            steps.append((0, ts, "notarget", letter(rng.choice(["VH", "TERM", "VS", "VE", "R12", "R34", "R1", "OTHER"]))))
        elif r < 0.16:
            cls = rng.choice(["DH", "PRE"])
            steps.append((tgt, ts, "guess", letter(cls, btf=rng.choice([0, 1, 2, 3]), a=cls == "DH" and rng.random() < 0.5)))
        else:
            q = pending.get((tgt, ts))
            if not q:
                k = rng.random()
                if k < 0.3:      # voice call
                    q = [letter("VH")] + [letter(c) for _ in range(rng.randrange(0, 3)) for c in ["VS"] + ["VE"] * 5]
                    if rng.random() < 0.7:
                        q.append(letter("TERM"))
                elif k < 0.6:    # data transmission
                    btf = rng.choice([1, 2, 3])
                    rate = rng.choice(["R12", "R34", "R1"])
                    q = [letter("PRE", btf=btf + 1)] * rng.choice([0, 1]) + [letter("DH", btf=btf, a=rng.random() < 0.5)] + \
                        [letter(rate) for _ in range(btf + rng.choice([0, 0, -1, 1]))]
                else:
                    q = [letter(rng.choice(["VH", "TERM", "VS", "VE", "DH", "PRE", "CSBK", "R12", "R34", "R1", "OTHER"]),
                                btf=rng.choice([0, 1, 2]))]
                pending[(tgt, ts)] = q
            steps.append((tgt, ts, "burst", q.pop(0)))
    return steps


def wjudge(ctx, traces, rejects, origin):
    for tid, l, why in rejects:
        t = traces[tid]
        e = t["ev"][l - 1]
        ctx.violation(f"watcher/{why}/{e['b']['cls'] if e['op'] != 'endall' else 'endall'}",
                      f"{origin} through TransmissionWatcher: step {l} (target {e['tgt']}, timeslot {e['ts']}, op {e['op']}, "
                      f"{e['b']['cls']}) breaks {why}; observed out={json.dumps(e['out'])}",
                      {"wsteps": t.get("steps"), "upto": l, "observers": t.get("observers"), "seed": t.get("seed"), "clause": why,
                       "origin": origin})


def watcher_phase(ctx):
    """growth beyond the per-terminal statement: the same tracker reached through TransmissionWatcher (spec/Watcher.tla)"""
    n, ln = (120, 150) if ctx.quick else (2000, 400)
    jobs = []
    for i in range(n):
        steps = random_whistory(ctx.rng, ctx.rng.randrange(10, ln))
        obs = tuple(ctx.rng.random() < 0.3 for _ in range(ctx.rng.randrange(1, 3)))
        jobs.append((ctx.seed * 104729 + i, obs, steps))
    with Pool(core.NCPU) as pool:
        hist = pool.map(run_whistory, jobs, chunksize=4)
    nev = 0
    for tr, j in zip(hist, jobs):
        tr["seed"], tr["observers"], tr["steps"] = j[0], list(j[1]), j[2]
        for e in tr["ev"]:
            e.pop("returned")
            nev += 1
            ctx.count(core.digest(["w", e["op"], e["b"]["cls"], e["out"]["ev"], len(e["post"]["terms"])]))
    ctx.note("watcher_histories", len(hist))
    ctx.note("watcher_steps", nev)
    ctx.sample({"watcher_history_prefix": hist[0]["ev"][:2]})
    for part in core.chunks(hist, 100):
        rej = ctx.validate_traces("Trace_Watcher", "Trace_Watcher.cfg", part)
        wjudge(ctx, part, rej, "random history")


NOB = {"cls": "OTHER", "id": 0, "btf": 0, "a": False, "cc": 0}


def run_history(args):
    """worker: replay one abstract history on a fresh terminal; returns the trace"""
    seed, observers, steps = args
    import random
    core.setup_repo_path()
    sut = Sut(random.Random(seed), observers)
    ev = []
    for ts, op, b in steps:
        e = sut.step(ts, b or NOB, op)
        e.pop("raw")
        ev.append(e)
    return {"init": {}, "ev": ev}


# ------------------------------------------------------------------ transition tours


def tours_from_edges(edges, max_len=60):
    """cover every dumped edge with walks from the initial state (greedy transition tour)."""
    def key(x):
        return json.dumps(x, sort_keys=True)
    succ = {}
    for e in edges:
        f, t = key(e["fv"]), key(e["tv"])
        succ.setdefault(f, []).append((e, t))
    init = None
    for e in edges:
        if e["finit"]:
            init = key(e["fv"])
            break
    if init is None:
        raise core.MachineryError("no edge leaves the initial state")
    uncovered = {f: list(range(len(v))) for f, v in succ.items()}
    remaining = sum(len(v) for v in uncovered.values())
    # BFS distances to the nearest state with uncovered edges are recomputed lazily
    tours = []
    import collections
    while remaining:
        cur, tour = init, []
        while len(tour) < max_len:
            if cur in uncovered and uncovered[cur]:
                k = uncovered[cur].pop()
                remaining -= 1
                e, t = succ[cur][k]
                tour.append(e)
                cur = t
                continue
            # navigate to the nearest state with uncovered edges
            prev = {cur: None}
            q = collections.deque([cur])
            goal = None
            while q:
                x = q.popleft()
                if x in uncovered and uncovered[x]:
                    goal = x
                    break
                for e, t in succ.get(x, []):
                    if t not in prev:
                        prev[t] = (x, e)
                        q.append(t)
            if goal is None:
                break
            path = []
            x = goal
            while prev[x] is not None:
                px, e = prev[x]
                path.append(e)
                x = px
            path.reverse()
            if len(tour) + len(path) >= max_len and tour:
                break
            tour.extend(path)
            cur = goal
        if not tour:
            raise core.MachineryError("tour construction stalled")
        tours.append(tour)
    return tours


CFG = """SPECIFICATION Spec
CONSTANTS
  GuardEndData = TRUE
  MaxDepth = {depth}
  Slots = {slots}
  Btfs = {btfs}
  WithEndAll = {endall}
INVARIANT PropertyHolds
INVARIANT TypeHeader
PROPERTY SlotsIndependent
CONSTRAINT Bound
VIEW View
ACTION_CONSTRAINT Edge
CHECK_DEADLOCK FALSE
"""


def judge(ctx, traces, rejects, origin):
    for tid, l, why in rejects:
        t = traces[tid]
        e = t["ev"][l - 1]
        prev = t["ev"][l - 2]["b"]["cls"] if l >= 2 else "-"
        key = f"tracker/{why}/{e['b']['cls'] if e['op'] == 'burst' else 'endall'}"
        ctx.violation(key, f"{origin}: step {l} ({prev} -> {e['b']['cls']}, op {e['op']}) breaks {why}; "
                           f"observed out={json.dumps(e['out'])}",
                      {"steps": [[x["ts"], x["op"], x["b"]] for x in t["ev"][:l]], "observers": t.get("observers"),
                       "seed": t.get("seed"), "clause": why, "origin": origin})


def random_history(rng, n):
    """abstract history: mixture of random letters and well-formed fragments (header + announced blocks,
    voice call with superframes), one or two timeslots, occasional end_all"""
    steps = []
    cc = rng.randrange(16)
    two = rng.random() < 0.5

    def letter(cls, **kw):
        b = {"cls": cls, "id": 0, "btf": 0, "a": False, "cc": cc if rng.random() < 0.9 else rng.randrange(16)}
        b.update(kw)
        if cls == "VE" and rng.random() < 0.125:
            b["cc"] = -1          # one voice burst in eight has the Reserved SYNC pattern in its centre: it carries no colour code
        return b

    while len(steps) < n:
        ts = rng.choice([1, 2]) if two else 1
        r = rng.random()
        if r < 0.02:
            steps.append((ts, "endall", None))
        elif r < 0.17:   # well-formed data transmission, possibly truncated / over-long
            btf = rng.choice([1, 1, 2, 3, 5])
            a, udp = rng.random() < 0.5, rng.random() < 0.5
            rate = rng.choice(["R12", "R12", "R34", "R1"])
            for k in range(rng.choice([0, 0, 1, 2])):
                steps.append((ts, "burst", letter("PRE", btf=btf + 1 + k)))
            steps.append((ts, "burst", letter("DH", btf=btf, a=a, udp=udp)))
            for k in range(btf + rng.choice([0, 0, 0, -1, 1])):
                steps.append((ts, "burst", letter(rate, udpz=rng.random() < 0.5)))
        elif r < 0.30:   # voice call
            steps.append((ts, "burst", letter("VH")))
            for sf in range(rng.randrange(0, 4)):
                steps.append((ts, "burst", letter("VS")))
                for k in range(rng.choice([5, 5, 5, 2, 7])):
                    steps.append((ts, "burst", letter("VE")))
            if rng.random() < 0.7:
                steps.append((ts, "burst", letter("TERM")))
        else:
            cls = rng.choices(["VH", "TERM", "VS", "VE", "DH", "PRE", "CSBK", "R12", "R34", "R1", "OTHER"],
                              weights=[8, 6, 8, 20, 8, 5, 4, 12, 6, 5, 3])[0]
            kw = {}
            if cls == "DH":
                kw = dict(btf=rng.choice([0, 1, 1, 2, 2, 3, 4, 7, 127]), a=rng.random() < 0.5, udp=rng.random() < 0.4)
            if cls == "PRE":
                kw = dict(btf=rng.choice([0, 1, 2, 3, 4, 5, 9, 255]))
            if cls in ("R12", "R34", "R1"):
                kw = dict(udpz=rng.random() < 0.3)
            steps.append((ts, "burst", letter(cls, **kw)))
    return steps[:n]


def long_history(rng, kind):
    """histories in which one transmission (or one idle stretch) outlasts the 8-bit receive sequence counter"""
    cc = rng.randrange(16)
    two = kind % 2 == 1

    def letter(cls, **kw):
        b = {"cls": cls, "id": 0, "btf": 0, "a": False, "cc": cc}
        b.update(kw)
        if cls == "VE" and rng.random() < 0.125:
            b["cc"] = -1          # one voice burst in eight has the Reserved SYNC pattern in its centre: it carries no colour code
        return b

    steps = []
    if kind in (0, 1):      # voice call of 45..50 superframes
        steps.append((1, "burst", letter("VH")))
        for sf in range(rng.randrange(45, 51)):
            steps.append((1, "burst", letter("VS")))
            for k in range(5):
                steps.append((1, "burst", letter("VE")))
                if two and rng.random() < 0.2:
                    steps.append((2, "burst", letter(rng.choice(["VH", "VS", "VE", "TERM", "CSBK"]))))
        steps.append((1, "burst", letter("TERM")))
    elif kind in (2, 3):    # idle stretch of signalling bursts, then a short call across the wrap-around
        for k in range(rng.randrange(240, 262)):
            steps.append((1, "burst", letter(rng.choice(["CSBK", "OTHER", "TERM"]))))
            if two and rng.random() < 0.2:
                steps.append((2, "burst", letter("VE")))
        steps.append((1, "burst", letter("VH")))
        for k in range(rng.randrange(10, 30)):
            steps.append((1, "burst", letter("VE")))
        steps.append((1, "burst", letter("TERM")))
    else:                   # longest data transmission the header can announce, unconfirmed rate 1/2, plus stray blocks
        steps.append((1, "burst", letter("DH", btf=127, a=False, udp=False)))
        for k in range(127 + rng.randrange(0, 4)):
            steps.append((1, "burst", letter("R12", udpz=False)))
        steps.append((1, "burst", letter("VH")))
        for k in range(140):
            steps.append((1, "burst", letter("VE")))
        steps.append((1, "burst", letter("TERM")))
    return steps


def run(ctx):
    ctx.rule = ("TLC explores the tracker design model (17-letter burst alphabet) to a depth bound; the dumped "
                "edges are covered by transition tours replayed on a real Terminal with concrete bursts; random "
                "histories (two timeslots, raising observers, end_all) are recorded from the real Terminal; TLC "
                "judges every recorded step with the property monitor. distinct = distinct (state, letter) edges "
                "+ distinct random steps.")
    ctx.assumptions += [
        "parseable burst = Burst.from_bytes returned - with the burst-type hint a transport frame supplies (voice: Vocoder), every third burst without any hint",
        "a start without an end is allowed (voice interrupted by data), an end without a start is not",
        "the burst that causes a start belongs to the new transmission, a burst that causes an end to the ended one",
        "secrets.token_bytes is replaced by a counter in the harness (stream ids become comparable)",
        "end_all_transmissions is outside the statement's alphabet; the code restarts the sequence one burst late after it (modelled)",
    ]
    depth, slots, btfs = (8, "{1}", "{0, 1, 2, 3}") if ctx.quick else (14, "{1}", "{0, 1, 2, 3, 5}")
    with open(os.path.join(ctx.rundir, "MC_Transmission_run.cfg"), "w") as f:
        f.write(CFG.format(depth=depth, slots=slots, btfs=btfs, endall="TRUE"))
    res = core.run_tlc(ctx, "MC_Transmission", "MC_Transmission_run.cfg", timeout=3000, workers=1)   # one worker: strict BFS, so the level bound and the VIEW give the same graph on every run
    if res.violated:
        ctx.note("design_counterexample", {"violated": res.violated,
                                           "trace": [s.get("_action") for s in res.trace]})
    edges = core.parse_printed_json(res, tag="EDGE")
    ctx.note("edges", len(edges))
    if len(edges) < 200:
        raise core.MachineryError(f"edge dump too small: {len(edges)}")
    core.edge_label_coverage(ctx, edges, lambda e: e["op"] if e["op"] != "burst" else "burst:" + str(e["b"].get("cls")), "tracker", 12)
    # two-timeslot model (smaller depth): exhaustive check only
    with open(os.path.join(ctx.rundir, "MC_Transmission_2.cfg"), "w") as f:
        f.write(CFG.format(depth=5 if ctx.quick else 7, slots="{1, 2}", btfs="{0, 2}", endall="TRUE")
                .replace("ACTION_CONSTRAINT Edge\n", ""))
    res2 = core.run_tlc(ctx, "MC_Transmission", "MC_Transmission_2.cfg", timeout=3000, workers=1)
    if res2.violated:
        ctx.note("design_counterexample_2slots", res2.violated)
    ctx.exhaustive = True
    tours = tours_from_edges(edges)
    ctx.note("tours", len(tours))
    ctx.note("tour_steps", sum(len(t) for t in tours))
    jobs = []
    for n, t in enumerate(tours):
        steps = [(e["ts"], e["op"], e["b"] if e["op"] == "burst" else None) for e in t]
        obs = (False,) if n % 3 else ((True, False, True) if n % 2 else ("base", False, True))
        jobs.append((ctx.seed * 1000 + n, obs, steps))
    for t in tours:
        for e in t:
            ctx.count(core.digest([e["fv"], e["ts"], e["op"], e["b"]]))
    with Pool(core.NCPU) as pool:
        traces = pool.map(run_history, jobs, chunksize=4)
    for tr, j in zip(traces, jobs):
        tr["seed"], tr["observers"] = j[0], list(j[1])
    ctx.sample({"tour_prefix": traces[len(traces) // 2]["ev"][:4]})
    for part in core.chunks(traces, 400):
        rej = ctx.validate_traces("Trace_Transmission", "Trace_Transmission.cfg", part)
        judge(ctx, part, rej, "transition tour")
    # ---- random histories
    n, ln = (300, 120) if ctx.quick else (6000, 400)
    jobs = []
    for i in range(n):
        steps = random_history(ctx.rng, ctx.rng.randrange(10, ln))
        obs = tuple(ctx.rng.choice([False, False, False, True, True, "base"]) for _ in range(ctx.rng.randrange(1, 4)))
        jobs.append((ctx.seed * 7919 + i, obs, steps))
    for i in range(10 if ctx.quick else 60):       # transmissions longer than the 8-bit receive sequence counter
        jobs.append((ctx.seed * 7919 + n + i, (False,), long_history(ctx.rng, i % 5)))
    with Pool(core.NCPU) as pool:
        hist = pool.map(run_history, jobs, chunksize=4)
    for tr, j in zip(hist, jobs):
        tr["seed"], tr["observers"] = j[0], list(j[1])
        for e in tr["ev"]:
            ctx.count(core.digest([e["b"]["cls"], e["b"]["btf"], e["out"]["ev"], e["post"]["slots"][e["ts"] - 1]["tx"]["type"]]))
    ctx.sample({"random_history_prefix": hist[0]["ev"][:3]})
    for part in core.chunks(hist, 200):
        rej = ctx.validate_traces("Trace_Transmission", "Trace_Transmission.cfg", part)
        judge(ctx, part, rej, "random history")
    watcher_phase(ctx)


def replay(ctx, rec):
    r = rec["record"]
    if r.get("wsteps"):
        tr = run_whistory((r.get("seed") or 1, tuple(r.get("observers") or (False,)), [tuple(x) for x in r["wsteps"][:r["upto"]]]))
        for e in tr["ev"]:
            e.pop("returned")
        rej = ctx.validate_traces("Trace_Watcher", "Trace_Watcher.cfg", [tr])
        if rej:
            print(f"VIOLATION property=C08 replay={rec.get('path', '(given)')} why={rej[0][2]} step={rej[0][1]}")
            return 1
        print("replay: property holds on this watcher history")
        return 0
    tr = run_history((r.get("seed") or 1, tuple(r.get("observers") or (False,)),
                      [(s[0], s[1], s[2] if s[1] == "burst" else None) for s in r["steps"]]))
    rej = ctx.validate_traces("Trace_Transmission", "Trace_Transmission.cfg", [tr])
    if rej:
        print(f"VIOLATION property=C08 replay={rec.get('path', '(given)')} why={rej[0][2]} step={rej[0][1]}")
        return 1
    print("replay: property holds on this history")
    return 0
