"""C05 — each DMR CRC equals the polynomial remainder the standard defines, with its mask.
spec/CRC.tla: (P) remainder by superposition of unit remainders (no register), (D) bit-by-bit and table registers, front
ends.  MC_CRC.tla: TLC checks (D) = (P) on ALL bit strings up to a length bound, the detection facts, and recomputes
what both calculators (bitwise / table, big- and little-endian bitarrays) returned for strings of every length 0..400
and what the four front ends returned; the repository's on-air vectors guard the spec's reading of the standard."""
import json
import os

from harness import core, gen
from harness.drivers.c09 import pack

WIDTHS = {7: "Crc7", 8: "Crc8", 9: "Crc9", 16: "Crc16", 32: "Crc32"}

VECTORS16 = [("4da323383b23383b0560", 0x8040, 0xCCCC), ("bd0080180008fd23383b", 0xB2ED, 0xA5A5), ("211002177afc73000009", 0x0DDA, 0x6969)]
VECTORS32 = [("d6790062620003bf000700000000000000000000", "210b9a3d"),
             ("0600fb4f3d3f82afc6d80b42ce88668afc7d8b1807e83c308d95bb8be5dd59e95b2837e795af87005ae2a743535ca421601d", "c76ae25c")]
VECTORS9 = [("47004d00500054002e004a0047004100", 17, 459, 0x1FF, None), ("4a00470044002e00540047004a002e00", 1, 65, 0x1FF, None),
            ("0001410048004f004a000000", 0, 447, 0x1FF, "a197ccb4"), ("000000000000000000000000", 2, 312, 0x1FF, "f486aed8")]
VECTORS8 = [("0001000000000000000000000000", 0b00010110), ("0001000000110000000011011010", 0b10100011)]


def pair(v):
    v = int(v)
    return [v >> 16, v & 0xFFFF]


def run(ctx):
    ctx.rule = ("design: all bit strings up to 12 (9 for CRC-32) bits through the register models vs the remainder; code: both "
                "calculators x big/little-endian bitarrays on all strings up to 8 bits and one random string of EVERY length "
                "0..400 per width (+ unit vectors), the four front ends on random inputs and the repository's on-air vectors. "
                "distinct = observed (width, string) pairs + front-end cases.")
    ctx.assumptions += [
        "a bit string is the sequence of bits of the bitarray, whatever its endianness flag",
        "CRC-32 front end = 16-bit word swap of the octets, octets most significant bit first (the effective rule, confirmed by the repository's on-air vectors)",
        "detection of bursts <= width and of 1-3 bit errors (CRC-CCITT, 96 bits) follows from the remainder property and is proved on the polynomials at design level",
    ]
    core.setup_repo_path()
    import random
    from bitarray import bitarray
    from bitarray.util import ba2int, int2ba
    from okdmr.dmrlib.etsi.crc import crc as crcmod
    from okdmr.dmrlib.etsi.crc.crc16 import CRC16
    from okdmr.dmrlib.etsi.crc.crc32 import CRC32
    from okdmr.dmrlib.etsi.crc.crc8 import CRC8
    from okdmr.dmrlib.etsi.crc.crc9 import CRC9
    from okdmr.dmrlib.etsi.layer2.elements.crc_masks import CrcMasks
    rng = random.Random(ctx.seed)
    calcs = {}
    for w, name in WIDTHS.items():
        cfg = getattr(crcmod, name).ETSI_DMR
        calcs[w] = (crcmod.BitCrcCalculator(cfg, table_based=False), crcmod.BitCrcCalculator(cfg, table_based=True))

    obs = []

    def wrongs(v, w, extra=()):
        """values a tolerant verifier might take for v: one bit off, the octets or the bits in the other order, the halves
        swapped, the complement, the neighbours, v with another mask - never v itself"""
        full = (1 << w) - 1
        nb = (w + 7) // 8
        out = {v ^ (1 << rng.randrange(w)), v ^ 1, v ^ (1 << (w - 1)), full ^ v, (v + 1) & full, (v - 1) & full,
               int(format(v, f"0{w}b")[::-1], 2), int.from_bytes(v.to_bytes(nb, "big"), "little"),
               ((v << (w // 2)) | (v >> (w - w // 2))) & full}
        out |= {v ^ x for x in extra if x}
        out.discard(v)
        return sorted(out)

    def observe(w, bits):
        bw, tb = calcs[w]
        be = bitarray(list(bits), endian="big")
        le = bitarray(list(bits), endian="little")
        if len(obs) % 9 == 4:
            # a refused call first (an argument of the wrong kind, whatever it does is outside the statement): the engines and the
            # front ends' singletons must be as good as new for the ordinary call after it
            for eng in (bw, tb):
                for bad in (None, [0, 1, None, 1], "0101", 5):
                    try:
                        eng.calculate_checksum(bad)
                    except Exception:  # noqa
                        pass
            for f_, a_ in ((CRC8.calculate, (None,)), (CRC16.calculate, (b"\x01\x02", None)), (CRC16.calculate, ([1, None, 3], CrcMasks.CSBK)),
                           (CRC32.calculate, ([1, None],)), (CRC9.calculate_from_parts, (b"\x01\x02", None, CrcMasks.Rate12DataContinuation))):
                try:
                    f_(*a_)
                except Exception:  # noqa
                    pass
        cval = ba2int(bw.calculate_checksum(be.copy()))
        others = [cval ^ 1, cval ^ (1 << (w - 1)), cval + (1 << w), cval | (1 << (w + 5)), cval + (1 << 40)] + wrongs(cval, w)
        verify_same = bool(bw.verify_checksum(be.copy(), cval)) and bool(tb.verify_checksum(be.copy(), cval))
        if len(obs) % 2:
            # "verification accepts exactly the computed value": every other time the value is handed over as computed (a bitarray)
            verify_same = bool(bw.verify_checksum(be.copy(), bw.calculate_checksum(be.copy()))) and bool(tb.verify_checksum(be.copy(), tb.calculate_checksum(be.copy())))
        verify_other = any(bool(c.verify_checksum(be.copy(), x)) for c in (bw, tb) for x in others)
        obs.append({"w": w, "n": len(bits), "bits": pack(bits), "verify_same": verify_same, "verify_other": verify_other,
                    "bitwise": pair(ba2int(bw.calculate_checksum(be.copy()))), "table": pair(ba2int(tb.calculate_checksum(be.copy()))),
                    "bitwise_le": pair(ba2int(bw.calculate_checksum(le.copy()))), "table_le": pair(ba2int(tb.calculate_checksum(le.copy())))})
        ctx.count(core.digest([w, len(bits), pack(bits)]))

    small = 8 if ctx.quick else 11
    for w in WIDTHS:
        for n in range(0, small + 1):
            for v in range(1 << n):
                observe(w, int2ba(v, length=n) if n else bitarray())
        reps = 1 if ctx.quick else 4
        for n in range(0, 401):
            for _ in range(reps):
                observe(w, bitarray([rng.getrandbits(1) for _ in range(n)]))
        for n in (96, 400):
            for i in (list(range(n)) if not ctx.quick else list(range(0, n, 7)) + [n - 1]):
                u = bitarray([0] * n)
                u[i] = 1
                observe(w, u)
    # shared singletons in shuffled order (re-initialisation between calls)
    fe = []
    masks = [m for m in CrcMasks if m.value <= 0xFFFF]

    def fe8(bits, out, vec=False):
        fe.append({"kind": "crc8", "vec": vec, "bits": pack(bits), "n": len(bits), "mask": 0, "octets": [], "out": pair(out),
                   "check_same": True, "check_other": False})

    def fe9(data, dbsn, mask, crc32, out, vec=False):
        octs = list(data) + (list(crc32) if crc32 else []) + [dbsn * 2]
        bits = bitarray()
        bits.frombytes(bytes(octs))
        fe.append({"kind": "crc9", "vec": vec, "bits": pack(bits), "n": 8 * (len(octs) - 1) + 7, "mask": mask, "octets": [], "out": pair(out),
                   "check_same": True, "check_other": False})

    def fe16(data, mask, out, same, other, vec=False):
        bits = bitarray()
        bits.frombytes(bytes(data))
        fe.append({"kind": "crc16", "vec": vec, "bits": pack(bits), "n": 8 * len(data), "mask": mask, "octets": [], "out": pair(out),
                   "check_same": bool(same), "check_other": bool(other)})

    def fe32(data, out, same, other, vec=False):
        fe.append({"kind": "crc32", "vec": vec, "bits": [0], "n": 0, "mask": 0, "octets": list(data), "out": pair(out),
                   "check_same": bool(same), "check_other": bool(other)})

    for h, exp, mask in VECTORS16:
        fe16(bytes.fromhex(h), mask, exp, True, False, vec=True)
    for h, exp in VECTORS32:
        fe32(bytes.fromhex(h), int.from_bytes(bytes.fromhex(exp), "little"), True, False, vec=True)
    for h, dbsn, exp, mask, c32 in VECTORS9:
        fe9(bytes.fromhex(h), dbsn, mask, bytes.fromhex(c32) if c32 else None, exp, vec=True)
    for b, exp in VECTORS8:
        fe8(bitarray(b), exp, vec=True)
    def fill(n_):
        """message octets: mostly random, one in six all zeros (padding-only blocks), all ones, or zero but for the last octet"""
        k_ = rng.randrange(18)
        if k_ == 0:
            return bytes(n_)
        if k_ == 1:
            return b"\xff" * n_
        if k_ == 2 and n_:
            return bytes(n_ - 1) + bytes([rng.randrange(1, 256)])
        return bytes(rng.getrandbits(8) for _ in range(n_))

    nfe = 250 if ctx.quick else 25000
    jobs = []
    for _ in range(nfe):
        jobs += ["8", "9", "16", "32"]
    rng.shuffle(jobs)
    # "all byte strings": every length of the range occurs in every run (walked through by a counter per front end), the usual
    # PDU lengths fill the rest - a front end that treats ONE length specially (a 12-octet "whole PDU") is not a matter of the draw
    nth = {"8": 0, "9": 0, "16": 0, "32": 0}

    def length(kind, usual, top):
        nth[kind] += 1
        n_ = nth[kind]
        return (n_ // 2) % (top + 1) if n_ % 2 == 0 else rng.choice(usual)

    for k in jobs:
        if k == "8":
            bits = bitarray([rng.getrandbits(1) for _ in range(length("8", [28], 90))])
            fe8(bits, CRC8.calculate(bits.copy()))
        elif k == "9":
            data = fill(length("9", [6, 10, 12, 16, 18, 22], 30))
            dbsn = rng.randrange(128)
            m = rng.choice([CrcMasks.Rate12DataContinuation, CrcMasks.Rate34DataContinuation, CrcMasks.Rate1DataContinuation])
            # the CRC-32 part as four octets, including the values an "is it there?" test could mistake for absent
            c32 = rng.choice([None, None, bytes(rng.getrandbits(8) for _ in range(4)), bytes(rng.getrandbits(8) for _ in range(4)),
                              bytes(4), b"\x00\x00\x00\x01", b"\x80\x00\x00\x00", b"\xff\xff\xff\xff"])
            # the parts arrive in whatever bytes-like form the caller holds them: bytes, a subclass, a slice of a receive buffer
            form = [bytes, bytes, gen.Octets, bytearray, memoryview][len(fe) % 5]
            # ... and the CRC-32 part also as the number the signature allows (the block classes hand it over that way): the four
            # octets read big-endian, zero included
            as_int = len(fe) % 3 == 0
            fe9(data, dbsn, m.value, c32, CRC9.calculate_from_parts(form(data) if form is not memoryview else data, dbsn, m,
                                                                    crc32=None if c32 is None else (int.from_bytes(c32, "big") if as_int else form(c32))))
        elif k == "16":
            data = fill(length("16", [10], 40))
            m = rng.choice(masks)
            buf = bytearray(data) if rng.random() < 0.5 else gen.as_caller_bytes(data, len(fe))
            CRC16.calculate(buf, m)
            out = CRC16.calculate(buf, m)
            fe16(data, m.value, out, CRC16.check(buf, out, m),
                 any(CRC16.check(buf, x, m) for x in wrongs(out, 16, extra=[m.value] + [k.value for k in masks if k is not m][:2])))
            if bytes(buf) != data:
                fe16(data, m.value, out ^ 1, False, True)
        else:
            data = fill(length("32", [20, rng.randrange(0, 60)], 60))
            # half of the callers own a mutable buffer and use it for several calls (calculate, calculate again, verify)
            buf = bytearray(data) if rng.random() < 0.5 else gen.as_caller_bytes(data, len(fe))
            CRC32.calculate(buf)
            out = CRC32.calculate(buf)
            fe32(data, out, CRC32.check(buf, out), any(CRC32.check(buf, x) for x in wrongs(out, 32)))
            if bytes(buf) != data:
                fe32(data, (out + 1) & 0xFFFFFFFF, False, True)      # recorded as a wrong checksum: the buffer was altered
    # ---- front-end inputs aimed by the code's algebra (a front end is affine in its message): messages whose check value is all
    # zeros, all ones, or has a zero / all-one octet at either end - one in 2^16 (2^32) messages has such a value, a verifier that
    # treats them as "no value" / "out of range" meets them only here.  The last bits of a random message are solved for (Gaussian
    # elimination over GF(2) on 17 / 33 calls); the library is only asked, TLC judges what it answered like every other case.
    def solve(cols, target):
        """indices of columns whose xor is target, or None"""
        basis = []          # (vector, subset mask)
        for i, c in enumerate(cols):
            v, m_ = c, 1 << i
            for bv, bm in basis:
                if v ^ bv < v:
                    v, m_ = v ^ bv, m_ ^ bm
            if v:
                basis.append((v, m_))
                basis.sort(reverse=True)
        v, m_ = target, 0
        for bv, bm in basis:
            if v ^ bv < v:
                v, m_ = v ^ bv, m_ ^ bm
        return None if v else m_

    def aim(f, nsuffix, target):
        """suffix (nsuffix bits, as int) for which f(suffix) == target, f affine"""
        base = f(0)
        cols = [f(1 << i) ^ base for i in range(nsuffix)]
        m_ = solve(cols, target ^ base)
        return None if m_ is None or f(m_) != target else m_

    naimed = 0
    for rep in range(2 if ctx.quick else 12):
        for m in masks:
            for T in (0x0000, 0xFFFF, 0x00FF, 0xFF00, 0x0001, 0xFFFE, 0x8000, 0x7FFF):
                pre = fill(rng.choice([8, 8, 10, rng.randrange(0, 30)]))
                sfx = aim(lambda x: CRC16.calculate(pre + x.to_bytes(2, "big"), m), 16, T)
                if sfx is None:
                    continue
                data = pre + sfx.to_bytes(2, "big")
                out = CRC16.calculate(data, m)
                fe16(data, m.value, out, CRC16.check(data, out, m), any(CRC16.check(data, x, m) for x in wrongs(out, 16, extra=[m.value])))
                naimed += 1
        for T in (0, 0xFFFFFFFF, 0x000000FF, 0xFF000000, 0x00FFFFFF, 0xFFFFFF00, 1, 0x80000000):
            pre = fill(rng.choice([16, 8, rng.randrange(0, 50)]))
            sfx = aim(lambda x: CRC32.calculate(pre + x.to_bytes(4, "big")), 32, T)
            if sfx is None:
                continue
            data = pre + sfx.to_bytes(4, "big")
            out = CRC32.calculate(data)
            fe32(data, out, CRC32.check(data, out), any(CRC32.check(data, x) for x in wrongs(out, 32)))
            naimed += 1
        for T in (0, 0xFF, 0x0F, 0xF0, 1, 0x80):
            pre = bitarray([rng.getrandbits(1) for _ in range(20)])
            sfx = aim(lambda x: CRC8.calculate(pre + int2ba(x, length=8)), 8, T)
            if sfx is not None:
                bits = pre + int2ba(sfx, length=8)
                fe8(bits, CRC8.calculate(bits.copy()))
                naimed += 1
        for T in (0, 0x1FF, 0x0FF, 0x100, 1):
            n_ = rng.choice([10, 16, 22])
            pre, dbsn = fill(n_ - 2), rng.randrange(128)
            m9 = rng.choice([CrcMasks.Rate12DataContinuation, CrcMasks.Rate34DataContinuation, CrcMasks.Rate1DataContinuation])
            sfx = aim(lambda x: CRC9.calculate_from_parts(pre + x.to_bytes(2, "big"), dbsn, m9), 16, T)
            if sfx is not None:
                data = pre + sfx.to_bytes(2, "big")
                fe9(data, dbsn, m9.value, None, CRC9.calculate_from_parts(data, dbsn, m9))
                naimed += 1
    ctx.note("front_end_inputs_aimed_at_extreme_check_values", naimed)
    for f in fe:
        ctx.count(core.digest(f))
    data = {"obs": obs, "fe": fe}
    path = os.path.join(ctx.rundir, "c05_data.json")
    json.dump(data, open(path, "w"))
    ctx.sample({"engine_observation": obs[600], "front_end": fe[20]})
    with open(os.path.join(ctx.rundir, "MC_CRC_run.cfg"), "w") as f:
        f.write("SPECIFICATION Spec\nCONSTANTS\n  MaxBits = %d\nACTION_CONSTRAINT Report\nCHECK_DEADLOCK FALSE\n" % (12 if ctx.quick else 14))
    res = core.run_tlc(ctx, "MC_CRC", "MC_CRC_run.cfg", env={"DATA_FILE": path}, timeout=2400, jvm=("-Xss256m",))
    if not res.ok or res.distinct < len(obs) + len(fe):
        raise core.MachineryError(f"TLC did not judge all items ({res.distinct} < {len(obs) + len(fe)})")
    ctx.traces_validated = len(obs) + len(fe)
    ctx.note("design_all_strings_up_to", 12 if ctx.quick else 14)
    groups = {}
    for v in core.parse_printed_json(res, tag="REJECT"):
        item = obs[v["idx"]] if v["phase"] == "obs" else fe[v["idx"]]
        if v["phase"] == "fe" and item.get("vec"):
            raise core.MachineryError(f"the spec's front-end rule disagrees with an on-air vector of the repository: {item}")
        key = (v["why"], item["w"] if v["phase"] == "obs" else item["kind"])
        groups.setdefault(key, []).append(item)
    for (why, what), items in sorted(groups.items(), key=lambda kv: str(kv[0])):
        ctx.violation(f"crc/{why}/{what}", f"{why} ({what}): {len(items)} cases, first {json.dumps(items[0])[:300]}",
                      {"clause": why, "what": what, "count": len(items), "first": items[0]})
    seen = set()
    for v in core.parse_printed_json(res, tag="DRIFT"):
        if v["why"] not in seen:
            seen.add(v["why"])
            ctx.model_drift(f"{v['phase']}: {v['why']} (width {v.get('a')}, length {v.get('b')})")


def replay(ctx, rec):
    print("replay: re-running the check (cases are regenerated from the seed)")
    run(ctx)
    return ctx.finish()
