"""C11 — Reed-Solomon (12,9) parity makes every generated word a codeword of distance 4.
spec/RS1294.tla (GF(2^8) by shift-and-reduce, syndromes at alpha^1..alpha^3, LFSR model, distance argument) +
MC_RS1294.tla: TLC recomputes all 65 536 products and judges generated words and checker verdicts."""
import json
import os

from harness import core
from harness import gen as hgen

MASKS = [b"\x96\x96\x96", b"\x99\x99\x99", b"\x00\x00\x00"]


def gfmul(a, b):
    """GF(2^8) product by shift-and-reduce modulo x^8+x^4+x^3+x^2+1 (aims inputs only, the verdict is TLC's)"""
    r = 0
    while b:
        if b & 1:
            r ^= a
        a <<= 1
        if a & 0x100:
            a ^= 0x11D
        b >>= 1
    return r


def gfinv(a):
    return next(x for x in range(1, 256) if gfmul(a, x) == 1)


def generator_poly():
    """g(x) = (x - alpha)(x - alpha^2)(x - alpha^3), coefficients lowest degree first"""
    g = [1]
    for root in (2, 4, 8):
        g = [gfmul(root, g[0])] + [g[i - 1] ^ gfmul(root, g[i]) for i in range(1, len(g))] + [g[-1]]
    return g


def aimed_message(parity, rng):
    """a 9-symbol message whose unmasked parity is the given three octets: a multiple q(x) g(x) of the generator with
    the three lowest coefficients solved for (triangular system) and the upper six coefficients of q free"""
    g = generator_poly()
    c = [parity[2], parity[1], parity[0]]                     # lowest degree first
    q = [0] * 9
    ig0 = gfinv(g[0])
    for i in range(3):
        acc = c[i]
        for j in range(i):
            acc ^= gfmul(q[j], g[i - j])
        q[i] = gfmul(acc, ig0)
    for i in range(3, 9):
        q[i] = rng.getrandbits(8) if rng.random() < 0.8 else 0
    word = [0] * 12                                            # lowest degree first
    for i, qi in enumerate(q):
        for j, gj in enumerate(g):
            word[i + j] ^= gfmul(qi, gj)
    word.reverse()
    if word[9:] != list(parity):
        raise core.MachineryError("aimed Reed-Solomon message does not have the requested parity")
    return word[:9]


def run(ctx):
    ctx.rule = ("all 65 536 products of log_multiply recomputed by TLC; generate on the 9 x 255 single-symbol messages, the "
                "standard masks and random (message, mask) pairs: TLC evaluates the syndromes of the unmasked word; check on "
                "generated words, on words with 1-3 corrupted symbols and on random words: accepted iff syndromes are zero. "
                "distinct = products + generated words + checked words.")
    ctx.assumptions += ["field polynomial x^8+x^4+x^3+x^2+1 and alpha = 2 as in ETSI B.3.6; symbols most significant degree first",
                        "2^72 messages via the 9 x 255 single-symbol basis, GF-linearity of the syndrome test and random samples"]
    core.setup_repo_path()
    import random
    from okdmr.dmrlib.etsi.fec.reed_solomon_12_9_4 import ReedSolomon1294 as RS
    rng = random.Random(ctx.seed)
    mul = [RS.log_multiply(a, b) for a in range(256) for b in range(256)]
    gen, chk = [], []

    held = []       # generated words are kept as returned and read only after all calls (results must not share storage)

    def g(msg, mask):
        # every other caller owns mutable buffers and uses them again afterwards
        mutable = len(held) % 2 == 1
        mb, kb = (bytearray(msg), bytearray(mask)) if mutable else (hgen.as_caller_bytes(bytes(msg), len(held) // 2), hgen.as_caller_bytes(bytes(mask), len(held) // 2 + 2))
        if len(held) % 7 == 3:
            # a refused call comes first (a mask or message of the wrong kind: whatever it does is outside the statement) - the
            # call after it is an ordinary one and must be right
            for bad_msg, bad_mask in ((mb, None), (mb, 0x969696), (list(msg[:5]) + [None] * 4, kb), (list(msg[:8]) + [256], kb), (mb[:8], kb)):
                try:
                    RS.generate(bad_msg, bad_mask)
                except Exception:  # noqa
                    pass
                try:
                    RS.check(bad_msg, bad_mask)
                except Exception:  # noqa
                    pass
        if len(held) % 5 == 4:
            # the message as a slice of the caller's receive buffer (memoryview) or as a list of octets
            mb = memoryview(bytes(2) + bytes(msg))[2:] if len(held) % 10 == 4 else list(msg)
        out = RS.generate(mb, kb)
        if mutable and (bytes(mb) != bytes(msg) or bytes(kb) != bytes(mask)):
            out = bytes(12)          # recorded as a wrong word: the caller's buffers were altered
        held.append((list(msg), list(mask), out))
        return out

    def flush():
        for msg, mask, out in held:
            gen.append({"msg": msg, "mask": mask, "out": list(out)})

    for pos in range(9):
        for v in range(1, 256):
            m = [0] * 9
            m[pos] = v
            g(m, MASKS[(pos + v) % 3])
    g([0] * 9, MASKS[2])
    words = []
    # aimed by the code's algebra: messages whose unmasked parity is all-zero (multiples of the generator, the all-zero
    # message among them), equals the mask (the transmitted parity is then 000000), or has zero / one / all-one octets -
    # 2^-24 luck each for a random message
    for k in range(60 if ctx.quick else 3000):
        mask = (MASKS + [bytes(rng.getrandbits(8) for _ in range(3))])[k % 4]
        x, y = rng.randrange(1, 256), rng.randrange(1, 256)
        target = [[0, 0, 0], list(mask), [0, x, y], [x, 0, y], [x, y, 0], [1, 1, 1], [255, 255, 255], [1, 0, 0], [0, 0, 1],
                  [mask[0], x, y], [x, y, mask[2]], [a ^ 1 for a in mask]][(k // 4) % 12]
        words.append((g(aimed_message(target, rng) if k >= 4 else [0] * 9, mask), mask))
    nrand = 1000 if ctx.quick else 80000
    for _ in range(nrand):
        m = [rng.getrandbits(8) for _ in range(9)]
        mask = rng.choice(MASKS + [bytes(rng.getrandbits(8) for _ in range(3))])
        words.append((g(m, mask), mask))
    flush()
    words = [(bytes(w), mask) for w, mask in words]
    for w, mask in words[: (600 if ctx.quick else 40000)]:
        chk.append({"word": list(w), "mask": list(mask), "accepted": bool(RS.check(bytes(w), bytes(mask)))})
        # the receiver's habit: the word that was just accepted is offered again under the other masks (voice LC header /
        # terminator / none) and then once more under its own
        for m2 in [m for m in MASKS if bytes(m) != bytes(mask)][:2]:
            chk.append({"word": list(w), "mask": list(m2), "accepted": bool(RS.check(bytes(w), bytes(m2)))})
        chk.append({"word": list(w), "mask": list(mask), "accepted": bool(RS.check(bytes(w), bytes(mask)))})
        e = bytearray(w)
        for p in rng.sample(range(12), rng.choice([1, 2, 3])):
            e[p] ^= rng.randrange(1, 256)
        chk.append({"word": list(e), "mask": list(mask), "accepted": bool(RS.check(bytes(e), bytes(mask)))})
        r = bytes(rng.getrandbits(8) for _ in range(12))
        chk.append({"word": list(r), "mask": list(mask), "accepted": bool(RS.check(r, bytes(mask)))})
    # what a tolerant checker might take for the parity: its octets in the other order, rotated, complemented, mask left off
    for w, mask in words[:300]:
        p = list(w[9:])
        for q in (p[::-1], p[1:] + p[:1], [x ^ 0xFF for x in p], [a ^ b for a, b in zip(p, mask)], [int(format(x, "08b")[::-1], 2) for x in p]):
            if q != p:
                e = bytes(w[:9]) + bytes(q)
                chk.append({"word": list(e), "mask": list(mask), "accepted": bool(RS.check(e, bytes(mask)))})
    # accepted non-generated words would need 2^-24 luck; add near-codewords in the parity symbols only
    for w, mask in words[:200]:
        e = bytearray(w)
        e[9 + rng.randrange(3)] ^= 1 << rng.randrange(8)
        chk.append({"word": list(e), "mask": list(mask), "accepted": bool(RS.check(bytes(e), bytes(mask)))})
    # aimed at a checker that evaluates fewer than the three roots (or folds them): error patterns of weight 2 that zero ONE chosen
    # syndrome and of weight 3 that zero TWO chosen syndromes, solved over GF(2^8) by the harness for every choice of roots - a
    # random corruption does this with probability 2^-8 / 2^-16 and never in a quick run
    def gfpow(a, n_):
        r_ = 1
        for _ in range(n_):
            r_ = gfmul(r_, a)
        return r_

    X = lambda idx, a: gfpow(gfpow(2, a), 11 - idx)           # the locator of symbol idx (highest degree first) at root alpha^a
    naim = 0
    for w, mask in words[: (40 if ctx.quick else 1500)]:
        for a in (1, 2, 3):
            i, j = rng.sample(range(12), 2)
            ei = rng.randrange(1, 256)
            ej = gfmul(gfmul(ei, X(i, a)), gfinv(X(j, a)))
            e = bytearray(w)
            e[i] ^= ei
            e[j] ^= ej
            chk.append({"word": list(e), "mask": list(mask), "accepted": bool(RS.check(bytes(e), bytes(mask)))})
            naim += 1
        for a, b in ((1, 2), (1, 3), (2, 3)):
            i, j, k = rng.sample(range(12), 3)
            ei = rng.randrange(1, 256)
            det = gfmul(X(j, a), X(k, b)) ^ gfmul(X(k, a), X(j, b))
            if det == 0:
                continue
            ra, rb = gfmul(ei, X(i, a)), gfmul(ei, X(i, b))
            ej = gfmul(gfmul(ra, X(k, b)) ^ gfmul(rb, X(k, a)), gfinv(det))
            ek = gfmul(gfmul(X(j, a), rb) ^ gfmul(X(j, b), ra), gfinv(det))
            if not ej or not ek:
                continue
            e = bytearray(w)
            e[i] ^= ei
            e[j] ^= ej
            e[k] ^= ek
            chk.append({"word": list(e), "mask": list(mask), "accepted": bool(RS.check(bytes(e), bytes(mask)))})
            naim += 1
    ctx.note("corruptions_aimed_at_subsets_of_the_syndromes", naim)
    ctx.count(None, 65536 + len(gen) + len(chk))
    ctx.distinct = set(range(65536 + len(gen) + len(chk)))
    data = {"mul": mul, "gen": gen, "chk": chk}
    path = os.path.join(ctx.rundir, "c11_data.json")
    json.dump(data, open(path, "w"))
    ctx.sample({"generated": gen[300], "checked": chk[1]})
    res = core.run_tlc(ctx, "MC_RS1294", "MC_RS1294.cfg", env={"DATA_FILE": path}, timeout=1200, jvm=("-Xss256m",))
    if not res.ok or res.distinct < 65536 + len(gen) + len(chk):
        raise core.MachineryError(f"TLC did not judge all items ({res.distinct})")
    ctx.traces_validated = len(gen) + len(chk)
    ctx.note("products_exhaustive", True)
    groups = {}
    for v in core.parse_printed_json(res, tag="REJECT"):
        groups.setdefault((v["phase"], v["why"]), []).append(v["idx"])
    for (ph, why), idxs in sorted(groups.items()):
        first = idxs[0]
        what = {"mul": lambda: {"a": first // 256, "b": first % 256, "observed": mul[first]}, "gen": lambda: gen[first],
                "chk": lambda: chk[first]}.get(ph, lambda: None)()
        ctx.violation(f"rs1294/{why}", f"{why}: {len(idxs)} {ph} items fail, first {what}",
                      {"phase": ph, "clause": why, "count": len(idxs), "first": what})
    for v in core.parse_printed_json(res, tag="DRIFT"):
        ctx.model_drift(f"{v['phase']}: {v['why']}")


def replay(ctx, rec):
    print("replay: re-running the check (samples are regenerated from the seed)")
    run(ctx)
    return ctx.finish()
