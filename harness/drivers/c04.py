"""C04 — integrity indicators of parsed PDUs tell the truth about the received bits.
spec/Integrity.tla (+ BlockCodes.tla, CRC.tla for the detection facts) and MC_Integrity.tla.
(1) every check-field PDU the library serialises parses back with its indicator true;
(2) ALL 2^20 slot-type words and ALL 2^16 EMB words are parsed; TLC enumerates them and compares the indicator
    with membership in the code spanned by the learned generator rows;
(3) generated CRC/checksum protected PDUs are corrupted with every single-bit error, double errors, bursts no longer
    than the check field and weight-3 patterns (incl. cases aimed at the all-zero check field); TLC judges the outcome."""
import json
import os
from multiprocessing import Pool

from harness import core, gen

CHECK_ATTRS = {"crc", "crc_ok", "crc9", "crc9_ok", "crc_8bit", "fec_parity", "fec_parity_ok", "emb_parity", "emb_parity_ok",
               "checksum", "checksum_correct"}


def fields(o):
    from harness.catalogue import struct
    d = struct(o)
    if isinstance(d, dict):
        return {k: v for k, v in d.items() if k not in CHECK_ATTRS}
    return d


def slot_work(args):
    lo, hi, kind = args
    core.setup_repo_path()
    from bitarray.util import int2ba
    from okdmr.dmrlib.etsi.layer2.pdu.embedded_signalling import EmbeddedSignalling
    from okdmr.dmrlib.etsi.layer2.pdu.slot_type import SlotType
    out = []
    for w in range(lo, hi):
        try:
            if kind == "slot":
                ok = SlotType.from_bits(int2ba(w, length=20)).fec_parity_ok
            else:
                ok = EmbeddedSignalling.from_bits(int2ba(w, length=16)).emb_parity_ok
        except Exception:  # noqa: a word that cannot be parsed is not accepted
            ok = False
        if ok:
            out.append(w)
    return out


class Case:
    """one PDU class: how to build, serialise, parse, read the indicator, where the check field sits"""

    def __init__(self, name, kind, width, field, build, ser, parse, indicator, order=None):
        self.name, self.kind, self.width, self.field = name, kind, width, field
        self.build, self.ser, self.parse, self.indicator = build, ser, parse, indicator
        self.order = order or (lambda t, n: t)     # on-air bit position -> position in the code word (message o check)


GENERATORS = {16: 0x11021, 8: 0x107, 9: 0x259}      # CRC-CCITT, CRC-8, CRC-9 generator polynomials (TS 102 361-1 B.3.8 - B.3.10)


def poly_rem(positions, nbits, g):
    """remainder of the polynomial with a term x^(nbits-1-c) for every code word position c, modulo g (harness arithmetic)"""
    deg = g.bit_length() - 1
    v = 0
    for c in positions:
        v ^= 1 << (nbits - 1 - c)
    for sh in range(nbits - 1, deg - 1, -1):
        if v >> sh & 1:
            v ^= g << (sh - deg)
    return v


FOLDING_FIELDS = {      # enumerated fields whose undefined values the constructors fold onto a reserved member: (first bit, width)
    "DataHeader/C": [(8, 4)], "DataHeader/U": [(8, 4)], "DataHeader/R": [(8, 4)], "DataHeader/S": [(8, 4), (64, 6)],
    "DataHeader/T": [(8, 4), (12, 4)], "ShortLinkControl": [(4, 4), (8, 4)],
}


def fold_aimed_patterns(case, bits, nbits):
    """(PDU bits, error pattern) pairs of weight 2 and 3 aimed at parsers that verify the check field over RE-SERIALISED fields:
    inverting one bit of an enumerated field makes it take an undefined value, which the constructor folds onto its reserved
    member, so the re-serialised message differs from the sent one in the set F; one or two more inverted bits are chosen such
    that the whole difference is a multiple of the generator polynomial (searched over all values of the field, since a match
    for one given PDU is a 2^-width event).  A parser that checks the received bits rejects every one of them."""
    from bitarray.util import int2ba
    g = GENERATORS.get(case.width)
    fields_ = FOLDING_FIELDS.get(case.name)
    if g is None or not fields_:
        return []
    lo, hi = case.field
    msg = [t for t in range(nbits) if not lo <= t < hi]
    unit = {t: poly_rem([case.order(t, nbits)], nbits, g) for t in msg}
    by_rem = {}
    for t in msg:
        by_rem.setdefault(unit[t], []).append(t)
    out = []
    for f0, w in fields_:
        for d in range(1 << w):
            b0 = bits.copy()
            b0[f0:f0 + w] = int2ba(d, length=w)
            b0[lo:hi] = 0                       # an all-zero check field asks the constructor to generate it
            try:
                sent = case.ser(case.parse(b0))
                if len(sent) != nbits or sent[f0:f0 + w] != b0[f0:f0 + w] or not case.indicator(case.parse(sent.copy())) or not sent[lo:hi].any():
                    continue                    # d is not a value this field can be sent with
            except Exception:  # noqa
                continue
            for k in range(w):
                t = f0 + k
                b = sent.copy()
                b.invert(t)
                try:
                    r = case.ser(case.parse(b))
                except Exception:  # noqa
                    continue
                if len(r) != nbits:
                    continue
                fold = [u for u in msg if r[u] != sent[u]]
                if fold == [t]:
                    continue                    # no folding: the re-serialised message is the received one
                target = poly_rem([case.order(u, nbits) for u in fold], nbits, g)
                # the other inverted bits lie outside every enumerated field and outside the format / opcode field
                skip = fields_ + ([(4, 4)] if case.name.startswith("DataHeader") else [(0, 4)])
                free = [u for u in msg if not any(x <= u < x + y for x, y in skip)]
                hits = [[t, a] for a in by_rem.get(target, []) if a in free]
                for a in free:
                    hits += [[t, a, c] for c in by_rem.get(target ^ unit[a], []) if c in free and c > a]
                    if len(hits) > 2:
                        break
                out += [(sent, sorted(h)) for h in hits[:3]]
    return out


def slc_order(t, n):
    return t if t < 28 else 28 + (7 - (t - 28))             # CRC-8 transmitted least significant bit first


def rate_order(t, n):
    """confirmed rate blocks: on air DBSN(7) CRC9(9, most significant bit first like every field) data [crc32]; the CRC-9 covers
    data o [crc32] o DBSN.  (Until hunt 2 this function had the nine bits in the reverse order - the order the library wrote and
    read them in, not the one on the air: a captured block of the repository's own tests was reported [CRC9 INVALID].)"""
    if t >= 16:
        return t - 16
    return (n - 16) + t


def small_crc32(r):
    """a CRC-32 value of a last block: mostly any non-zero value, two in seven with one to three leading zero octets (a value that
    fits fewer than four octets - conversions that drop leading zero octets take such a value out of the CRC-9's input)"""
    k = r.randrange(7)
    if k == 6:
        # one to three set bits only: the error on exactly those leaves four zero octets, which are still four octets under the CRC-9
        v = 0
        for _ in range(r.choice([1, 1, 2, 3])):
            v |= 1 << r.randrange(32)
        return v
    return r.randrange(1, 1 << 32) if k < 4 else r.randrange(1, 1 << (8 * r.choice([1, 2, 3])))


def cases():
    from bitarray import bitarray
    from okdmr.dmrlib.etsi.layer2.elements.slcos import SLCOs
    from okdmr.dmrlib.etsi.layer2.pdu.data_header import DataHeader
    from okdmr.dmrlib.etsi.layer2.pdu.embedded_signalling import EmbeddedSignalling
    from okdmr.dmrlib.etsi.layer2.pdu.pi_header import PIHeader
    from okdmr.dmrlib.etsi.layer2.pdu.rate12_data import Rate12Data, Rate12DataTypes
    from okdmr.dmrlib.etsi.layer2.pdu.rate1_data import Rate1Data, Rate1DataTypes
    from okdmr.dmrlib.etsi.layer2.pdu.rate34_data import Rate34Data, Rate34DataTypes
    from okdmr.dmrlib.etsi.layer2.pdu.short_link_control import ShortLinkControl
    from okdmr.dmrlib.etsi.layer2.pdu.slot_type import SlotType
    from okdmr.dmrlib.etsi.layer3.elements.activity_id import ActivityID
    from okdmr.dmrlib.hytera.pdu.hrnp import HRNP, HRNPOpcodes
    from okdmr.dmrlib.hytera.pdu.radio_ip import RadioIP
    from okdmr.dmrlib.hytera.pdu.radio_registration_service import RadioRegistrationService, RRSTypes
    from okdmr.dmrlib.utils.bits_bytes import bytes_to_bits
    out = []
    out.append(Case("SlotType", "fec", 12, (8, 20), lambda r: SlotType(r.randrange(16), r.randrange(13)), lambda o: o.as_bits(),
                    SlotType.from_bits, lambda o: o.fec_parity_ok))
    out.append(Case("EmbeddedSignalling", "fec", 9, (7, 16),
                    lambda r: EmbeddedSignalling(r.randrange(16), r.getrandbits(1), r.randrange(4)), lambda o: o.as_bits(),
                    EmbeddedSignalling.from_bits, lambda o: o.emb_parity_ok))
    for fmt in gen.HDR_FORMATS:
        out.append(Case("DataHeader/" + fmt, "crc", 16, (80, 96),
                        (lambda f: lambda r: gen.data_header(r, f, btf=r.randrange(0, 64 if f == "S" else 128), a=bool(r.getrandbits(1)) and f != "R",
                                                             llid_source=r.randrange(1 << 24), pad=r.randrange(32) if f in "CU" else 0))(fmt),
                        lambda o: o.as_bits(), DataHeader.from_bits, lambda o: o.crc_ok))
    out.append(Case("PIHeader", "crc", 16, (80, 96), lambda r: PIHeader(data=gen.rbytes(r, 10)), lambda o: o.as_bits(),
                    PIHeader.from_bits, lambda o: o.crc_ok))

    def slc(r):
        if r.random() < 0.2:
            return ShortLinkControl(slco=SLCOs.NullMessage)
        acts = [a for a in ActivityID if a.name != "Reserved"]
        return ShortLinkControl(slco=SLCOs.ActivityUpdate, ts1_activity_id=r.choice(acts), ts2_activity_id=r.choice(acts),
                                ts1_address=gen.rbits(r, 8), ts2_address=gen.rbits(r, 8))

    out.append(Case("ShortLinkControl", "crc", 8, (28, 36), slc, lambda o: o.as_bits(), ShortLinkControl.from_bits, lambda o: o.crc_ok, order=slc_order))
    for nm, C, T, n in (("Rate12Data", Rate12Data, Rate12DataTypes, 12), ("Rate34Data", Rate34Data, Rate34DataTypes, 18),
                        ("Rate1Data", Rate1Data, Rate1DataTypes, 24)):
        for typ, dl in (("Confirmed", n - 2), ("ConfirmedLastBlock", n - 6)):
            t = getattr(T, typ)
            out.append(Case(f"{nm}/{typ}", "crc", 9, (7, 16),
                            (lambda C_, t_, dl_, last: lambda r: C_(data=gen.rbytes(r, dl_), packet_type=t_, dbsn=r.randrange(128),
                                                                      crc32=(small_crc32(r) if last else 0)))(C, t, dl, typ.endswith("LastBlock")),
                            lambda o: o.as_bits(), (lambda C_, t_: lambda b: C_.from_bits_typed(b, t_))(C, t), lambda o: o.crc9_ok,
                            order=rate_order))

    def hrnp(r):
        rr = RadioRegistrationService(opcode=r.choice([RRSTypes.RadioRegistrationRequest, RRSTypes.RadioGoingOffline]),
                                      radio_ip=RadioIP(r.randrange(1 << 24)))
        return HRNP(data=rr, opcode=HRNPOpcodes.DATA, source=r.randrange(0x20, 0x30), destination=0x10,
                    packet_number=r.randrange(1 << 16), block_number=r.randrange(256))

    out.append(Case("HRNP", "sum", 16, (80, 96), hrnp, lambda o: bytes_to_bits(o.as_bytes()),
                    lambda b: HRNP.from_bytes(b.tobytes()), lambda o: o.checksum_correct))

    def hrnp_any(r):
        """HRNP around every HDAP family (the builders of the C12 driver): payloads whose parsers do not read their last octets,
        length fields with low bits set - what a single inverted bit of the HRNP length field needs in order to go unnoticed"""
        from harness.drivers import c12
        bs = c12.builders()
        for _ in range(200):
            pdu = bs[r.randrange(len(bs))][2](r)
            if len(pdu.as_bytes()) <= 56:
                break
        else:
            pdu = hrnp(r).data
        return HRNP(data=pdu, opcode=HRNPOpcodes.DATA, source=r.randrange(0x20, 0x30), destination=0x10,
                    packet_number=r.randrange(1 << 16), block_number=r.randrange(256))

    out.append(Case("HRNP/payloads", "sum", 16, (80, 96), hrnp_any, lambda o: bytes_to_bits(o.as_bytes()),
                    lambda b: HRNP.from_bytes(b.tobytes()), lambda o: o.checksum_correct))

    def hrnp_long(r):
        """packets longer than 256 octets (long text messages): lengths that need both octets of the length field and are not
        small integers"""
        from harness.drivers import c12
        bs = c12.builders()
        for _ in range(2000):
            pdu = bs[r.randrange(len(bs))][2](r)
            if 245 <= len(pdu.as_bytes()) <= 640:
                break
        else:
            raise core.MachineryError("no long HDAP message could be built")
        return HRNP(data=pdu, opcode=HRNPOpcodes.DATA, source=r.randrange(0x20, 0x30), destination=0x10,
                    packet_number=r.randrange(1 << 16), block_number=r.randrange(256))

    out.append(Case("HRNP/long", "sum", 16, (80, 96), hrnp_long, lambda o: bytes_to_bits(o.as_bytes()),
                    lambda b: HRNP.from_bytes(b.tobytes()), lambda o: o.checksum_correct))

    def hrnp_control(r):
        """the payload-less packets of the connection handshake (the length field is the constant 12)"""
        return HRNP(opcode=r.choice([o for o in HRNPOpcodes if o != HRNPOpcodes.DATA]), source=r.randrange(0x20, 0x30), destination=0x10,
                    packet_number=r.randrange(1 << 16), block_number=r.randrange(256))

    out.append(Case("HRNP/control", "sum", 16, (80, 96), hrnp_control, lambda o: bytes_to_bits(o.as_bytes()),
                    lambda b: HRNP.from_bytes(b.tobytes()), lambda o: o.checksum_correct))

    def hrnp_updated(r):
        """the relay / reply path: a packet that was received (and verified) gets a field updated and is sent on; HRNP's
        serialiser generates the checksum over what it assembles, so the generated check field must verify again"""
        o = HRNP.from_bytes(hrnp(r).as_bytes())
        k = r.randrange(5)
        if k == 0:
            o.packet_number = (o.packet_number + r.choice([1, 255, 256])) & 0xFFFF
        elif k == 1:
            o.source, o.destination = o.destination, o.source
        elif k == 2:
            o.block_number = (o.block_number + 1) & 0xFF
        elif k == 3:
            o.opcode = HRNPOpcodes.DATA_ACK
        else:
            o.data = hrnp(r).data
        return o

    out.append(Case("HRNP/updated", "sum", 16, (80, 96), hrnp_updated, lambda o: bytes_to_bits(o.as_bytes()),
                    lambda b: HRNP.from_bytes(b.tobytes()), lambda o: o.checksum_correct))
    return out


def classify(case, original_fields, bits):
    try:
        o = case.parse(bits)
    except Exception:  # noqa: any decode error is an allowed outcome
        return "decode_error"
    try:
        if not case.indicator(o):
            return "indicator_false"
        return "same_fields" if fields(o) == original_fields else "accepted_different"
    except Exception:  # noqa
        return "decode_error"


def corrupt_case(args):
    """worker: one PDU class; returns (round-trip records, corruption records)"""
    idx, seed, quick = args
    import random
    core.setup_repo_path()
    from bitarray import bitarray
    case = cases()[idx]
    rng = random.Random(seed)
    rt, cor = [], []

    def rec(pattern, outcome, nbits, zero):
        cor.append({"cls": case.name, "kind": case.kind, "width": case.width, "nbits": nbits, "pattern": pattern,
                    "cwpattern": sorted(case.order(t, nbits) for t in pattern), "outcome": outcome, "zero_field": zero})

    npdu = 6 if quick else 20
    aimed = [0]
    for n in range(npdu):
        o = case.build(rng)
        bits = case.ser(o)
        nbits = len(bits)
        try:
            p = case.parse(bits.copy())
            ok = bool(case.indicator(p))
        except Exception:  # noqa
            ok = False
        rt.append({"cls": case.name, "ok": ok})
        if case.kind == "fec":
            continue
        base = fields(case.parse(bits.copy())) if ok else None
        if base is None:
            continue
        lo, hi = case.field

        def run(pattern):
            b = bits.copy()
            for t in pattern:
                b.invert(t)
            rec(sorted(pattern), classify(case, base, b), nbits, not b[lo:hi].any())

        for t in range(nbits):
            run([t])
        pairs = [(a, b) for a in range(nbits) for b in range(a + 1, nbits)]
        if n >= 2 or nbits > 100:
            pairs = rng.sample(pairs, min(len(pairs), 600))
        for a, b in pairs:
            run([a, b])
        inv = {case.order(t, nbits): t for t in range(nbits)}
        for _ in range(600 if quick else 3000):      # bursts (in code word order) no longer than the check field
            ln = rng.randrange(2, case.width + 1)
            st = rng.randrange(0, nbits - ln + 1) if rng.random() < 0.6 else nbits - ln - rng.randrange(0, min(12, nbits - ln + 1))
            inner = [st + k for k in range(1, ln - 1) if rng.getrandbits(1)]
            run([inv[c] for c in [st] + inner + [st + ln - 1]])
        for _ in range(600 if quick else 3000):      # weight 3
            run(rng.sample(range(nbits), 3))
        if n < 3 and aimed[0] == 0:
            for sent, pattern in fold_aimed_patterns(case, bits, nbits)[:60]:
                b = sent.copy()
                for t in pattern:
                    b.invert(t)
                rec(pattern, classify(case, fields(case.parse(sent.copy())), b), nbits, not b[lo:hi].any())
                aimed[0] += 1
        if case.name.endswith("ConfirmedLastBlock") and n == 0:
            # aimed: an error that sets one bit inside the leading zero octets of a small CRC-32 (the last four octets of the block)
            # escapes a CRC-9 computed without those octets with probability 2^-9 - several thousand such errors make that visible
            for _ in range(160 if quick else 1500):
                o2 = case.build(rng)
                while o2.crc32 >> 24:
                    o2 = case.build(rng)
                b2 = case.ser(o2)
                base2 = fields(case.parse(b2.copy()))
                for t in range(len(b2) - 32, len(b2)):
                    if not b2[t]:
                        bb = b2.copy()
                        bb.invert(t)
                        rec([t], classify(case, base2, bb), len(b2), not bb[lo:hi].any())
            # aimed: the error (weight 1..3) that clears every set bit of a light CRC-32 - the block then ends in four zero octets
            for _ in range(1500 if quick else 6000):     # each escapes a CRC-9 computed without the four octets with probability 2^-9
                o2 = case.build(rng)
                while bin(o2.crc32).count("1") > 3:
                    o2 = case.build(rng)
                b2 = case.ser(o2)
                base2 = fields(case.parse(b2.copy()))
                pat = [t for t in range(len(b2) - 32, len(b2)) if b2[t]]
                bb = b2.copy()
                for t in pat:
                    bb.invert(t)
                rec(pat, classify(case, base2, bb), len(b2), not bb[lo:hi].any())
        # aimed at the all-zero check field: flip exactly the set bits of the check field (+ one more bit)
        setbits = [t for t in range(lo, hi) if bits[t]]
        if setbits:
            run(setbits)
            for extra in rng.sample([t for t in range(nbits) if not lo <= t < hi], 6):
                run(sorted(setbits + [extra]))
    return rt, cor, aimed[0]


def low_weight_targets(seed):
    """PDUs whose valid check field has weight 1: a corruption of weight 2 (that bit + one field bit) yields an all-zero field"""
    import random
    core.setup_repo_path()
    rng = random.Random(seed)
    cor = []
    for case in cases():
        if case.kind != "crc":
            continue
        lo, hi = case.field
        for _ in range(60000):
            o = case.build(rng)
            bits = case.ser(o)
            if bits[lo:hi].count() == 1:
                break
        else:
            continue
        base = fields(case.parse(bits.copy()))
        one = [t for t in range(lo, hi) if bits[t]][0]
        others = [t for t in range(len(bits)) if not lo <= t < hi]
        # adjacent to the field first (a burst), then anywhere (weight 2)
        for extra in [lo - 1, lo - 2] + rng.sample(others, 8):
            if extra < 0:
                continue
            b = bits.copy()
            b.invert(one)
            b.invert(extra)
            cor.append({"cls": case.name, "kind": case.kind, "width": case.width, "nbits": len(bits), "pattern": sorted([one, extra]),
                        "cwpattern": sorted(case.order(t, len(bits)) for t in (one, extra)),
                        "outcome": classify(case, base, b), "zero_field": True})
    return cor


def run(ctx):
    ctx.rule = ("(2) exhaustive: all 2^20 slot-type and 2^16 EMB words parsed by the implementation, membership recomputed by TLC; "
                "(1) generated PDUs of 17 classes serialised and parsed; (3) per generated PDU all single-bit errors, all/sampled "
                "double errors, random bursts <= check width, random weight-3 patterns and patterns that zero the check field, "
                "outcome judged by TLC against the guaranteed detection capability. distinct = words + corruption cases.")
    ctx.assumptions += [
        "membership is relative to the code the library's own Golay/QR generator spans (C06 verifies those codes)",
        "a corruption within the proven capability must end in 'indicator false' or a decode error; an accepted object breaks the property also when its fields equal the original (CorruptPduReportedIntact)",
        "guaranteed capability: single bit errors (all), bursts <= check width (CRC), weight <= 3 (CRC-CCITT over 96 bits) - proved on the polynomials in CRC.tla",
    ]
    core.setup_repo_path()
    from harness.drivers.c06 import ba, cls_of, to_int
    G = cls_of("golay_20_8_7", "Golay2087")
    Q = cls_of("quadratic_residue_16_7_6", "QuadraticResidue1676")
    golay = [to_int(G.generate(ba(1 << (7 - i), 8))) for i in range(8)]
    qr = [to_int(Q.generate(ba(1 << (6 - i), 7))) for i in range(7)]
    ncases = len(cases())
    with Pool(core.NCPU) as pool:
        step = (1 << 20) // 64
        slot = sum(pool.map(slot_work, [(lo, lo + step, "slot") for lo in range(0, 1 << 20, step)]), [])
        step = (1 << 16) // 16
        emb = sum(pool.map(slot_work, [(lo, lo + step, "emb") for lo in range(0, 1 << 16, step)]), [])
        parts = pool.map(corrupt_case, [(i, ctx.seed * 101 + i, ctx.quick) for i in range(ncases)])
        targets = pool.apply(low_weight_targets, (ctx.seed,))
    rt = sum((p[0] for p in parts), [])
    # a confirmed rate 3/4 block captured on the air (the repository's test_rate34_conversion vector): the indicator of a valid
    # received block is true - the library's own serialiser has no part in these bits
    from bitarray import bitarray as _ba
    from okdmr.dmrlib.etsi.layer2.pdu.rate34_data import Rate34Data as _R34, Rate34DataTypes as _T34
    _cap = _ba("000000000001011101000101000000000000000000101110111111111111111100000000000000000100000000010001111100100111111100001100001000110011011111111100")
    rt.append({"cls": "Rate34Data/Confirmed-captured-on-air", "ok": bool(_R34.from_bits_typed(bits=_cap, data_type=_T34.Confirmed).crc9_ok)})
    cor = sum((p[1] for p in parts), []) + targets
    ctx.note("fold_aimed_patterns", sum(p[2] for p in parts))
    ctx.count(None, (1 << 20) + (1 << 16))
    for c in cor:
        ctx.count(core.digest([c["cls"], c["pattern"], c["outcome"]]))
    judged = []
    ctx.note("slot_words_accepted", len(slot))
    ctx.note("emb_words_accepted", len(emb))
    ctx.note("corruption_cases", len(cor))
    ctx.note("outcomes", {o: sum(1 for c in cor if c["outcome"] == o) for o in ("indicator_false", "decode_error", "same_fields", "accepted_different")})
    ctx.sample({"corruption_case": cor[len(cor) // 2], "round_trip": rt[0]})
    nsl = max(1, (len(cor) + 399999) // 400000)          # TLC judges at most ~400 000 corruption records per run (memory)
    groups = {}
    ctx.traces_validated = 0
    for j in range(nsl):
        part = cor[j::nsl]
        first = j == 0
        data = {"golay": golay, "qr": qr, "slot_accepted": slot if first else [0], "emb_accepted": emb if first else [0],
                "rt": rt if first else [], "cor": part, "phases": ["slot", "emb", "rt", "cor"] if first else ["cor"]}
        path = os.path.join(ctx.rundir, f"c04_data_{j}.json")
        json.dump(data, open(path, "w"))
        res = core.run_tlc(ctx, "MC_Integrity", "MC_Integrity.cfg", env={"DATA_FILE": path}, timeout=2400, jvm=("-Xss256m",))
        os.unlink(path)
        want = ((1 << 20) + (1 << 16) + len(rt) if first else 0) + len(part)
        if not res.ok or res.distinct < want:
            raise core.MachineryError(f"TLC did not judge all items ({res.distinct} < {want})")
        ctx.traces_validated += (len(rt) if first else 0) + len(part)
        for v in core.parse_printed_json(res, tag="REJECT"):
            judged.append((v["phase"], v["idx"] if v["phase"] != "cor" else j + v["idx"] * nsl, v["why"]))
    ctx.exhaustive = True
    for ph, i, why in judged:
        if ph in ("slot", "emb"):
            w = i
            if ph == "slot":
                cc, dt, par = w >> 16, (w >> 12) & 15, w & 0xFFF
                sub = "zero-parity-field" if par == 0 else ("reserved-data-type-13-15" if dt >= 13 else "other")
            else:
                par = w & 0x1FF
                sub = "zero-parity-field" if par == 0 else "other"
            key = f"integrity/{why}/{sub}"
            item = {"word": w}
        elif ph == "rt":
            key = f"integrity/{why}/{rt[i]['cls']}"
            item = rt[i]
        else:
            c = cor[i]
            key = f"integrity/{why}/{c['cls'].split('/')[0]}/{'zero-check-field' if c['zero_field'] else 'nonzero-check-field'}"
            item = c
        groups.setdefault((key, why), []).append(item)
    for (key, why), items in sorted(groups.items()):
        ctx.violation(key, f"{why}: {len(items)} cases ({key}), first {json.dumps(items[0])[:300]}",
                      {"clause": why, "count": len(items), "first": items[:3]})


def replay(ctx, rec):
    print("replay: re-running the check (cases are regenerated from the seed)")
    run(ctx)
    return ctx.finish()
