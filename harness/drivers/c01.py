"""C01 — a burst the library assembles is parsed back identically, and re-assembles.
spec/Burst.tla (burst layout, SYNC patterns, classification decision table, slot type / EMB words from the learned
Golay / QR rows) + MC_Burst.tla: TLC judges bursts built for every payload kind x colour code x data sync pattern,
voice bursts around every voice sync and around embedded signalling, re-derives slot / centre / coded info bits from the
fields (BPTC via the learned basis codewords, rate 1 directly) and checks the classification table."""
import json
import os
from multiprocessing import Pool

from harness import core, gen
from harness.drivers.c09 import pack

KINDS = ["CSBK/pre", "CSBK/other", "DH/C", "DH/U", "DH/R", "DH/S", "DH/T", "VLC", "TLC", "VLC/gps", "TLC/gps", "VLC/ta", "TLC/ta", "PI",
         "R12/u", "R12/c", "R12/ul", "R12/cl", "R34/u", "R34/c", "R34/ul", "R34/cl", "R1/u", "R1/c", "R1/ul", "R1/cl"]


_PAD = {}


def make_pdu(rng, kind, fill=None):
    """fill: None = random payload octets, 0 / 255 = every payload octet of a rate block / PI header has that value"""
    from okdmr.dmrlib.etsi.layer2.elements.data_types import DataTypes as DT
    from okdmr.dmrlib.etsi.layer2.pdu.pi_header import PIHeader
    from okdmr.dmrlib.etsi.layer2.pdu.rate12_data import Rate12Data, Rate12DataTypes
    from okdmr.dmrlib.etsi.layer2.pdu.rate1_data import Rate1Data, Rate1DataTypes
    from okdmr.dmrlib.etsi.layer2.pdu.rate34_data import Rate34Data, Rate34DataTypes
    fam, _, sub = kind.partition("/")
    if fam == "CSBK":
        if sub == "pre":
            return gen.preamble_csbk(rng, rng.randrange(256), source_address=rng.randrange(1 << 24)), DT.CSBK, None
        return gen.other_csbk(rng, source_address=rng.randrange(1 << 24)), DT.CSBK, None
    if fam == "DH":
        # the 5-bit pad octet count is split over two places of the header: all 32 values are walked through (per format and per
        # process), not drawn - 16 is the value at which the split matters
        # (only inside this check: other users of make_pdu - the purity catalogue - need a function of the generator alone)
        _PAD[sub] = _PAD.get(sub, -1) + 1
        pad = ((16 + _PAD[sub]) % 32 if _PAD.get("walk") else rng.randrange(32)) if sub in "CU" else 0
        return gen.data_header(rng, sub, btf=rng.randrange(0, 64 if sub == "S" else 128), a=sub != "R" and bool(rng.getrandbits(1)),
                               llid_source=rng.randrange(1 << 24), pad=pad), DT.DataHeader, None
    if fam in ("VLC", "TLC") and sub:
        return gen.full_lc_other(rng, sub), (DT.VoiceLCHeader if fam == "VLC" else DT.TerminatorWithLC), None
    if fam == "VLC":
        return gen.full_lc_voice(rng, rng.randrange(1 << 24), group=bool(rng.getrandbits(1))), DT.VoiceLCHeader, None
    if fam == "TLC":
        return gen.full_lc_voice(rng, rng.randrange(1 << 24), group=bool(rng.getrandbits(1))), DT.TerminatorWithLC, None
    if fam == "PI":
        return PIHeader(data=gen.rbytes(rng, 10) if fill is None else bytes([fill]) * 10), DT.PIHeader, None
    C, T, n, dt = {"R12": (Rate12Data, Rate12DataTypes, 12, DT.Rate12Data), "R34": (Rate34Data, Rate34DataTypes, 18, DT.Rate34Data),
                   "R1": (Rate1Data, Rate1DataTypes, 24, DT.Rate1Data)}[fam]
    typ = {"u": T.Unconfirmed, "c": T.Confirmed, "ul": T.UnconfirmedLastBlock, "cl": T.ConfirmedLastBlock}[sub]
    dl = n - (2 if "c" in sub else 0) - (4 if "l" in sub else 0)
    kw = {}
    if "c" in sub:
        kw["dbsn"] = rng.randrange(128)
    if "l" in sub:
        kw["crc32"] = rng.randrange(1, 1 << 32)
    if sub == "u" and fill is None and rng.random() < 0.15:
        # an unconfirmed block whose user octets happen to read as a confirmed block (serial number + valid CRC-9 in front of
        # the rest): the burst cannot know, it is unconfirmed because it was built so
        look = C(data=gen.rbytes(rng, n - 2), packet_type=T.Confirmed, dbsn=rng.randrange(128))
        return C(data=look.as_bits().tobytes(), packet_type=typ), dt, typ
    return C(data=gen.rbytes(rng, dl) if fill is None else bytes([fill]) * dl, packet_type=typ, **kw), dt, typ


def data_work(args):
    seed, kinds, n, layout_cases = args
    import random
    core.setup_repo_path()
    from harness.catalogue import struct as _struct
    from okdmr.dmrlib.etsi.layer2.burst import Burst
    from okdmr.dmrlib.etsi.layer2.elements.burst_types import BurstTypes as BT

    def struct(o):
        # indicators (crc_ok ...) say something about how the object was obtained, they are not payload fields
        d = _struct(o)
        return {k: v for k, v in d.items() if not k.endswith("_ok")} if isinstance(d, dict) else d

    rng = random.Random(seed)
    out = []
    # kinds interleaved in one process (what one kind leaves behind must not show in the next); the first two rounds
    # carry all-zero and all-one payload octets, so that bursts of different coding families share their information bits
    ad = None
    todo = [(k, kind, None) for k in range(n) for kind in kinds] + [(9, "L:" + name, vals) for name, vals in layout_cases]
    for k, kind, vals in todo:
        if True:
            seq = len(out)                      # colour codes and data SYNC patterns rotate over everything this process builds
            cc = seq % 16 if seq < 64 else rng.randrange(16)
            sync = gen.DATA_SYNCS[(seq // 3) % 4 if seq < 200 else rng.randrange(4)]
            rec = {"kind": kind, "cc": cc, "sync": sync, "dt": "", "dtv": 0, "err": "", "nbytes": 0, "bytes": [0] * 17, "payload": [0],
                   "pdt": "", "pcc": -1, "fields_equal": False, "bytes2": [0]}
            try:
                if vals is None:
                    pdu, dt, typ = make_pdu(rng, kind, fill={0: 0, 1: 255}.get(k))
                else:
                    # spec -> code: a PDU of this layout of spec/PDULayouts.tla with in-range values, built by the C03 adapter
                    from harness.pdu_adapters import Adapter
                    from okdmr.dmrlib.etsi.layer2.elements.data_types import DataTypes as DT
                    ad = ad or Adapter()
                    pdu, typ = ad.build(kind[2:], vals), None
                    dt = {"CSBK": DT.CSBK, "DataHeader": DT.DataHeader}.get(kind[2:].split("/")[0]) or [DT.VoiceLCHeader, DT.TerminatorWithLC][seq % 2]
                rec["dt"], rec["dtv"] = dt.name, dt.value
                rec["payload"] = pack(pdu.as_bits())
                raw = gen.assemble_data_burst(pdu, dt, cc, sync)
                rec["nbytes"] = len(raw)
                ba = __import__("bitarray").bitarray(endian="big")
                ba.frombytes(raw)
                rec["bytes"] = pack(ba)
                # a data burst is recognised by its data SYNC pattern whatever burst type the caller announces
                hint = [BT.DataAndControl, BT.Undefined, BT.Vocoder][len(out) % 3]
                p = Burst.from_bytes(raw, burst_type=hint)
                rec["pdt"], rec["pcc"] = p.data_type.name, p.colour_code
                if typ is None:
                    rec["fields_equal"] = struct(p.data) == struct(pdu)
                else:
                    same_bits = p.data.as_bits() == pdu.as_bits()
                    rec["fields_equal"] = bool(same_bits and struct(p.data.convert(typ)) == struct(pdu))
                    if kind.endswith("/u"):
                        # an unconfirmed (not last) block is nothing but its user octets: they come back as they are, without any
                        # conversion (the burst must not read a serial number and CRC-9 into them)
                        rec["fields_equal"] = bool(rec["fields_equal"] and bytes(p.data.data) == bytes(pdu.data))
                ba2 = __import__("bitarray").bitarray(endian="big")
                ba2.frombytes(p.as_bytes())
                rec["bytes2"] = pack(ba2)
            except Exception as ex:  # noqa: failing on supported payloads is an observation
                rec["err"] = type(ex).__name__
            out.append(rec)
    return out


def voice_work(args):
    seed, n, near = args
    import random
    core.setup_repo_path()
    from bitarray import bitarray
    from okdmr.dmrlib.etsi.layer2.burst import Burst
    from okdmr.dmrlib.etsi.layer2.elements.burst_types import BurstTypes
    rng = random.Random(seed)
    out = []
    directed = []
    for c in near:          # spec -> code: valid EMB words nearest to a SYNC pattern, carrying the pattern's middle 32 bits
        mid = bitarray(endian="big")
        mid.frombytes(bytes([c["mid"][0] >> 8, c["mid"][0] & 255, c["mid"][1] >> 8, c["mid"][1] & 255]))
        directed.append((c, mid))
        m1 = mid.copy()
        m1.invert(rng.randrange(32))
        directed.append((c, m1))
    for k in range(n + len(directed)):
        emb = k % 2 == 1 or k >= n
        rec = {"kind": "emb" if emb else "sync", "cc": 0, "pi": 0, "lcss": 0, "err": "", "bytes": [0] * 17, "bytes2": [0], "has_emb": False,
               "is_start": False, "pcc": -1}
        try:
            if k >= n:
                c, m = directed[k - n]
                rec["cc"], rec["pi"], rec["lcss"] = c["cc"], c["pi"], c["lcss"]
                raw = gen.voice_emb_burst(rng, colour_code=rec["cc"], pi=rec["pi"], lcss=rec["lcss"], emb32=m)
            elif emb:
                rec["cc"], rec["pi"], rec["lcss"] = (k // 2) % 16, (k // 32) % 2, (k // 64) % 4
                kind = rng.random()
                m = gen.rbits(rng, 32) if kind < 0.8 else bitarray([1 if kind < 0.9 else 0] * 32)
                raw = gen.voice_emb_burst(rng, colour_code=rec["cc"], pi=rec["pi"], lcss=rec["lcss"], emb32=m)
            else:
                raw = gen.voice_sync_burst(rng, gen.VOICE_SYNCS[(k // 2) % 4])
            ba = bitarray(endian="big")
            ba.frombytes(raw)
            rec["bytes"] = pack(ba)
            # every public way in: the plain from_bytes(x) the statement observes at (no hint), the constructor, from_bits, and
            # from_bytes with the hint a caller who knows the burst kind gives
            way = k % 4
            if k % 8 == 7 and emb:
                # a DATA burst whose centre carries embedded signalling (reverse channel) instead of a sync pattern, given as
                # such: the same 264 bits come back (slot type and embedded signalling name the same colour code)
                from okdmr.dmrlib.etsi.layer2.elements.data_types import DataTypes
                d = bitarray(endian="big")
                d.frombytes(gen.assemble_data_burst(gen.other_csbk(rng, 5), DataTypes.CSBK, rec["cc"], "BsSourcedData"))
                d[108:156] = ba[108:156]
                ba, raw, way = d, d.tobytes(), 4
                rec["bytes"] = pack(ba)
            if way == 0:
                p = Burst.from_bytes(raw)
            elif way == 1:
                p = Burst(full_bits=ba.copy())
            elif way == 2:
                p = Burst.from_bits(ba.copy(), BurstTypes.Undefined if rng.random() < 0.5 else BurstTypes.Vocoder)
            elif way == 4:
                p = Burst.from_bytes(raw, burst_type=BurstTypes.DataAndControl)
            else:
                bt = BurstTypes.Vocoder if emb or rng.random() < 0.5 else rng.choice([BurstTypes.DataAndControl, BurstTypes.Undefined])
                p = Burst.from_bytes(raw, burst_type=bt)
            rec["has_emb"], rec["is_start"] = bool(p.has_emb), bool(p.is_voice_superframe_start)
            rec["pcc"] = p.colour_code if p.has_emb else -1
            ba2 = bitarray(endian="big")
            ba2.frombytes(p.as_bytes())
            rec["bytes2"] = pack(ba2)
        except Exception as ex:  # noqa
            rec["err"] = type(ex).__name__
        out.append(rec)
    return out


def table_rows(rng):
    from bitarray import bitarray
    from okdmr.dmrlib.etsi.layer2.burst import Burst
    from okdmr.dmrlib.etsi.layer2.elements.burst_types import BurstTypes
    from okdmr.dmrlib.etsi.layer2.elements.data_types import DataTypes
    from okdmr.dmrlib.etsi.layer2.elements.sync_patterns import SyncPatterns
    base = bitarray(endian="big")
    base.frombytes(gen.assemble_data_burst(gen.other_csbk(rng, 5), DataTypes.CSBK, 3, "BsSourcedData"))
    rows = []
    centres = [s.name for s in SyncPatterns]
    for centre in centres:
        for bt in ("Undefined", "Vocoder", "DataAndControl"):
            bits = base.copy()
            if centre == "EmbeddedSignalling":
                from okdmr.dmrlib.etsi.layer2.pdu.embedded_signalling import EmbeddedSignalling
                e = EmbeddedSignalling(3, 0, 1).as_bits()
                bits[108:116], bits[116:148], bits[148:156] = e[:8], gen.rbits(rng, 32), e[8:]
            else:
                bits[108:156] = SyncPatterns[centre].as_bits()
            r = {"centre": centre, "bt": bt, "err": "", "is_vocoder": False, "has_emb": False, "has_slot_type": False, "is_start": False}
            try:
                b = Burst(full_bits=bits, burst_type=BurstTypes[bt])
                r.update(is_vocoder=bool(b.is_vocoder), has_emb=bool(b.has_emb), has_slot_type=bool(b.has_slot_type),
                         is_start=bool(b.is_voice_superframe_start))
            except Exception as ex:  # noqa
                r["err"] = type(ex).__name__
            rows.append(r)
    return rows


def run(ctx):
    _PAD["walk"] = True          # before the worker processes are forked
    ctx.rule = ("26 payload kinds (CSBK, five data header formats, voice LC header and terminator with voice-user / GPS / talker-alias link controls, PI header, 12 rate-block variants) x 16 colour "
                "codes x 4 data sync patterns + random combinations are assembled like TransmissionGenerator does, serialised, parsed, "
                "re-serialised; voice bursts around the 4 voice syncs and around EMB for all (colour, PI, LCSS) with random 32 embedded bits; "
                "33 classification rows (centre x burst type); TLC judges all. distinct = distinct bursts.")
    ctx.assumptions += [
        "Burst.from_bytes cannot know whether a rate block is confirmed / last: payload equality for rate data = equal raw bits and equal fields after convert() to the type it was built with",
        "supported payload = the eight PDU kinds of the statement; assembled = built the way TransmissionGenerator builds bursts",
        "BPTC / Golay / QR behaviour itself is C02 / C06; here the composition is judged and re-derived from learned basis codewords and rows",
    ]
    core.setup_repo_path()
    import random
    from harness.drivers.c02 import ones, unit
    from harness.drivers.c06 import ba, cls_of, to_int
    from okdmr.dmrlib.etsi.fec.bptc_196_96 import BPTC19696
    rng = random.Random(ctx.seed)
    G = cls_of("golay_20_8_7", "Golay2087")
    Q = cls_of("quadratic_residue_16_7_6", "QuadraticResidue1676")
    golay = [to_int(G.generate(ba(1 << (7 - i), 8))) for i in range(8)]
    qr = [to_int(Q.generate(ba(1 << (6 - i), 7))) for i in range(7)]
    basis = [ones(BPTC19696.encode(unit(96, i))) for i in range(96)]
    # spec -> code, directed: TLC lists the valid embedded-signalling words nearest to each SYNC pattern (MC_BurstNear)
    npath = os.path.join(ctx.rundir, "c01_near.json")
    json.dump({"qr": qr}, open(npath, "w"))
    resn = core.run_tlc(ctx, "MC_BurstNear", "MC_BurstNear.cfg", env={"DATA_FILE": npath}, workers=1, timeout=600)
    near = list({json.dumps(v, sort_keys=True): v for v in core.parse_printed_json(resn, tag="NEAR")}.values())
    if len(near) < 10:
        raise core.MachineryError(f"too few near-sync embedded-signalling cases enumerated ({len(near)})")
    ctx.note("near_sync_emb_cases", len(near))
    ctx.note("near_sync_min_distance", min(v["dist"] for v in near))
    # every CSBK opcode, data header format and full link control of spec/PDULayouts.tla (the layouts C03 verifies), with random
    # in-range values, goes through burst assembly too: "all supported PDU kinds x all in-range field values"
    from harness.pdu_adapters import Adapter
    res0 = core.run_tlc(ctx, "MC_PDUExport", "MC_PDUExport.cfg", workers=1, timeout=300)
    lay = core.parse_printed_json(res0, tag="LAYOUTS")
    if not lay:
        raise core.MachineryError("layout export failed")
    layouts = lay[0]["all"]
    domains = Adapter().domains(layouts)
    lnames = sorted(n_ for n_ in layouts if n_.split("/")[0] in ("CSBK", "DataHeader", "FullLC96"))
    if len(lnames) < 15:
        raise core.MachineryError(f"too few burst-borne layouts exported: {lnames}")
    lcases = []
    for n_ in lnames:
        for _ in range(8 if ctx.quick else 300):
            vals = {}
            for d in layouts[n_]:
                if d["k"] == "u":
                    dom = domains.get(f"{n_}/{d['f']}")
                    vals[d["f"]] = rng.choice(dom) if dom else rng.getrandbits(d["w"])
            lcases.append((n_, vals))
    rng.shuffle(lcases)
    ctx.note("layout_driven_bursts", {"layouts": len(lnames), "cases": len(lcases)})
    per = 70 if ctx.quick else 2500
    nv = 1200 if ctx.quick else 60000
    with Pool(core.NCPU) as pool:
        nw = 8
        parts = pool.map(data_work, [(ctx.seed * 7 + i, KINDS[i % len(KINDS):] + KINDS[:i % len(KINDS)], (per + nw - 1) // nw + 2, lcases[i::nw]) for i in range(nw)])
        vparts = pool.map(voice_work, [(ctx.seed * 11 + i, nv // 16, near if i == 0 else []) for i in range(16)])
    data = sum(parts, [])
    voice = sum(vparts, [])
    table = table_rows(rng)
    # no vacuity: every payload kind was built with every data SYNC pattern, and every colour code occurs
    combos = {(d["kind"], d["sync"]) for d in data}
    missing = [(k_, s_) for k_ in KINDS for s_ in gen.DATA_SYNCS if (k_, s_) not in combos]
    if missing or {d["cc"] for d in data} != set(range(16)):
        raise core.MachineryError(f"payload kind x data sync x colour code not covered: missing {missing[:4]}")
    for d in data:
        ctx.count(core.digest(d["bytes"]))
    for v in voice:
        ctx.count(core.digest(v["bytes"]))
    path = os.path.join(ctx.rundir, "c01_data.json")
    from harness.drivers import c10
    tl = c10.learn()
    json.dump({"golay": golay, "qr": qr, "basis": basis, "data": data, "voice": voice, "table": table,
               "trellis": {"T": tl["T"], "PD": tl["PD"], "DB": tl["DB"], "I": tl["I"]}}, open(path, "w"))
    ctx.sample({"data_burst": data[100], "voice_burst": voice[3]})
    res = core.run_tlc(ctx, "MC_Burst", "MC_Burst.cfg", env={"DATA_FILE": path}, timeout=2400, jvm=("-Xss256m",))
    want = len(data) + len(voice) + len(table)
    if not res.ok or res.distinct < want:
        raise core.MachineryError(f"TLC did not judge all items ({res.distinct} < {want})")
    ctx.traces_validated = want
    groups = {}
    for v in core.parse_printed_json(res, tag="REJECT"):
        item = data[v["idx"]] if v["phase"] == "data" else voice[v["idx"]]
        groups.setdefault(f"burst/{item['kind']}/{v['why']}", []).append(item)
    for key, items in sorted(groups.items()):
        ctx.violation(key, f"{key}: {len(items)} bursts, first {json.dumps(items[0])[:300]}", {"count": len(items), "first": items[:2]})
    drift = {}
    for v in core.parse_printed_json(res, tag="DRIFT"):
        k = (v["phase"], v["why"]) if v["phase"] != "data" else (data[v["idx"]]["kind"], v["why"])
        drift.setdefault(k, []).append(v["idx"])
    for (k, why), idxs in sorted(drift.items()):
        ctx.model_drift(f"{k}: {why} ({len(idxs)} items)")


def replay(ctx, rec):
    print("replay: re-running the check (bursts are regenerated from the seed)")
    run(ctx)
    return ctx.finish()
