"""C16 — Motorola TMS and ARS messages keep length framing and fields over a round trip.
spec/MotorolaMsg.tla (length rule, header bit fields, sequence-number/encoding header chain, ARS length-value fields, second
headers, CSBK trailer - a complete serialiser in TLA+) + MC_MotorolaMsg.tla: TLC judges messages built with the real classes
over all sequence numbers x encodings x flags x address/text lengths and all ARS PDU types x flags x field lengths."""
import json
import os

from harness import core, gen
from harness.catalogue import harvest


def tms_fields(o):
    t = {"SERVICE_AVAILABILITY": "AVAIL", "TMS_ACKNOWLEDGEMENT": "ACK", "SIMPLE_TEXT_MESSAGE": "TEXT"}[o.header.pdu_type.name]
    sn = o.sequence_number
    enc = o.encoding.value if o.encoding is not None else 0
    f = {"type": t, "ack": bool(o.header.is_acknowledged), "reserved": bool(o.header.is_reserved),
         "address": list(o.address), "cap": o.availability_header.capability.value if (t == "AVAIL" and o.availability_header) else -1,
         "sn": -1 if sn is None else int(sn), "enc": int(enc), "message": list(o.message) if (t == "TEXT" and o.message is not None) else [],
         # the UNDEFINED member and "no encoding" send the same octets but are different field values
         "encundef": o.encoding is not None and int(enc) == 0}
    if t != "TEXT" and t != "ACK":
        f["sn"], f["enc"], f["encundef"] = -1, 0, False
    return f


# texts whose first or last character is one a tidy-minded parser might drop: blanks, line ends, NUL, no-break space, BOM
EDGED = [" ", "operator 7 ", " lead", "\ttab", "line\r\n", "\u00a0nbsp\u00a0", "\x00nul", "nul\x00", "\ufeffbom", "a  b"]


def ars_fields(o):
    h = o.header
    t = h.pdu_type.value
    f = {"type": t, "more": bool(h.has_more_headers), "ack": bool(h.is_acknowledged), "priority": bool(h.is_priority),
         "control": bool(h.is_control_message), "event": 0, "encoding": 0, "device": [], "user": [], "password": [], "second": 0,
         "csbk": bool(o.is_csbk_ars)}
    if t in (0, 5):
        if h.has_more_headers and o.registration_request_header is not None:
            f["event"], f["encoding"] = o.registration_request_header.event.value, o.registration_request_header.encoding.value
        f["device"] = list((o.device_identifier or "").encode("utf-8"))
        f["user"] = list((o.user_identifier or "").encode("utf-8"))
        f["password"] = list((o.password or "").encode("utf-8"))
    if t == 15 and h.has_more_headers and o.response_second_header is not None:
        r = o.response_second_header
        f["second"] = (r.failure_reason.value if r.failure_reason is not None else 0) if h.is_acknowledged else (r.refresh_time or 0)
    return f


def run(ctx):
    ctx.rule = ("TMS: all sequence numbers 0..127 x encodings x acknowledged/reserved flags x address lengths {0,1,7,255} x text lengths "
                "{0,1,100,200 UCS-2 characters}, service availability with every capability, acknowledgements; ARS: all implemented PDU types x "
                "header flags x length-value fields {0,1,17,255 octets, UTF-8 multi-byte} x events x refresh times 1..127 x failure reasons x "
                "CSBK trailer; plus the repository's byte samples. distinct = distinct messages.")
    ctx.assumptions += [
        "field equality modulo the serialisers' documented normalisation: has_more_headers recomputed; ARS second header compared on the field the ack bit selects",
        "implemented ARS PDU types: device / user registration request, status query, device de-registration, device-or-query response",
    ]
    core.setup_repo_path()
    import random
    from okdmr.dmrlib.motorola import automatic_registration_service as A
    from okdmr.dmrlib.motorola import text_messaging_service as T
    rng = random.Random(ctx.seed)
    samples = []
    refused = set()

    def observe(kind, build):
        r = {"kind": kind, "f": None, "err": "", "bytes": [], "parsed": None, "bytes2": [], "len": 0}
        try:
            o = build()
            r["f"] = tms_fields(o) if kind == "tms" else ars_fields(o)
            b = o.as_bytes()
            r["bytes"] = list(b)
            if kind == "ars":
                r["len"] = len(o)
            C = T.TextMessagingService if kind == "tms" else A.AutomaticRegistrationService
            p = C.from_bytes(gen.as_caller_bytes(b, len(samples)))
            r["parsed"] = tms_fields(p) if kind == "tms" else ars_fields(p)
            r["bytes2"] = list(p.as_bytes())
            if len(samples) % 2:          # every other message is handled by a caller that edits its objects after use
                seen = set()
                gen.scribble(o, seen=seen)
                gen.scribble(p, seen=seen)
        except Exception as ex:  # noqa
            r["err"] = type(ex).__name__
            if r["f"] is None:
                # every message here is built from in-range field values: a constructor that refuses them is a failed round trip
                key = f"motorola/{kind}/build-refused/{type(ex).__name__}"
                if key not in refused:
                    refused.add(key)
                    ctx.violation(key, f"{key}: a message could not be built from in-range fields: {ex!r}"[:300], {"kind": kind, "n": len(samples), "error": repr(ex)[:200]})
                return
            r["parsed"] = r["parsed"] or r["f"]
        samples.append(r)
        ctx.count(core.digest([kind, r["f"]]))

    addrs = [b"", b"1", b"1234567", bytes(rng.getrandbits(8) for _ in range(255)), b"\x00", bytes(4), b"\xff" * 3, b" 12 "]
    # UCS-2 texts: empty, ASCII, long, and code units whose low / high octets sit at the extremes (0x00, 0x7F, 0x80, 0xFF) in first,
    # middle and last position
    texts = ["", "A", "x" * 100, "žluťoučký kůň " * 10, "中" * 200, "Übung", "é", "Αθήνα", "\u0080\u00ff\u0100\u7fff\u8000\uffff",
             "a\u0080", "\u00ffz", "\u8080\u8080", "ab\u00e9cd\u0391"] + EDGED
    # ---- TMS
    for sn in range(128):
        for enc in (None, T.TMSEncoding.UCS2_LE):
            for ack in (False, True):
                a = rng.choice(addrs)
                txt = rng.choice(texts).encode("utf-16-le")
                observe("tms", lambda: T.TextMessagingService(first_header=T.FirstHeader(has_more_headers=bool(rng.getrandbits(1)), is_acknowledged=ack, pdu_type=T.TMSPDUType.SIMPLE_TEXT_MESSAGE),
                                                              address=a, sequence_number=sn, encoding=enc, message=txt))
            observe("tms", lambda: T.TextMessagingService(first_header=T.FirstHeader(has_more_headers=bool(rng.getrandbits(1)), pdu_type=T.TMSPDUType.TMS_ACKNOWLEDGEMENT),
                                                          address=rng.choice(addrs), sequence_number=sn))
            # ... built with the UNDEFINED member of the encoding enumeration (nothing is sent for it), text and acknowledgement
            observe("tms", lambda: T.TextMessagingService(first_header=T.FirstHeader(has_more_headers=bool(rng.getrandbits(1)), pdu_type=T.TMSPDUType.SIMPLE_TEXT_MESSAGE),
                                                          address=rng.choice(addrs), sequence_number=sn, encoding=T.TMSEncoding.UNDEFINED,
                                                          message=rng.choice(texts).encode("utf-16-le")))
            if sn % 16 == 0:
                observe("tms", lambda: T.TextMessagingService(first_header=T.FirstHeader(pdu_type=T.TMSPDUType.TMS_ACKNOWLEDGEMENT), address=rng.choice(addrs),
                                                              sequence_number=sn, encoding=T.TMSEncoding.UNDEFINED))
                # ... and an acknowledgement that names an encoding but no sequence number (the constructor takes it)
                observe("tms", lambda: T.TextMessagingService(first_header=T.FirstHeader(pdu_type=T.TMSPDUType.TMS_ACKNOWLEDGEMENT), address=rng.choice(addrs),
                                                              encoding=T.TMSEncoding.UCS2_LE))
            # an acknowledgement that names the encoding of the message it answers (the header chain allows it)
            observe("tms", lambda: T.TextMessagingService(first_header=T.FirstHeader(has_more_headers=bool(rng.getrandbits(1)), pdu_type=T.TMSPDUType.TMS_ACKNOWLEDGEMENT),
                                                          address=rng.choice(addrs), sequence_number=sn, encoding=T.TMSEncoding.UCS2_LE))
    for a in addrs:
        for txt in texts:
            observe("tms", lambda: T.TextMessagingService(first_header=T.FirstHeader(has_more_headers=bool(rng.getrandbits(1)), pdu_type=T.TMSPDUType.SIMPLE_TEXT_MESSAGE, is_reserved=bool(rng.getrandbits(1))),
                                                          address=a, sequence_number=rng.randrange(128), encoding=T.TMSEncoding.UCS2_LE,
                                                          message=txt.encode("utf-16-le")))
        for cap in [None] + list(T.TMSDeviceCapability):
            for ack in (False, True):
                observe("tms", lambda: T.TextMessagingService(first_header=T.FirstHeader(has_more_headers=bool(rng.getrandbits(1)), is_acknowledged=ack, pdu_type=T.TMSPDUType.SERVICE_AVAILABILITY),
                                                              address=a, availability_header=T.AvailabilitySecondHeader(cap) if cap else None))
        observe("tms", lambda: T.TextMessagingService(first_header=T.FirstHeader(has_more_headers=bool(rng.getrandbits(1)), pdu_type=T.TMSPDUType.TMS_ACKNOWLEDGEMENT), address=a))
    # ---- one header object, two messages (a caller keeps a FirstHeader per PDU type and hands it to every message of that type):
    # both messages are built before either is serialised, one has an optional header, the other has none, in both orders
    for rep in range(12):
        a = rng.choice(addrs)
        for order in (0, 1):
            h = T.FirstHeader(pdu_type=T.TMSPDUType.TMS_ACKNOWLEDGEMENT)
            mk = [lambda: T.TextMessagingService(first_header=h, address=a, sequence_number=(rep * 11) % 128),
                  lambda: T.TextMessagingService(first_header=h, address=a)]
            h2 = T.FirstHeader(pdu_type=T.TMSPDUType.SERVICE_AVAILABILITY, is_acknowledged=bool(rep % 2))
            mk2 = [lambda: T.TextMessagingService(first_header=h2, address=a, availability_header=T.AvailabilitySecondHeader(list(T.TMSDeviceCapability)[rep % len(T.TMSDeviceCapability)])),
                   lambda: T.TextMessagingService(first_header=h2, address=a)]
            for makers in (mk, mk2):
                try:
                    msgs = [f() for f in (makers if order == 0 else makers[::-1])]
                except Exception:  # noqa: a refused constructor is reported by the per-message cases above
                    continue
                for m_ in msgs:
                    observe("tms", lambda: m_)
    # ---- ARS
    strs = ["", "a", "1234567", "uživatel-中文-x", "p" * 255, "é" * 127] + EDGED
    P = A.ARSPDUType
    for t in (P.DEVICE_REGISTRATION_REQUEST, P.USER_REGISTRATION_REQUEST):
        for more in (False, True):
            for csbk in (False, True):
                for ev in A.RegistrationEvent:
                    for _ in range(3 if ctx.quick else 60):
                        dev, usr, pw = rng.choice(strs), rng.choice(strs), rng.choice(strs)
                        fl = [bool(rng.getrandbits(1)) for _ in range(3)]
                        observe("ars", lambda: A.AutomaticRegistrationService(
                            first_header=A.FirstHeader(has_more_headers=more, is_acknowledged=fl[0], is_priority=fl[1], is_control_message=fl[2], pdu_type=t),
                            registration_request_header=A.RegistrationRequestHeader(event=ev) if more else None,
                            device_identifier=dev, user_identifier=usr, password=pw, is_csbk_ars=csbk))
    # lengths and characters that make the octets of the CSBK trailer (0x10 0x80) and other header values turn up inside a message
    # that has no trailer: field lengths 16 and 128, total lengths with a low octet of 0x10 / 0x80, the control character U+0010
    pool = ["", "\x10", "ab\x10", "q" * 16, "r" * 128, "s" * 127 + "\x10", "t" * 10, "u" * 11, "v" * 12, "w" * 13, "x" * 14, "y" * 15, "z" * 112, "k" * 125] + EDGED
    for t in (P.DEVICE_REGISTRATION_REQUEST, P.USER_REGISTRATION_REQUEST):
        for k in range(120 if ctx.quick else 8000):
            more = bool(rng.getrandbits(1))
            dev, usr, pw = rng.choice(pool), rng.choice(pool), rng.choice(pool)
            fl = [bool(rng.getrandbits(1)) for _ in range(3)] if k % 2 else [False, False, k % 4 == 0]
            ev = rng.choice(list(A.RegistrationEvent))
            observe("ars", lambda: A.AutomaticRegistrationService(
                first_header=A.FirstHeader(has_more_headers=more, is_acknowledged=fl[0], is_priority=fl[1], is_control_message=fl[2], pdu_type=t),
                registration_request_header=A.RegistrationRequestHeader(event=ev) if more else None,
                device_identifier=dev, user_identifier=usr, password=pw, is_csbk_ars=k % 5 == 0))
    for t in (P.STATUS_QUERY_REQUEST, P.DEVICE_DEREGISTATION_NOTICE):
        for csbk in (False, True):
            for k in range(8):
                fl = [bool(k & 1), bool(k & 2), bool(k & 4)]
                observe("ars", lambda: A.AutomaticRegistrationService(
                    first_header=A.FirstHeader(is_acknowledged=fl[0], is_priority=fl[1], is_control_message=fl[2], pdu_type=t), is_csbk_ars=csbk))
    for csbk in (False, True):
        for refresh in range(1, 128):
            def b():
                h = A.FirstHeader(has_more_headers=True, is_acknowledged=False, is_control_message=True, pdu_type=P.ARS_DEVICE_OR_QUERY_RESPONSE)
                return A.AutomaticRegistrationService(first_header=h, response_second_header=A.ResponseSecondHeader(refresh_time=refresh), is_csbk_ars=csbk)
            observe("ars", b)
        # the response is built from its fields alone, as a caller would (no repr(), no .context() beforehand); the failure reason is
        # given as the enum member and as the plain integer the enum wraps (0 is a reason too)
        for reason in list(A.FailureReason) + [r.value for r in A.FailureReason]:
            def b2():
                h = A.FirstHeader(has_more_headers=True, is_acknowledged=True, is_control_message=True, pdu_type=P.ARS_DEVICE_OR_QUERY_RESPONSE)
                return A.AutomaticRegistrationService(first_header=h, response_second_header=A.ResponseSecondHeader(failure_reason=reason), is_csbk_ars=csbk)
            observe("ars", b2)
        for ack in (False, True):
            observe("ars", lambda: A.AutomaticRegistrationService(first_header=A.FirstHeader(has_more_headers=False, is_acknowledged=ack, pdu_type=P.ARS_DEVICE_OR_QUERY_RESPONSE), is_csbk_ars=csbk))
    ctx.note("messages", len(samples))
    path = os.path.join(ctx.rundir, "c16_data.json")
    json.dump({"samples": samples}, open(path, "w"))
    ctx.sample({"tms": samples[5], "ars": samples[-3]})
    res = core.run_tlc(ctx, "MC_MotorolaMsg", "MC_MotorolaMsg.cfg", env={"DATA_FILE": path}, timeout=1800, jvm=("-Xss256m",))
    if not res.ok or res.distinct < len(samples):
        raise core.MachineryError(f"TLC did not judge all samples ({res.distinct} < {len(samples)})")
    ctx.traces_validated = len(samples)
    groups = {}
    for v in core.parse_printed_json(res, tag="REJECT"):
        s = samples[v["idx"]]
        groups.setdefault(f"motorola/{s['kind']}/{s['f']['type']}/{v['why']}", []).append(s)
    for key, items in sorted(groups.items()):
        ctx.violation(key, f"{key}: {len(items)} messages, first fields {json.dumps(items[0]['f'])[:250]} bytes {bytes(items[0]['bytes']).hex()[:80]}",
                      {"count": len(items), "first": items[:2]})
    drift = {}
    for v in core.parse_printed_json(res, tag="DRIFT"):
        s = samples[v["idx"]]
        drift.setdefault((s["kind"], s["f"]["type"], v["why"]), []).append(v["idx"])
    for k, idxs in sorted(drift.items(), key=str):
        ctx.model_drift(f"{k[0]} {k[1]}: {k[2]} ({len(idxs)} messages)")


def replay(ctx, rec):
    print("replay: re-running the check")
    run(ctx)
    return ctx.finish()
