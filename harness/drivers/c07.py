"""C07 — a generated data transmission is received back as the same payload, checks ok.
spec/Fragmentation.tla (ETSI Table 8.1 arithmetic + generator burst sequence) composed with
spec/Transmission.tla (receiver); MC_Fragmentation enumerates the configurations and prints the
expectation of each; the driver runs each configuration through the real TransmissionGenerator ->
bytes -> Burst.from_bytes -> Terminal and TLC (Trace_Fragmentation) judges the recorded run."""
import contextlib
import io
import os
from multiprocessing import Pool

from harness import core, gen
from harness.drivers import c08

CFG = """SPECIFICATION Spec
CONSTANTS
  GuardEndData = TRUE
  Crc32InEveryBlock = FALSE
  MaxL = {maxl}
  LStride = {stride}
  Preambles = {pre}
  ExtraL = {extra}
INVARIANT TrackerProperty
INVARIANT GeneratedIsReceived
INVARIANT PadFits
ACTION_CONSTRAINT Expect
CHECK_DEADLOCK FALSE
"""

RATES = {"R12": "Rate12Data", "R34": "Rate34Data", "R1": "Rate1Data"}


def pdu_class(rate):
    from okdmr.dmrlib.etsi.layer2.pdu.rate12_data import Rate12Data
    from okdmr.dmrlib.etsi.layer2.pdu.rate1_data import Rate1Data
    from okdmr.dmrlib.etsi.layer2.pdu.rate34_data import Rate34Data
    return {"R12": Rate12Data, "R34": Rate34Data, "R1": Rate1Data}[rate]


def abstract(burst, pos):
    """abstract letter of a parsed burst"""
    n = type(burst.data).__name__
    b = {"cls": "OTHER", "id": pos, "btf": 0, "a": False, "cc": burst.colour_code}
    if n == "CSBK":
        if burst.data.csbko.name == "PreambleCSBK":
            b.update(cls="PRE", btf=burst.data.blocks_to_follow)
        else:
            b.update(cls="CSBK")
    elif n == "DataHeader":
        b.update(cls="DH", btf=burst.data.get_blocks_to_follow() or 0, a=bool(burst.data.is_response_requested))
    elif n in ("Rate12Data", "Rate34Data", "Rate1Data"):
        b.update(cls={"Rate12Data": "R12", "Rate34Data": "R34", "Rate1Data": "R1"}[n])
    elif n == "FullLinkControl":
        b.update(cls="VH" if burst.data_type.name == "VoiceLCHeader" else "TERM")
    return b


class Matcher:
    """maps PDU objects created by the tracker back to burst positions (in-order greedy, by content)"""

    def __init__(self, parsed):
        self.parsed = parsed  # list of parsed bursts, index = position - 1

    def ids(self, objs):
        used = set()
        out = []
        for o in objs:
            out.append(self.one(o, used))
        return out

    def one(self, o, used=None):
        used = used if used is not None else set()
        n = type(o).__name__
        for k, pb in enumerate(self.parsed):
            if k in used or pb.data is None or type(pb.data).__name__ != n:
                continue
            if n in ("Rate12Data", "Rate34Data", "Rate1Data"):
                raw = pb.data.as_bits()
                off = 16 if o.is_confirmed() else 0
                from okdmr.dmrlib.utils.bits_bytes import bytes_to_bits
                if raw[off:off + 8 * len(o.data)] != bytes_to_bits(o.data):
                    continue
            elif pb.data.as_bits() != o.as_bits():
                continue
            used.add(k)
            return k + 1
        return -1


INFO_POSITIONS = list(range(0, 98)) + list(range(166, 264))      # information field of a 264-bit burst


def run_cfg(args):
    """worker: one configuration through generator -> bytes -> parser -> terminal"""
    seed, cfg = args
    import random
    core.setup_repo_path()
    from okdmr.dmrlib.etsi.crc.crc32 import CRC32
    from okdmr.dmrlib.etsi.layer2.burst import Burst
    from okdmr.dmrlib.etsi.layer2.elements.sap_identifier import SAPIdentifier
    from okdmr.dmrlib.transmission.transmission_generator import TransmissionGenerator
    rng = random.Random(seed)
    L, rate, conf, p, N, pad = cfg["L"], cfg["rate"], cfg["conf"], cfg["p"], cfg["N"], cfg["pad"]
    kind = rng.random()
    payload = bytes(L) if kind < 0.1 else (bytes([0xFF]) * L if kind < 0.2 else gen.rbytes(rng, L))
    cc = rng.randrange(16)
    sap = rng.choice([SAPIdentifier.IP_PacketData, SAPIdentifier.ShortData, SAPIdentifier.UDP_IP_compression,
                      SAPIdentifier.Proprietary])
    # the confirmation mode of a generated transmission is its header's A bit (response requested); which header FORMAT announces
    # it is the caller's choice and independent of the mode: the packet data header of the mode (two in three), the one of the other
    # mode, or - where the block count fits its six bits and nothing is padded - the defined short data header, which keeps the
    # count in another field (appended_blocks)
    pick = seed % 6
    hf = ("C" if conf else "U") if pick < 4 else (("U" if conf else "C") if pick == 4 or N > 63 or pad else "S")
    hdr = gen.data_header(rng, hf, btf=N, a=conf, sap=sap,
                          llid_source=rng.randrange(1, 1 << 24), pad=pad)
    trace = {"cfg": {"L": L, "rate": rate, "conf": conf, "p": p}, "ev": [], "seed": seed,
             "fin": None, "gen_error": "", "extra": {k: cfg[k] for k in ("late", "noise", "late_kind") if cfg.get(k)}}
    sink = io.StringIO()
    try:
        with contextlib.redirect_stdout(sink):
            bursts = TransmissionGenerator.generate_full_data_transmission(
                packet_type=pdu_class(rate), userdata=payload, data_header=hdr, csbk_count=p, colour_code=cc)
            raws = [b.as_bytes() for b in bursts]
            if cfg.get("noise"):
                # AirLink (growth): the channel inverts up to `noise` bits of the 196 information bits of every burst whose
                # payload is BPTC(196,96) protected (preambles, header, rate 1/2 blocks); spec/AirLink.tla says the receiver
                # cannot tell the difference
                noisy = []
                for b, r in zip(bursts, raws):
                    if type(b.data).__name__ in ("CSBK", "DataHeader", "Rate12Data"):
                        r = bytearray(r)
                        for pos_ in rng.sample(INFO_POSITIONS, rng.randrange(1, cfg["noise"] + 1)):
                            r[pos_ // 8] ^= 0x80 >> (pos_ % 8)
                        r = bytes(r)
                    noisy.append(r)
                raws = noisy
            parsed = [Burst.from_bytes(r) for r in raws]
            strays = []
            if cfg.get("late"):
                # the receiver entered late into an earlier transmission and heard only some of its data blocks (no header, not
                # the last block); then the generated transmission arrives complete
                from harness.drivers.c01 import make_pdu
                from okdmr.dmrlib.etsi.layer2.elements.data_types import DataTypes
                if cfg.get("late_kind") == "stale-preamble":
                    # ... or only ONE preamble of an earlier transmission whose remaining bursts were lost
                    pre_ = gen.preamble_csbk(rng, 2 + cfg["late"], source_address=rng.randrange(1, 1 << 24))
                    strays.append(Burst.from_bytes(gen.assemble_data_burst(pre_, DataTypes.CSBK, cc, gen.DATA_SYNCS[0])))
                else:
                    for _ in range(cfg["late"]):
                        pdu, dt, _t = make_pdu(rng, rate + ("/c" if conf else "/u"))
                        strays.append(Burst.from_bytes(gen.assemble_data_burst(pdu, dt, cc, gen.DATA_SYNCS[0])))
    except Exception as ex:  # noqa
        trace["gen_error"] = type(ex).__name__ + ": " + str(ex)[:200]
        return trace
    c08.patch_tokens()
    c08._tok[0] = 0
    from okdmr.dmrlib.transmission.terminal import Terminal
    matcher = Matcher(strays + parsed)
    events = []
    handed = []

    from okdmr.dmrlib.transmission.transmission_observer_interface import TransmissionObserverInterface

    class Obs(TransmissionObserverInterface):
        def transmission_started(o, transmission_type):
            events.append({"e": "started", "k": c08.kind(transmission_type), "hk": "None", "hid": 0, "blocks": []})

        def data_transmission_ended(o, transmission_header, blocks):
            handed.append((transmission_header, list(blocks)))
            events.append({"e": "ended", "k": "Data", "hk": c08.hkind(transmission_header),
                           "hid": matcher.one(transmission_header), "blocks": matcher.ids(blocks)})

        def voice_transmission_ended(o, voice_header, blocks):
            events.append({"e": "ended", "k": "Voice", "hk": c08.hkind(voice_header), "hid": -1, "blocks": []})

    term = Terminal(dmrid=1, observers=[Obs()])

    def project():
        out = []
        for i in (1, 2):
            ts = term.timeslots[i]
            tx = ts.transmission
            out.append({
                "tx": {"type": c08.kind(tx.type),
                       "hdr": {"kind": c08.hkind(tx.header), "id": matcher.one(tx.header) if tx.header is not None else 0},
                       "blocks": matcher.ids(tx.blocks), "expected": tx.blocks_expected, "received": tx.blocks_received,
                       "confirmed": bool(tx.confirmed), "lastVoice": tx.last_voice_burst.name.replace("VoiceBurst", ""),
                       "stream": int.from_bytes(tx.stream_no, "big")},
                "rx": ts.rx_sequence, "reset": bool(ts.reset_rx_sequence), "colour": ts.colour_code})
        return {"slots": out, "tok": c08._tok[0]}

    nstart = nend = 0
    for pos, pb in enumerate(strays + parsed, 1):
        events.clear()
        out = {"ev": [], "label": "Unknown", "seq": 0, "stream": 0, "outcome": "ok"}
        try:
            with contextlib.redirect_stdout(sink):
                res = term.process_incoming_burst(pb, 1)
            out["label"] = res.voice_burst.name.replace("VoiceBurst", "")
            out["seq"] = res.sequence_no
            out["stream"] = int.from_bytes(res.stream_no, "big")
        except Exception as ex:  # noqa
            out["outcome"] = "raise:" + type(ex).__name__
        out["ev"] = list(events)
        # the clauses are about the generated transmission: 'started' notifications are counted from its first burst on, 'data ended'
        # notifications when they hand over ITS header (what a receiver with a past does about the earlier transmission - flushes it,
        # drops it - is its own business and not counted against the generated one)
        if pos > len(strays):
            nstart += sum(1 for e in events if e["e"] == "started")
            nend += sum(1 for e in events if e["e"] == "ended" and (not strays or e.get("hid") == len(strays) + p + 1))
        trace["ev"].append({"ts": 1, "op": "burst", "b": abstract(pb, pos), "out": out, "post": project(),
                            "obs": [list(events)]})
    # ---- summary
    blocks, data = [], b""
    hdr_pad = -1
    crc32ok = False
    if handed:
        mine = [x for x in handed if matcher.one(x[0]) == len(strays) + p + 1] if strays else handed
        h, bl = (mine or handed)[0]
        hdr_pad = getattr(h, "pad_octet_count", -1)
        rb = [x for x in bl if type(x).__name__ in ("Rate12Data", "Rate34Data", "Rate1Data")]
        for x in rb:
            blocks.append({"len": len(x.data), "conf": bool(x.is_confirmed()), "last": bool(x.is_last_block()),
                           "crc9ok": bool(x.crc9_ok) if x.is_confirmed() else True})
            data += x.data
        if rb:
            crc32ok = rb[-1].crc32.to_bytes(4, "big") == CRC32.calculate(data).to_bytes(4, "little")
    shape = [{"cls": abstract(pb, 0)["cls"], "btf": abstract(pb, 0)["btf"], "a": abstract(pb, 0)["a"]} for pb in parsed]
    pre = []
    for pb in parsed:
        if abstract(pb, 0)["cls"] != "PRE":
            break
        pre.append(pb.data.blocks_to_follow)
    hdrs = [pb for pb in parsed if type(pb.data).__name__ == "DataHeader"]
    trace["fin"] = {
        "nbursts": len(parsed), "preBtfs": pre,
        # the number of blocks the header announces, in whichever field its format keeps it (blocks_to_follow / appended_blocks)
        "hdrBtf": (hdrs[0].data.get_blocks_to_follow() or 0) if hdrs else -1,
        "hdrPad": hdrs[0].data.pad_octet_count if hdrs else -1,
        "started": nstart, "ended": nend, "blocks": blocks,
        "dataOk": bool(handed) and hdr_pad >= 0 and data == payload + bytes(hdr_pad),
        "crc32Ok": bool(crc32ok), "shape": shape,
        # the colour code the transmission was asked for and the one every generated burst carries once parsed
        "cc": cc, "ccs": [int(pb.colour_code) for pb in parsed]}
    return trace


def judge(ctx, traces, rejects):
    for tid, l, why in rejects:
        t = traces[tid]
        c = t["cfg"]
        key = f"generator/{why}/{c['rate']}/{'confirmed' if c['conf'] else 'unconfirmed'}"
        if (t.get("extra") or {}).get("late_kind"):
            key += "/after-" + t["extra"]["late_kind"]
        ctx.violation(key, f"configuration {c} breaks {why} (step {l} of {len(t['ev'])})",
                      {"cfg": c, "seed": t["seed"], "clause": why, "N": t.get("N"), "pad": t.get("pad"),
                       "fin": t["fin"], "extra": t.get("extra") or {}})


def run(ctx):
    ctx.rule = ("TLC enumerates every configuration (payload length x rate x mode x preamble count) of the "
                "generator+receiver model and prints N and pad of each; the driver runs the real generator, "
                "serialises, re-parses, feeds a real Terminal and TLC judges the run (tracker monitor per burst, "
                "C07 clauses on the summary). distinct = distinct configurations replayed on the code.")
    ctx.assumptions += [
        "the caller builds the header with blocks_to_follow = N and pad_octet_count = pad as the spec computes them (Table 8.1)",
        "configurations with N > 127 (7-bit field) or N + preambles > 255 are outside the statement",
        "trailing CRC-32 compared in the library's on-air byte order; CRC engines themselves are C05",
        "DBSN is not part of the statement (generator leaves it 0)",
    ]
    if ctx.quick:
        maxl, stride, pre, sample = 130, 1, "{0, 1, 3}", 1600
    else:
        maxl, stride, pre, sample = 1500, 7, "{0, 1, 2, 3, 8, 16}", 12000
    with open(os.path.join(ctx.rundir, "MC_Fragmentation_run.cfg"), "w") as f:
        f.write(CFG.format(maxl=maxl, stride=stride, pre=pre, extra="{}"))
    res = core.run_tlc(ctx, "MC_Fragmentation", "MC_Fragmentation_run.cfg", timeout=3000)
    if res.violated:
        ctx.note("design_counterexample", res.violated)
    cfgs = core.parse_printed_json(res, tag="CFG")
    # the extremes: the longest transmissions each rate / mode can announce (N = 125..127), with and without preambles,
    # so that header and preamble counters are exercised at the top of their 7- and 8-bit ranges
    extremes = sorted({n * oct_ - (2 * n if conf else 0) - 4 - d
                       for oct_ in (12, 18, 24) for conf in (False, True)
                       for n in ((127,) if ctx.quick else (126, 127)) for d in ((0, oct_ - 3) if ctx.quick else (0, 1, oct_ - 3))})
    with open(os.path.join(ctx.rundir, "MC_Fragmentation_ext.cfg"), "w") as f:
        f.write(CFG.format(maxl=0, stride=1, pre="{0, 2, 16}" if ctx.quick else "{0, 1, 2, 16, 64, 128}",
                           extra="{" + ", ".join(map(str, extremes)) + "}"))
    res2 = core.run_tlc(ctx, "MC_Fragmentation", "MC_Fragmentation_ext.cfg", timeout=3000)
    if res2.violated:
        ctx.note("design_counterexample_extremes", res2.violated)
    ext = [c for c in core.parse_printed_json(res2, tag="CFG") if c["L"] > 0]
    ctx.note("extreme_configurations", len(ext))
    if len(ext) < 30 and not res2.violated:
        raise core.MachineryError(f"too few extreme configurations printed: {len(ext)}")
    ctx.note("configurations_in_model", len(cfgs))
    if len(cfgs) < 100 and not res.violated:
        raise core.MachineryError(f"too few configurations printed: {len(cfgs)}")
    ctx.exhaustive = True
    cfgs.sort(key=lambda c: (c["L"], c["rate"], c["conf"], c["p"]))
    if len(cfgs) > sample:
        # keep every (rate, mode, residue class of L) and the extremes; sample the rest
        keep = [c for c in cfgs if c["L"] <= 30 and c["p"] <= 1]
        rest = [c for c in cfgs if not (c["L"] <= 30 and c["p"] <= 1)]
        ctx.rng.shuffle(rest)
        cfgs = keep + rest[:max(0, sample - len(keep))]
    cfgs += ext
    jobs = [(ctx.seed * 31 + n, c) for n, c in enumerate(cfgs)]
    with Pool(core.NCPU) as pool:
        traces = pool.map(run_cfg, jobs, chunksize=8)
    ok_traces = []
    for t, (_, c) in zip(traces, jobs):
        t["N"], t["pad"] = c["N"], c["pad"]
        ctx.count(core.digest(t["cfg"]))
        if t["gen_error"]:
            ctx.violation(f"generator/raises/{t['cfg']['rate']}",
                          f"generator raised for {t['cfg']} with header N={c['N']} pad={c['pad']}: {t['gen_error']}",
                          {"cfg": t["cfg"], "seed": t["seed"], "N": c["N"], "pad": c["pad"]})
        else:
            t.pop("gen_error")
            ok_traces.append(t)
    ctx.note("configurations_replayed", len(traces))
    if ok_traces:
        s = ok_traces[len(ok_traces) // 3]
        ctx.sample({"cfg": s["cfg"], "fin": s["fin"], "first_event": s["ev"][0]})
    for part in core.chunks(ok_traces, 250):
        rej = ctx.validate_traces("Trace_Fragmentation", "Trace_Fragmentation.cfg", part)
        judge(ctx, part, rej)
    late_entry_phase(ctx, cfgs)
    airlink_phase(ctx, cfgs)


def airlink_phase(ctx, cfgs):
    """growth beyond the statement (spec/AirLink.tla): the same transmissions over a channel that inverts up to two bits of
    every BPTC-protected information field; the receiver must deliver exactly what it delivers over a clean channel.
    Composes C07 (generator / tracker), C01 (burst parsing) and C02 (BPTC correction); informational."""
    res = core.run_tlc(ctx, "MC_AirLink", "MC_AirLink.cfg", timeout=900)
    if res.violated:
        ctx.note("airlink_design_counterexample", res.violated)
    pick = [c for c in cfgs if c["L"] <= 60 or c["N"] >= 126]
    ctx.rng.shuffle(pick)
    pick = pick[:150 if ctx.quick else 1500]
    jobs = [(ctx.seed * 77 + n, dict(c, noise=2)) for n, c in enumerate(pick)]
    with Pool(core.NCPU) as pool:
        traces = pool.map(run_cfg, jobs, chunksize=8)
    ok = []
    for t, (_, c) in zip(traces, jobs):
        t["N"], t["pad"] = c["N"], c["pad"]
        if t["gen_error"]:
            ctx.outside(f"AirLink: receiving a transmission with <= 2 inverted information bits per burst raised {t['gen_error'][:80]}")
        else:
            t.pop("gen_error")
            ok.append(t)
    ctx.note("airlink_transmissions", len(ok))
    for part in core.chunks(ok, 250):
        for tid, l, why in ctx.validate_traces("Trace_Fragmentation", "Trace_Fragmentation.cfg", part):
            c = part[tid]["cfg"]
            ctx.outside(f"AirLink: with <= 2 inverted information bits per BPTC-protected burst the receiver breaks {why} "
                        f"({c['rate']}, {'confirmed' if c['conf'] else 'unconfirmed'})")


def late_entry_phase(ctx, cfgs):
    """the receiving side has a history: it entered late into an earlier transmission and heard one to three of its data
    blocks (no header, no last block) before the generated transmission arrives complete.  The statement's clauses are judged
    on the generated transmission as before (verdict-bearing: the statement does not ask for a fresh receiver)"""
    pick = [c for c in cfgs if c["L"] <= 80]
    ctx.rng.shuffle(pick)
    pick = pick[:120 if ctx.quick else 1500]
    # one in four of them heard something else of the earlier transmission: a single stale preamble CSBK
    jobs = [(ctx.seed * 91 + n, dict(c, late=1 + n % 3, **({"late_kind": "stale-preamble"} if n % 4 == 3 else {}))) for n, c in enumerate(pick)]
    with Pool(core.NCPU) as pool:
        traces = pool.map(run_cfg, jobs, chunksize=8)
    ok = []
    for t, (_, c) in zip(traces, jobs):
        t["N"], t["pad"] = c["N"], c["pad"]
        ctx.count(core.digest(["late", t["cfg"], c["late"]]))
        if t["gen_error"]:
            ctx.violation(f"late-entry/raises/{t['cfg']['rate']}", f"after {c['late']} stray data blocks the generated transmission {t['cfg']} raised: {t['gen_error']}",
                          {"cfg": t["cfg"], "seed": t["seed"], "N": c["N"], "pad": c["pad"], "late": c["late"]})
        else:
            t.pop("gen_error")
            ok.append(t)
    ctx.note("late_entry_transmissions", len(ok))
    for part in core.chunks(ok, 250):
        judge(ctx, part, ctx.validate_traces("Trace_Fragmentation", "Trace_Fragmentation.cfg", part))


def replay(ctx, rec):
    r = rec["record"]
    c = dict(r["cfg"])
    c["N"], c["pad"] = r["N"], r["pad"]
    c.update(r.get("extra") or {})
    t = run_cfg((r["seed"], c))
    if t["gen_error"]:
        print(f"VIOLATION property=C07 replay={rec.get('path', '(given)')} generator raised {t['gen_error']}")
        return 1
    t.pop("gen_error")
    rej = ctx.validate_traces("Trace_Fragmentation", "Trace_Fragmentation.cfg", [t])
    if rej:
        print(f"VIOLATION property=C07 replay={rec.get('path', '(given)')} why={rej[0][2]}")
        return 1
    print("replay: property holds for this configuration")
    return 0
