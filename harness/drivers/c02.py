"""C02 — BPTC(196,96) returns the sent 96 bits for every codeword and correctable error.
spec/BPTC19696.tla (matrix layout, syndrome decoders from learned parity-check columns, repair as a pass
sequence over error patterns) + MC_BPTC19696.tla.  All 19 306 error patterns of weight <= 2 are run through the
real decoder (on the zero codeword and on a random codeword each) and through the model by TLC."""
import json
import os
from multiprocessing import Pool

from harness import core


def ones(bits):
    return [i for i, b in enumerate(bits) if b]


def unit(n, i):
    from bitarray import bitarray
    a = bitarray([0] * n)
    a[i] = 1
    return a


def pattern(p):
    if p < 196:
        return [p]
    i, n, a = p - 196, 196, 0
    while i >= n - 1 - a:
        i -= n - 1 - a
        a += 1
    return [a, a + 1 + i]


def work(args):
    lo, hi, seed, pats = args
    import random
    core.setup_repo_path()
    from bitarray import bitarray
    from okdmr.dmrlib.etsi.fec.bptc_196_96 import BPTC19696
    rng = random.Random(seed)
    o0, orr = [], []
    for p in pats[lo:hi]:
        e = pattern(p)
        z = bitarray([0] * 196)
        for t in e:
            z.invert(t)
        o0.append(ones(BPTC19696.deinterleave_data_bits(z, True)))
        msg = bitarray([rng.getrandbits(1) for _ in range(96)])
        cw = BPTC19696.encode(msg)
        for t in e:
            cw.invert(t)
        orr.append(ones(BPTC19696.deinterleave_data_bits(cw, True) ^ msg))
    return o0, orr


def learn_hcols(cls, n, k):
    from bitarray.util import int2ba
    cols = []
    for j in range(n):
        if j < k:
            w = cls.generate(int2ba(1 << (k - 1 - j), length=k)).tolist()
            v = 0
            for b in w[k:]:
                v = (v << 1) | int(b)
            cols.append(v)
        else:
            cols.append(1 << (n - 1 - j))
    return cols


def run(ctx):
    ctx.rule = ("all 196 single and 19 110 double error patterns are decoded by the implementation on the zero codeword and "
                "on a random codeword each; TLC enumerates the same patterns, runs the repair model on them and judges the "
                "observations; 96 basis messages and random messages check encode/decode identity and encoder linearity. "
                "distinct = patterns + basis + random messages judged.")
    ctx.assumptions += [
        "2^96 messages are covered by the 96 unit messages, exhaustive error patterns on two codewords each and randomised linearity checks, as the property's quantifier says",
        "'never altered by repair' is judged on all 196 transmitted bits of error-free codewords (repair_if_necessary on the transmitted form, as the decoder calls it, and on the de-interleaved form with deinterleaved=True)",
    ]
    core.setup_repo_path()
    import random
    from bitarray import bitarray
    from okdmr.dmrlib.etsi.fec.bptc_196_96 import BPTC19696
    from okdmr.dmrlib.etsi.fec.hamming_13_9_3 import Hamming1393
    from okdmr.dmrlib.etsi.fec.hamming_15_11_3 import Hamming15113
    deint, infopos = [], [None] * 96
    for t in range(196):
        u = unit(196, t)
        k = ones(BPTC19696.deinterleave_all_bits(u))
        if len(k) != 1:
            raise core.MachineryError("deinterleave_all_bits is not a permutation of positions")
        deint.append(k[0])
        d = ones(BPTC19696.deinterleave_data_bits(u, False))
        if d:
            infopos[d[0]] = t
    if None in infopos:
        raise core.MachineryError("could not learn the info bit positions")
    basis, bdec, bdecraw = [], [], []
    for i in range(96):
        cw = BPTC19696.encode(unit(96, i))
        basis.append(ones(cw))
        bdec.append(ones(BPTC19696.deinterleave_data_bits(cw.copy(), True)))
        bdecraw.append(ones(BPTC19696.deinterleave_data_bits(cw.copy(), False)))
    rng = random.Random(ctx.seed)
    rand = []
    for _ in range(300 if ctx.quick else 20000):
        kind = rng.random()
        msg = bitarray([rng.getrandbits(1) if kind < 0.8 else (1 if kind < 0.9 else 0) for _ in range(96)])
        cw = BPTC19696.encode(msg)
        # the de-interleaved form of the codeword repaired as such (deinterleaved=True) must come back unchanged as well: recorded as
        # the symmetric difference, which must be empty
        dform = BPTC19696.deinterleave_all_bits(cw.copy())
        dkeep = dform.copy()
        drep = BPTC19696.repair_if_necessary(dform, deinterleaved=True)
        rand.append({"msg": ones(msg), "cw": ones(cw), "len": len(cw), "rep": ones(BPTC19696.repair_if_necessary(cw.copy())),
                     "drepdiff": ones(drep ^ dkeep) + ones(dform ^ dkeep),
                     "dec": ones(BPTC19696.deinterleave_data_bits(cw.copy(), True)),
                     "decraw": ones(BPTC19696.deinterleave_data_bits(cw.copy(), False))})
    npat = 196 + 196 * 195 // 2
    pats = list(range(npat))
    step = (npat + 63) // 64
    with Pool(core.NCPU) as pool:
        parts = pool.map(work, [(lo, min(npat, lo + step), ctx.seed + lo, pats) for lo in range(0, npat, step)])
    obs0 = sum((p[0] for p in parts), [])
    obsr = sum((p[1] for p in parts), [])
    data = {"deint": deint, "infopos": infopos, "h15": learn_hcols(Hamming15113, 15, 11), "h13": learn_hcols(Hamming1393, 13, 9),
            "basis": basis, "basisdec": bdec, "basisdecraw": bdecraw, "rand": rand, "exhaustive": True, "patidx": [],
            "obs0": obs0, "obsr": obsr}
    ctx.count(None, 2 * npat + 96 * 3 + len(rand) * 3)
    ctx.distinct = set(range(npat + 96 + len(rand)))
    path = os.path.join(ctx.rundir, "c02_data.json")
    json.dump(data, open(path, "w"))
    ctx.sample({"pattern": pattern(5000), "decoded_wrong_info_bits_on_zero_codeword": obs0[5000], "on_random_codeword": obsr[5000]})
    ctx.note("learned", {"deint_digest": core.digest(deint), "h15": data["h15"], "h13": data["h13"]})
    res = core.run_tlc(ctx, "MC_BPTC19696", "MC_BPTC19696.cfg", env={"DATA_FILE": path}, timeout=2400, jvm=("-Xss256m",))
    if not res.ok or res.distinct < npat + 96 + len(rand) + 196:
        raise core.MachineryError(f"TLC did not judge all items ({res.distinct})")
    ctx.exhaustive = True
    ctx.traces_validated = 2 * npat + 96 + len(rand)
    groups = {}
    for v in core.parse_printed_json(res, tag="REJECT"):
        groups.setdefault((v["phase"], v["why"]), []).append(v["idx"])
    for (ph, why), idxs in sorted(groups.items()):
        cls = ""
        if ph == "err":
            # classify the failing patterns by geometry (same column / same row / other) for the finding key
            geo = set()
            etsi = {(k * 181) % 196: k for k in range(196)}       # transmitted position -> matrix-order index
            for p in idxs:
                e = pattern(p)
                cells = [((etsi[t] - 1) // 15, (etsi[t] - 1) % 15) for t in e if etsi[t] >= 1]
                if len(cells) == 2 and cells[0][1] == cells[1][1]:
                    geo.add("same-column")
                elif len(cells) == 2 and cells[0][0] == cells[1][0]:
                    geo.add("same-row")
                else:
                    geo.add("other")
            cls = "+".join(sorted(geo))
        ctx.violation(f"bptc/{why}/{cls}", f"{why}: {len(idxs)} items fail ({cls}); first pattern {pattern(idxs[0]) if ph == 'err' else idxs[0]}",
                      {"phase": ph, "clause": why, "count": len(idxs), "first": idxs[:5],
                       "first_patterns": [pattern(p) for p in idxs[:5]] if ph == "err" else None})
    drift = {}
    for v in core.parse_printed_json(res, tag="DRIFT") + core.parse_printed_json(res, tag="DESIGN"):
        drift.setdefault((v["phase"], v["why"]), []).append(v["idx"])
    for (ph, why), idxs in sorted(drift.items()):
        ctx.model_drift(f"{ph}: {why} for {len(idxs)} items, first {idxs[0]}")


def replay(ctx, rec):
    core.setup_repo_path()
    from bitarray import bitarray
    from okdmr.dmrlib.etsi.fec.bptc_196_96 import BPTC19696
    bad = 0
    for e in rec["record"].get("first_patterns") or []:
        z = bitarray([0] * 196)
        for t in e:
            z.invert(t)
        d = BPTC19696.deinterleave_data_bits(z, True)
        print(f"pattern {e}: decoded info bits set: {ones(d)}")
        bad += 1 if d.any() else 0
    if bad:
        print(f"VIOLATION property=C02 replay={rec.get('path', '(given)')} {bad} patterns still mis-decode")
        return 1
    print("replay: patterns decode correctly")
    return 0
