"""C15 — LRRP/MBXML documents re-serialise to the bytes they were parsed from.
spec/MBXMLDoc.tla (buffer grammar: documents with announced lengths, optional inline / inherited constants table, token
chains whose value encodings follow from the per-document token tables) on spec/MBXMLVar.tla; MC_MBXMLDoc.tla frames every
observed buffer itself, walks the token chains with the tables learned through LRRP.get_configuration and judges what
MBXML.from_bytes / as_bytes did: the repository's LRRP samples, documents assembled from tokens (object model and token
lookup API), 1..3 documents per buffer, inline and inherited constants tables."""
import json
import os
from copy import copy

from harness import core, gen
from harness.catalogue import harvest, struct


def kind_of(t):
    n = t.token_type.name
    if n == "OPAQUE_I":
        if t.length:
            return {"k": "fixed", "n": int(t.length)}
        if t.length != 0 and len(t.attributes):
            return {"k": "attrs_counted", "n": len(t.attributes)}
        if t.length == 0:
            # no content; attributes without a preset value (the result-code of "result" 0x37) are on the wire, preset ones (0x38) not
            from okdmr.dmrlib.motorola.lrrp import LRRP
            wired = [a for a in t.attributes if (LRRP.ATTRIBUTE_TOKENS[a].value if isinstance(a, int) else None) is None]
            return {"k": "attrs_none", "n": len(wired)} if wired else {"k": "none", "n": 0}
        return {"k": "counted", "n": 0}
    return {"INFO_TIME": {"k": "fixed", "n": 5}, "UINT8": {"k": "uint8", "n": 0}, "NO_VALUE": {"k": "none", "n": 0},
            "UFLOATVAR": {"k": "ufloat", "n": 0}, "SFLOATVAR": {"k": "sfloat", "n": 0}, "UINTVAR": {"k": "uintvar", "n": 0},
            "CIRCLE_2D": {"k": "circle2d", "n": 0}, "POINT_2D": {"k": "point2d", "n": 0}, "POINT_3D": {"k": "point3d", "n": 0}}.get(n, {"k": "x", "n": 0})


def doc_cfg(d):
    """the tokens a document id takes, decided by the document's NAME (a Request takes the query / request element tokens, a Report or
    an Answer the answer / report ones) from the library's three token tables - not by the per-id list in LRRP.get_configuration,
    which is what is being checked: an id that list forgets shows as a document the library cannot read"""
    from okdmr.dmrlib.motorola.lrrp import LRRP
    from okdmr.dmrlib.motorola.mbxml import MBXMLTokenType
    el = dict(LRRP.COMMON_ELEMENT_TOKENS)
    if "Request" in d.name:
        el.update(LRRP.QUERY_REQUEST_MESSAGES_ELEMENT_TOKENS)
    elif "Report" in d.name or "Answer" in d.name:
        el.update(LRRP.ANSWER_AND_REPORT_MESSAGES_ELEMENT_TOKENS)
    return {MBXMLTokenType.ELEMENT_TOKEN: el, MBXMLTokenType.ATTRIBUTE_TOKEN: LRRP.ATTRIBUTE_TOKENS}


def tables():
    from okdmr.dmrlib.motorola.mbxml import MBXMLDocumentIdentifier, MBXMLTokenType
    out = {}
    for d in MBXMLDocumentIdentifier:
        if not d.name.startswith("LRRP"):
            continue
        cfg = doc_cfg(d)
        out[str(d.value[0])] = {"has_cdt": not d.value[1], "tokens": {str(k): kind_of(v) for k, v in cfg[MBXMLTokenType.ELEMENT_TOKEN].items()}}
    return out


def make_token(rng, cfg, tid):
    """a token object of the document's table with a random in-range value in canonical form (or None if not implemented)"""
    from okdmr.dmrlib.motorola.mbxml import MBXMLTokenType
    t = copy(cfg[MBXMLTokenType.ELEMENT_TOKEN][tid])
    t.token_id = tid
    k = kind_of(t)["k"]
    u32 = lambda: rng.choice([0, 1, 127, 128, 300, 16383, 16384, 2 ** 21, 2 ** 28, 2 ** 32 - 1, rng.getrandbits(32)])
    flt = lambda: rng.choice([0, 1, 37, 160, 5000, rng.getrandbits(16)]) + rng.randrange(128) / 128
    four = lambda: bytes(rng.getrandbits(8) for _ in range(4))
    if k == "x":
        return None
    if k == "fixed":
        t.value = bytes(rng.getrandbits(8) for _ in range(kind_of(t)["n"]))
    elif k == "counted":
        t.value = bytes(rng.getrandbits(8) for _ in range(rng.choice([0, 1, 2, 4, 4, 9, 130])))
    elif k == "attrs_counted":
        attrs = []
        for a in t.attributes:
            ac = copy(cfg[MBXMLTokenType.ATTRIBUTE_TOKEN][a])
            ac.token_id = a
            ac.value = u32()
            attrs.append(ac)
        t.attributes = attrs
        t.value = bytes(rng.getrandbits(8) for _ in range(rng.choice([0, 1, 3, 5])))
    elif k == "attrs_none":
        attrs = []
        for a in t.attributes:
            ac = copy(cfg[MBXMLTokenType.ATTRIBUTE_TOKEN][a])
            if ac.value is None:
                ac.token_id = a
                ac.value = u32()
                attrs.append(ac)
            else:
                attrs.append(a)
        t.attributes = attrs
        t.value = b""
    elif k == "none":
        t.value = b"" if t.token_type.name == "OPAQUE_I" else None
    elif k == "uint8":
        t.value = rng.randrange(256)
    elif k == "uintvar":
        t.value = u32()
    elif k == "ufloat":
        t.value = flt()
    elif k == "sfloat":
        t.value = rng.choice([flt() * rng.choice([1, -1]), flt() * rng.choice([1, -1]), -0.0, 0.0, -(rng.randrange(1, 128) / 128)])
    elif k == "circle2d":
        t.value = (four(), four(), flt())
    elif k == "point2d":
        t.value = (four(), four())
    elif k == "point3d":
        t.value = (four(), four(), rng.choice([flt() * rng.choice([1, -1]), -0.0, 0.0]))
    return t


def observe(buf, built, expect_values=None):
    from okdmr.dmrlib.motorola.mbxml import MBXML
    r = {"buf": list(buf), "built": built, "err": "", "ndocs": 0, "ids": [], "tokens": [], "reser": [], "values_equal": True}
    try:
        docs = MBXML.from_bytes(gen.as_caller_bytes(bytes(buf), len(buf)))
        r["ndocs"] = len(docs)
        r["ids"] = [d.id.value[0] for d in docs]
        r["tokens"] = [[p.token_id for p in d.parts] for d in docs]
        out = b""
        for d in docs:
            out += MBXML.as_bytes(d)
        r["reser"] = list(out)
        if expect_values is not None:
            got = [[struct([p.token_id, p.value, [(a.token_id, a.name, a.value) if hasattr(a, "token_id") else a for a in p.attributes]])
                    for p in d.parts] for d in docs]
            r["values_equal"] = got == expect_values
    except Exception as ex:  # noqa
        r["err"] = type(ex).__name__
    return r


def run(ctx):
    ctx.rule = ("the repository's LRRP byte samples; documents assembled from token objects of the 18 LRRP document tables (0..12 implemented "
                "tokens, boundary and random values in canonical form), through the token lookup API, 1..3 documents per buffer, inline and "
                "inherited constants tables; TLC frames and walks every buffer itself. distinct = distinct buffers.")
    ctx.assumptions += [
        "implemented token = global type with both a read and a write branch (OPAQUE_I fixed / counted / with attributes, INFO_TIME, UINT8, NO_VALUE, U/SFLOATVAR, UINTVAR, CIRCLE_2D, POINT_2D, POINT_3D)",
        "canonical form = shortest uintvars, one-septet fractions; documents with a constants table carry it inline or inherit it (CDT length octet 0x01); the default table cannot be expressed on the wire and is outside",
        "counted opaque values may be empty (count 0)",
    ]
    core.setup_repo_path()
    import random
    from okdmr.dmrlib.motorola.lrrp import LRRP
    from okdmr.dmrlib.motorola.mbxml import MBXML, MBXMLDocument, MBXMLDocumentIdentifier, MBXMLTokenType
    rng = random.Random(ctx.seed)
    T = tables()
    samples = []
    # ---- repository samples
    repo = [s for s in harvest("motorola/test_lrrp.py") + harvest("motorola/test_mbxml.py") if len(s) >= 4 and s[0] in range(4, 0x16) and s[1] == len(s) - 2]
    ctx.note("repository_samples", len(repo))
    for s in repo:
        samples.append(observe(s, False))
    # two / three repository samples in one buffer
    for _ in range(40 if ctx.quick else 400):
        k = rng.choice([2, 2, 3])
        if len(repo) >= k:
            samples.append(observe(b"".join(rng.sample(repo, k)), False))
    # ---- documents assembled from token objects
    lrrp_ids = [d for d in MBXMLDocumentIdentifier if d.name.startswith("LRRP")]

    def build_doc(d, mode):
        cfg = doc_cfg(d)
        doc = MBXMLDocument(document_id=d, elements_config=cfg[MBXMLTokenType.ELEMENT_TOKEN], attributes_config=cfg[MBXMLTokenType.ATTRIBUTE_TOKEN])
        tids = list(cfg[MBXMLTokenType.ELEMENT_TOKEN])
        exp = []
        for _ in range(rng.choice([0, 1, 2, 3, 5, 8, 12])):
            t = make_token(rng, cfg, rng.choice(tids))
            if t is None:
                continue
            doc.parts.append(t)
            exp.append(struct([t.token_id, t.value, [(a.token_id, a.name, a.value) if hasattr(a, "token_id") else a for a in t.attributes]]))
        if not d.value[1]:
            doc.constants_table = MBXML.build_constants_table(d) if mode == "inline" else b""
            doc.is_constant_table_default = False
            if mode == "inherited":
                if hasattr(doc, "is_constant_table_inherited"):
                    doc.is_constant_table_inherited = True
        return doc, exp

    def uv(n):
        """canonical uintvar, written here so that document framing does not depend on the library's writers"""
        out = [n & 0x7F]
        n >>= 7
        while n:
            out.append(0x80 | (n & 0x7F))
            n >>= 7
        return bytes(reversed(out))

    nbuilt = 400 if ctx.quick else 30000
    for _ in range(nbuilt):
        ndoc = rng.choice([1, 1, 2, 3])
        buf, wire, exps, ok = b"", b"", [], True
        prev_cdt = False
        for j in range(ndoc):
            d = rng.choice(lrrp_ids)
            # constants table of a document whose id has one: inline, inline but empty (length octet 00), or inherited (01)
            mode = "none" if d.value[1] else ("inherited" if prev_cdt and rng.random() < 0.4 else ("empty" if rng.random() < 0.25 else "inline"))
            try:
                doc, exp = build_doc(d, mode)
                b = MBXML.as_bytes(doc)
                # the same document framed as the grammar says (MBXMLDoc.tla): id, length, constants table part, token chain;
                # only the token chain comes from the library, so a serialiser slip cannot disguise itself as a different input
                parts = b"".join(MBXML.write_part(p) for p in doc.parts)
                cdt = b"" if mode == "none" else (b"\x01" if mode == "inherited" else uv(len(doc.constants_table)) + doc.constants_table)
                w = uv(d.value[0]) + uv(len(cdt + parts)) + cdt + parts
                if mode == "inherited" and not hasattr(doc, "is_constant_table_inherited"):
                    b = w       # the object model cannot express inheritance
            except Exception as ex:  # noqa
                samples.append({"buf": [], "built": True, "err": "build:" + type(ex).__name__, "ndocs": 0, "ids": [], "tokens": [], "reser": [], "values_equal": False})
                ok = False
                break
            buf += b
            wire += w
            exps.append(exp)
            prev_cdt = prev_cdt or not d.value[1]
        if ok:
            samples.append(observe(buf, True, exps))
            if wire != buf:
                samples.append(observe(wire, True, exps))
    # ---- canonical signed floats written by hand (one-octet signed integer part: sign bit 0x40 + magnitude 0..63, one-septet
    # fraction) - the library's writer has no part in these bytes, so a sign it would drop (minus zero: 0x40 0x00) is in the input
    for d in lrrp_ids:
        sf = [tid for tid, t in doc_cfg(d)[MBXMLTokenType.ELEMENT_TOKEN].items() if kind_of(t)["k"] == "sfloat"]
        if not sf or not d.value[1]:
            continue
        for tid in sf:
            for sign in (0, 0x40):
                for m, f in ((0, 0), (0, 1), (0, 127), (1, 0), (63, 64), (rng.randrange(64), rng.randrange(128))):
                    body = uv(tid) + bytes([sign | m, f])
                    samples.append(observe(uv(d.value[0]) + uv(len(body)) + body, False))
    # ---- through the token lookup API
    napi = [0]
    nreq = [0]
    for _ in range(60 if ctx.quick else 600):
        # every LRRP document id, those with a constant data table included (the caller sets no table: the document has none of its own)
        d = rng.choice(lrrp_ids)
        cfg = doc_cfg(d)
        if 0x6C not in cfg[MBXMLTokenType.ELEMENT_TOKEN] and 0x31 not in cfg[MBXMLTokenType.ELEMENT_TOKEN]:
            continue        # a document id whose table only has the common tokens
        is_req = 0x6C not in cfg[MBXMLTokenType.ELEMENT_TOKEN]
        doc = MBXMLDocument(document_id=d, elements_config=cfg[MBXMLTokenType.ELEMENT_TOKEN], attributes_config=cfg[MBXMLTokenType.ATTRIBUTE_TOKEN])
        exp = []
        try:
            rid = LRRP.get_token("request-id", bytes(rng.getrandbits(8) for _ in range(4)), {}, is_request=is_req)
            doc.parts.append(rid)
            # the three forms of 'result' and their result codes are walked through by a counter (every special value occurs in
            # every run, whatever the seed): 0 - the value a truthiness test takes for absent - first
            codes = [0, 1, 5, 127, 128, 200, 70000, 2 ** 28, 2 ** 32 - 1]
            if not is_req:
                napi[0] += 1
            form = napi[0] % 5
            if not is_req and form in (0, 1, 2):
                # the 'result' element that carries a value (operation-error, 0x39): asked for by id, and - every other time - by
                # NAME with its content, where the content-less variants 0x37 / 0x38 of the same name come first in the table
                doc.parts.append(LRRP.get_token(0x39 if form == 0 else "result", bytes(rng.getrandbits(8) for _ in range(3)),
                                                {"result-code": codes[(napi[0] // 5) % len(codes)]}, is_request=False))
            elif not is_req and form == 3:
                doc.parts.append(LRRP.get_token("result", b"", {0x23: 0}, is_request=False))
            elif not is_req:
                # the content-less result with a result code of its own (0x37), found by name + attribute name
                doc.parts.append(LRRP.get_token("result", b"", {"result-code": codes[1:][(napi[0] // 5) % (len(codes) - 1)]}, is_request=False))
            if not is_req and rng.random() < 0.5:
                doc.parts.append(LRRP.get_token("speed-hor", rng.randrange(300) + rng.randrange(128) / 128, {}, is_request=False))
            if is_req and "request-hor-acc" in [t.name for t in cfg[MBXMLTokenType.ELEMENT_TOKEN].values()]:
                # a name shared by an integer and a fractional variant: the value decides
                nreq[0] += 1
                doc.parts.append(LRRP.get_token("request-hor-acc", [5, 5.5, 0, 127.25, 300][nreq[0] % 5], {}, is_request=True))
            for t in doc.parts:
                exp.append(struct([t.token_id, t.value, [(a.token_id, a.name, a.value) if hasattr(a, "token_id") else a for a in t.attributes]]))
            samples.append(observe(MBXML.as_bytes(doc), True, [exp]))
        except Exception as ex:  # noqa
            samples.append({"buf": [], "built": True, "err": "api:" + type(ex).__name__, "ndocs": 0, "ids": [], "tokens": [], "reser": [], "values_equal": False})
    for s in samples:
        ctx.count(core.digest(s["buf"]))
    path = os.path.join(ctx.rundir, "c15_data.json")
    json.dump({"tables": T, "samples": samples}, open(path, "w"))
    ctx.sample({"sample": {k: samples[len(repo) + 50][k] for k in ("buf", "ids", "tokens", "err")}})
    res = core.run_tlc(ctx, "MC_MBXMLDoc", "MC_MBXMLDoc.cfg", env={"DATA_FILE": path}, timeout=2400, jvm=("-Xss256m",))
    if not res.ok or res.distinct < len(samples):
        raise core.MachineryError(f"TLC did not judge all samples ({res.distinct} < {len(samples)})")
    ctx.traces_validated = len(samples)
    groups = {}
    for v in core.parse_printed_json(res, tag="REJECT"):
        s = samples[v["idx"]]
        nd = "multi-document" if (s["buf"] and len(s["buf"]) > 2 and s["buf"][1] + 2 < len(s["buf"])) else "single-document"
        cdt = "/inherited-cdt" if any(True for _ in [0] if bytes(s["buf"]).find(b"\x01") >= 0 and False) else ""
        groups.setdefault(f"mbxml-doc/{v['why']}/{nd}{cdt}", []).append(s)
    for key, items in sorted(groups.items()):
        ctx.violation(key, f"{key}: {len(items)} buffers, first {bytes(items[0]['buf']).hex()} err={items[0]['err']}",
                      {"count": len(items), "first_hex": [bytes(x["buf"]).hex() for x in items[:3]], "err": items[0]["err"]})


def replay(ctx, rec):
    core.setup_repo_path()
    bad = 0
    for h in rec["record"].get("first_hex", []):
        r = observe(bytes.fromhex(h), False)
        print(h, "->", r["err"] or ("identical" if r["reser"] == r["buf"] else "different bytes"))
        bad += 1 if (r["err"] or r["reser"] != r["buf"]) else 0
    if bad:
        print(f"VIOLATION property=C15 replay={rec.get('path', '(given)')} {bad} buffers still fail")
        return 1
    return 0
