"""C17 — HSTRP handler acknowledges each peer message exactly once, whatever the history.
spec/HSTRPHandler.tla (design model + property monitor), MC_HSTRP (exhaustive histories, edge dump ->
transition tours on a real RRSDatagramProtocol with a recording transport), MC_HSTRPLoop (two handlers
back to back, liveness "no ping-pong"), Trace_HSTRP (TLC judges recorded executions, incl. closed loop,
truncated and corrupted datagrams)."""
import json
import os
import socket
from multiprocessing import Pool

from harness import core, gen
from harness.drivers.c08 import tours_from_edges

OTHER_HDAP = [
    "024108050000d20400000e03",            # RCP call request (repository sample)
    "0241880100006803",                    # RCP call reply
]


import asyncio


class FakeTransport(asyncio.DatagramTransport):
    def __init__(self):
        super().__init__()
        self.sent = []

    def sendto(self, data, addr=None):
        self.sent.append((bytes(data), addr))

    def is_closing(self):
        return False

    def close(self):
        pass


def flags_of(byte):
    return {"opt": bool(byte & 0x20), "rej": bool(byte & 0x10), "close": bool(byte & 0x08),
            "conn": bool(byte & 0x04), "hb": bool(byte & 0x02), "ack": bool(byte & 0x01)}


def hdap_checksum(data):
    return ((sum(data) & 0xFF) ^ 0xFF) + 0x33 & 0xFF


def find_hdap(rest):
    """structural search for an HDAP frame that ends the datagram: returns (offset, frame) or (len, None)"""
    for off in range(len(rest)):
        c = rest[off:]
        if len(c) < 7 or c[-1] != 0x03:
            continue
        n = len(c) - 7
        if int.from_bytes(c[3:5], "big") != n and int.from_bytes(c[3:5], "little") != n:
            continue
        if hdap_checksum(c[1:-2]) != c[-2]:
            continue
        return off, c
    return len(rest), None


def classify_sent(data):
    """structural reading of a datagram the handler sent (independent of the library's parser)"""
    d = {"f": flags_of(0), "sn": -1, "optlen": 0, "payload": "malformed", "radio": "", "ok": False}
    if len(data) < 6 or data[0:2] != b"2B":
        return d
    d["f"] = flags_of(data[3])
    d["sn"] = int.from_bytes(data[4:6], "big")
    off, frame = find_hdap(data[6:])
    d["optlen"] = off
    d["ok"] = True
    if frame is None:
        d["payload"] = "none"
    elif frame[0] & 0x7F == 0x11 and frame[2] == 0x80:
        d["payload"] = "rrs_answer"
        d["radio"] = socket.inet_ntoa(frame[5:9])
        # a success answer a peer can read: result 0, the fixed length, and an option flag that says what follows the header
        # (a set flag without option octets makes the reader take the payload for options)
        d["ok"] = frame[9] == 0 and len(frame) == 16 and (d["f"]["opt"] == (off > 0))
    else:
        d["payload"] = "other"
    return d


class Sut:
    def __init__(self, rng):
        from okdmr.dmrlib.protocols.hytera.rrs_datagram_protocol import RRSDatagramProtocol
        self.rng = rng
        self.h = RRSDatagramProtocol(port=30001)
        self.tr = FakeTransport()
        self.h.connection_made(self.tr)

    def build(self, m):
        """bytes of a clean message of class m"""
        from okdmr.dmrlib.hytera.pdu.hstrp import HSTRP, HSTRPOptions, HSTRPOptionType, HSTRPPacketType
        from okdmr.dmrlib.hytera.pdu.radio_ip import RadioIP
        from okdmr.dmrlib.hytera.pdu.radio_registration_service import RadioRegistrationService, RRSTypes
        f = m["f"]
        pt = HSTRPPacketType(have_options=f["opt"], is_reject=f["rej"], is_close=f["close"], is_connect=f["conn"],
                             is_heartbeat=f["hb"], is_ack=f["ack"])
        options = None
        if m["optlen"] > 0:
            options = HSTRPOptions()
            if m["optlen"] == 9:
                options.add_option(HSTRPOptionType.DeviceID, gen.rbytes(self.rng, 4))
                options.add_option(HSTRPOptionType.ChannelID, bytes([self.rng.choice([1, 2])]))
            elif m["optlen"] == 6:
                options.add_option(HSTRPOptionType.DeviceID, gen.rbytes(self.rng, 4))
            elif m["optlen"] == 2:
                options.add_option(HSTRPOptionType.RTP, b"")
            elif m["optlen"] == 12:
                options.add_option(HSTRPOptionType.DeviceID, gen.rbytes(self.rng, 4))
                options.add_option(HSTRPOptionType.XPTSiteID, gen.rbytes(self.rng, 1))
                options.add_option(HSTRPOptionType.XPTIndex, gen.rbytes(self.rng, 1))
            else:
                raise core.MachineryError(f"no option layout of {m['optlen']} octets")
        payload = None
        raw_payload = b""
        if m["payload"] in ("rrs_req", "rrs_off", "rrs_other"):
            ip = RadioIP.from_ip(m["radio"])
            op = {"rrs_req": RRSTypes.RadioRegistrationRequest, "rrs_off": RRSTypes.RadioGoingOffline,
                  "rrs_other": self.rng.choice([RRSTypes.RegistrationStatusCheckRequest,
                                                RRSTypes.RegistrationStatusCheckAnswer,
                                                RRSTypes.RadioRegistrationAnswer])}[m["payload"]]
            payload = RadioRegistrationService(opcode=op, radio_ip=ip, is_reliable=bool(self.rng.getrandbits(1)),
                                               renew_time_seconds=self.rng.randrange(1, 0xFFFE))
        elif m["payload"] == "hdap_other":
            # any HDAP message that is not a registration-service one: the captured ones, or a generated message of any other
            # family / opcode (the builders of the C12 driver)
            k = self.rng.random()
            if m.get("other") is not None:
                # directed: the message of this family / opcode (index into the builders of the C12 driver that are not RRS)
                from harness.drivers import c12
                bs = [b for b in c12.builders() if b[0] != "RRS"]
                raw_payload = bs[m["other"] % len(bs)][2](self.rng).as_bytes()[:260]
            elif k < 0.4:
                raw_payload = bytes.fromhex(self.rng.choice(OTHER_HDAP))
            elif k < 0.5:
                # a text message whose text is not valid UTF-16 (odd length, lone surrogate): well-formed HDAP all the same
                from okdmr.dmrlib.hytera.pdu.text_message_protocol import TextMessageProtocol, TMPService
                raw_payload = TextMessageProtocol(opcode=self.rng.choice([TMPService.SendPrivateMessage, TMPService.SendGroupMessage]),
                                                  request_id=self.rng.randrange(1 << 24), destination_ip=RadioIP(self.rng.randrange(1 << 24)),
                                                  source_ip=RadioIP(self.rng.randrange(1 << 24)),
                                                  text_data=self.rng.choice([b"a", b"\x00\xd8", gen.rbytes(self.rng, 5)])).as_bytes()
            else:
                from harness.drivers import c12
                bs = [b for b in c12.builders() if b[0] != "RRS"]
                while True:
                    raw_payload = bs[self.rng.randrange(len(bs))][2](self.rng).as_bytes()
                    if len(raw_payload) <= 200:
                        break
        return HSTRP(pkt_type=pt, sn=m["sn"], options=options, payload=payload).as_bytes() + raw_payload

    def recv(self, data, m, who=1):
        self.tr.sent.clear()
        out = {"outcome": "ok", "handled": False, "pdu": False}
        try:
            r = self.h.datagram_received(data, ("192.0.2.1", 30001))
            out["handled"] = bool(r[0])
            out["pdu"] = r[1] is not None
        except Exception as ex:  # noqa
            out["outcome"] = "raise:" + type(ex).__name__
        out["sent"] = [classify_sent(d) for d, _ in self.tr.sent]
        out["connected"] = bool(self.h.hstrp_connected)
        out["sn"] = int(self.h.sn)
        out["reg"] = [{"radio": k, "state": v.name} for k, v in self.h.registry.items()]
        return {"who": who, "m": m, "out": out, "raw": data.hex(), "sent_raw": [d.hex() for d, _ in self.tr.sent]}


GARBAGE = {"valid": False, "clean": False, "f": flags_of(0), "sn": 0, "optlen": 0, "payload": "none", "radio": ""}


def msg(flags=(), sn=0, optlen=0, payload="none", radio=""):
    f = flags_of(0)
    for k in flags:
        f[k] = True
    return {"valid": True, "clean": True, "f": f, "sn": sn, "optlen": optlen, "payload": payload, "radio": radio}


def strip(e):
    e = dict(e)
    e.pop("raw", None)
    e.pop("sent_raw", None)
    return e


def run_steps(args):
    """worker: replay a list of (kind, message/bytes) on a fresh handler.
    step = ("clean", m) | ("raw", hex) | ("trunc", m, n) | ("flip", m, [bit positions])"""
    seed, steps = args[0], args[1]
    sn0 = args[2] if len(args) > 2 else 0
    import random
    core.setup_repo_path()
    rng = random.Random(seed)
    sut = Sut(rng)
    sut.h.sn = sn0          # own sequence counter: a state reached after sn0 answers (public attribute, see DESIGN C17)
    ev = []
    for st in steps:
        if st[0] == "clean":
            m = st[1]
            if not m["valid"]:
                data = rng.choice([b"", b"2B", b"2B\x00\x04\x00", gen.rbytes(rng, rng.randrange(1, 40)),
                                   b"XX\x00\x04\x00\x00", b"2B\x00\x20\x00\x01\x99\x00"])
            else:
                data = sut.build(m)
            ev.append(strip(sut.recv(data, m)))
        elif st[0] == "raw":
            ev.append(strip(sut.recv(bytes.fromhex(st[1]), dict(GARBAGE))))
        elif st[0] == "trunc":
            data = sut.build(st[1])
            data = data[:st[2]] if st[2] >= 0 else data[:max(0, len(data) + st[2])]
            ev.append(strip(sut.recv(data, dict(GARBAGE))))
        elif st[0] == "flip":
            data = bytearray(sut.build(st[1]))
            for b in st[2]:
                if b < len(data) * 8:
                    data[b // 8] ^= 0x80 >> (b % 8)
            ev.append(strip(sut.recv(bytes(data), dict(GARBAGE))))
    return {"init": {"sn0": sn0}, "ev": ev}


def run_loop(args):
    """worker: two real handlers back to back; inject datagrams, deliver for a bounded number of rounds"""
    seed, injected, rounds = args
    import random
    core.setup_repo_path()
    rng = random.Random(seed)
    suts = {1: Sut(rng), 2: Sut(rng)}
    q = {1: [], 2: []}
    ev = []
    for who, m in injected:
        q[who].append((suts[who].build(m), m))
    n = 0
    while (q[1] or q[2]) and n < rounds:
        for who in (1, 2):
            if not q[who]:
                continue
            data, m = q[who].pop(0)
            e = suts[who].recv(data, m, who=who)
            for raw in e["sent_raw"]:
                raw = bytes.fromhex(raw)
                c = classify_sent(raw)
                # a datagram produced by the library itself: clean if it is structurally consistent
                consistent = c["ok"] and not (c["f"]["opt"] and c["optlen"] == 0 and c["payload"] != "none")
                answer = c["payload"] == "rrs_answer"
                m2 = {"valid": consistent, "clean": consistent, "f": c["f"], "sn": max(c["sn"], 0), "optlen": c["optlen"],
                      "payload": "rrs_other" if answer else "none", "radio": c["radio"] if answer else ""}
                if not consistent:
                    m2 = dict(GARBAGE)
                q[3 - who].append((raw, m2))
            ev.append(strip(e))
            n += 1
    return {"init": {"sn0": 0}, "ev": ev, "left": len(q[1]) + len(q[2])}


class Ticker:
    """runs the real periodic_maintenance coroutine of a handler under virtual time: asyncio.sleep is replaced by a future the
    harness resolves, so that each wake-up is one step whose sends are observed"""

    def __init__(self, handler):
        self.loop = asyncio.new_event_loop()
        self.real_sleep = asyncio.sleep
        self.waiters = []
        ticker = self

        async def fake_sleep(delay, result=None):
            fut = ticker.loop.create_future()
            ticker.waiters.append(fut)
            await fut
            return result

        self.fake_sleep = fake_sleep
        self.task = None
        self.h = handler

    def _run_pending(self):
        asyncio.sleep = self.fake_sleep
        try:
            self.loop.run_until_complete(self.real_sleep(0))
            self.loop.run_until_complete(self.real_sleep(0))
        finally:
            asyncio.sleep = self.real_sleep

    def tick(self):
        """one wake-up: the first call starts the coroutine (it acts before its first sleep)"""
        if self.task is None:
            self.task = self.loop.create_task(self.h.periodic_maintenance())
        elif self.waiters:
            self.waiters.pop(0).set_result(None)
        self._run_pending()

    def close(self):
        if self.task is not None:
            self.task.cancel()
            try:
                self.loop.run_until_complete(self.task)
            except BaseException:  # noqa
                pass
        self.loop.close()


def run_active(args):
    """worker: handler 1 active (its real periodic_maintenance under virtual time), handler 2 passive, back to back; a script
    of steps: ("tick",), ("deliver", who), ("lose", who), ("inject", who, m).  Events are recorded like in run_loop, a tick
    as a pseudo datagram {"tick": True}"""
    seed, script = args
    import random
    core.setup_repo_path()
    rng = random.Random(seed)
    suts = {1: Sut(rng), 2: Sut(rng)}
    tk = Ticker(suts[1].h)
    q = {1: [], 2: []}
    ev = []

    def forward(who, sent_raw):
        for raw in sent_raw:
            raw = bytes.fromhex(raw)
            c = classify_sent(raw)
            consistent = c["ok"] and not (c["f"]["opt"] and c["optlen"] == 0 and c["payload"] != "none")
            m2 = {"valid": consistent, "clean": consistent, "f": c["f"], "sn": max(c["sn"], 0), "optlen": c["optlen"], "payload": "none", "radio": ""}
            q[3 - who].append((raw, m2 if consistent else dict(GARBAGE)))

    try:
        for st in script:
            if st[0] == "tick":
                suts[1].tr.sent.clear()
                pre = bool(suts[1].h.hstrp_connected)
                out = "ok"
                try:
                    tk.tick()
                except Exception as ex:  # noqa
                    out = "raise:" + type(ex).__name__
                sent = [d.hex() for d, _ in suts[1].tr.sent]
                ev.append({"who": 1, "tick": True, "pre": pre, "outcome": out, "sent": [classify_sent(bytes.fromhex(x)) for x in sent],
                           "connected": bool(suts[1].h.hstrp_connected)})
                forward(1, sent)
            elif st[0] == "deliver" and q[st[1]]:
                data, m = q[st[1]].pop(0)
                e = suts[st[1]].recv(data, m, who=st[1])
                forward(st[1], e["sent_raw"])
                e = strip(e)
                e["tick"] = False
                ev.append(e)
            elif st[0] == "lose" and q[st[1]]:
                q[st[1]].pop(0)
            elif st[0] == "inject":
                q[st[1]].append((suts[st[1]].build(st[2]), st[2]))
    finally:
        tk.close()
    return {"ev": ev, "connected": [bool(suts[1].h.hstrp_connected), bool(suts[2].h.hstrp_connected)], "left": len(q[1]) + len(q[2])}


def client_run(wakeups):
    """worker: the real HRNPClient.go with the endpoints replaced by recording transports and asyncio.sleep by virtual time"""
    import contextlib
    import io
    import logging
    logging.disable(logging.CRITICAL)
    core.setup_repo_path()
    from okdmr.dmrlib.tools.hrnp_client import HRNPClient, HRNPClientConfiguration
    ports = dict(rrs1=30001, rrs2=30002, gps1=30003, gps2=30004, tel1=30005, tel2=30006, tms1=30007, tms2=30008, rcc1=30009, rcc2=30010,
                 rvs1=30012, rvs2=30014, e2e1=30017, e2e2=30018, sdmp1=3017, sdmp2=3018)
    loop = asyncio.new_event_loop()
    asyncio.set_event_loop(loop)
    transports = {}
    waiters = []
    real_sleep = asyncio.sleep

    async def endpoint(factory, local_addr=None, remote_addr=None, **kw):
        proto = factory()
        tr = FakeTransport()
        transports[local_addr[1]] = tr
        proto.connection_made(tr)
        return tr, proto

    async def fake_sleep(delay, result=None):
        fut = loop.create_future()
        waiters.append(fut)
        await fut
        return result
    loop.create_datagram_endpoint = endpoint
    out = {"raised": "", "connects": {}, "wakeups": 0}
    with contextlib.redirect_stdout(io.StringIO()), contextlib.redirect_stderr(io.StringIO()):
        try:
            app = HRNPClient(HRNPClientConfiguration(repeater_ip="10.0.0.1", **ports))
            asyncio.sleep = fake_sleep
            task = loop.create_task(app.go())
            for _ in range(wakeups):
                loop.run_until_complete(real_sleep(0))
                loop.run_until_complete(real_sleep(0))
                if task.done():
                    break
                for fut in waiters[:]:
                    waiters.remove(fut)
                    fut.set_result(None)
                out["wakeups"] += 1
            loop.run_until_complete(real_sleep(0))
            if task.done() and task.exception() is not None:
                out["raised"] = type(task.exception()).__name__
            task.cancel()
            with contextlib.suppress(BaseException):
                loop.run_until_complete(task)
        except Exception as ex:  # noqa
            out["raised"] = type(ex).__name__
        finally:
            asyncio.sleep = real_sleep
            loop.close()
    for port, tr in transports.items():
        out["connects"][str(port)] = sum(1 for d, _ in tr.sent if classify_sent(bytes(d))["f"]["conn"])
    return out


def client_phase(ctx):
    """growth beyond the statement (spec/MC_HSTRPClient.tla): the client that runs one registration service per timeslot"""
    seq = core.run_tlc(ctx, "MC_HSTRPClient", "MC_HSTRPClient.cfg", timeout=300, workers=1)
    both = core.run_tlc(ctx, "MC_HSTRPClient", "MC_HSTRPClient_both.cfg", timeout=300, workers=1)
    with Pool(1) as pool:
        obs = pool.apply(client_run, (6,))
    ctx.note("hrnp_client", {"model_as_written_violates": seq.violated, "model_both_violates": both.violated, "observed": obs})
    ctx.count(core.digest(["client", obs]))
    c = obs["connects"]
    starved = [p for p, n in c.items() if n == 0]
    model_starves = bool(seq.violated) and "EveryServiceAsksToConnect" in str(seq.violated)
    if obs["raised"] or len(c) != 2:
        ctx.model_drift(f"HRNP client: run under virtual time did not open two endpoints or raised: {obs}")
    elif model_starves != bool(starved):
        ctx.model_drift(f"HRNP client: model as written {'starves' if model_starves else 'serves'} a service, observed CONNECTs per port {c}")
    elif starved:
        ctx.outside(f"HRNP client: HRNPClient.go awaits the first registration service's periodic maintenance, which never returns, so the second "
                    f"service's maintenance is never started: after {obs['wakeups']} wake-ups the endpoints sent {c} CONNECT requests (port -> count); "
                    "TLC: EveryServiceAsksToConnect fails for the code as written and holds when both maintenances run")


def active_phase(ctx):
    """growth beyond the statement (spec/MC_HSTRPActive.tla): the active peer's timer.  Design: TLC checks that with a quiet
    environment and finitely many losses both ends connect for good, and shows that a CLOSE crossing the connect handshake (or a
    lost acknowledgement of a close) leaves the link half open for ever - nothing supervises it (heartbeat supervision is a
    TODO in the code).  Binding: the real coroutine under virtual time, every wake-up and delivery compared with the model."""
    with open(os.path.join(ctx.rundir, "MC_HSTRPActive_quiet.cfg"), "w") as f:
        f.write(ACTIVECFG.format(inject=0, lose=2 if ctx.quick else 3, conn="FALSE"))
    res = core.run_tlc(ctx, "MC_HSTRPActive", "MC_HSTRPActive_quiet.cfg", timeout=900, workers=8)
    ctx.note("active_peer_quiet_environment_connects_for_good", bool(res.ok and not res.violated))
    if res.violated:
        ctx.outside(f"active peer: even with a quiet environment the model does not connect for good ({res.violated})")
    with open(os.path.join(ctx.rundir, "MC_HSTRPActive_env.cfg"), "w") as f:
        f.write(ACTIVECFG.format(inject=2, lose=0, conn="FALSE"))
    res2 = core.run_tlc(ctx, "MC_HSTRPActive", "MC_HSTRPActive_env.cfg", timeout=900, workers=8)
    ctx.note("active_peer_half_open_counterexample", res2.violated or "none")
    # ---- the real handlers
    msgs = [msg(("close",)), msg(("hb",)), msg((), sn=7), msg(("conn",))]
    jobs = []
    n = 120 if ctx.quick else 2000
    for i in range(n):
        quiet = i % 3 == 0
        script = []
        for _ in range(ctx.rng.randrange(6, 40)):
            r = ctx.rng.random()
            if r < 0.25:
                script.append(("tick",))
            elif r < 0.85:
                script.append(("deliver", ctx.rng.choice([1, 2])))
            elif r < 0.93:
                script.append(("lose", ctx.rng.choice([1, 2])))
            elif not quiet:
                script.append(("inject", ctx.rng.choice([1, 2]), ctx.rng.choice(msgs[:3] if i % 2 else msgs)))
        # then the environment is quiet and the channel reliable: enough wake-ups and deliveries to settle
        script += [("tick",), ("deliver", 2), ("deliver", 1), ("deliver", 2), ("deliver", 1)] * 6
        jobs.append((ctx.seed * 313 + i, script))
    with Pool(core.NCPU) as pool:
        runs = pool.map(run_active, jobs, chunksize=8)
    half_open = quiet_bad = ticks = 0
    for (seed, script), r in zip(jobs, runs):
        injected = any(s[0] == "inject" for s in script)
        for e in r["ev"]:
            if e.get("tick"):
                ticks += 1
                ctx.count(core.digest(["tick", e["pre"], [x["f"] for x in e["sent"]]]))
                # the model's Tick: exactly one CONNECT with S/N 0 while the link is down, nothing while it is up
                want = [] if e["pre"] else [{"conn": True, "sn": 0}]
                got = [{"conn": bool(x["f"]["conn"] and not x["f"]["ack"]), "sn": x["sn"]} for x in e["sent"]]
                if e["outcome"] != "ok" or got != want or e["connected"] != e["pre"]:
                    ctx.model_drift(f"MC_HSTRPActive: a wake-up of periodic_maintenance (link {'up' if e['pre'] else 'down'}) sent {got}, outcome {e['outcome']}; the model says {want}")
        if r["connected"] != [True, True]:
            if injected:
                half_open += 1
            else:
                quiet_bad += 1
    ctx.note("active_peer_runs", len(runs))
    ctx.note("active_peer_wakeups", ticks)
    ctx.note("active_peer_runs_ending_half_open_or_down", half_open)
    if ticks < 100:
        raise core.MachineryError("the active-peer phase hardly ever woke the coroutine up")
    if quiet_bad:
        ctx.outside(f"active peer: {quiet_bad} runs with a quiet environment did not end with both ends connected although the model says they must")
    if half_open:
        ctx.outside("active peer: after a CLOSE crossing the connect handshake (or a lost acknowledgement) the link stays half open or down for ever although both peers keep running - "
                    "nothing supervises it (TLC counterexample to EventuallyConnectedForGood; heartbeat supervision is a TODO in the code)")


ACTIVECFG = """SPECIFICATION ASpec
CONSTANTS
  AckTheAcks = FALSE
  Inject = {inject}
  Lose = {lose}
  InFlight = 2
  InjectConnect = {conn}
PROPERTY EventuallyConnectedForGood
PROPERTY QuietWhenConnected
INVARIANT ActiveQueuesBounded
CHECK_DEADLOCK FALSE
"""


CFG = """SPECIFICATION Spec
CONSTANTS
  AckTheAcks = FALSE
  MaxDepth = {depth}
INVARIANT PropertyHolds
INVARIANT SnFits
CONSTRAINT Bound
VIEW View
ACTION_CONSTRAINT Edge
CHECK_DEADLOCK FALSE
"""

LOOPCFG = """SPECIFICATION Spec
CONSTANTS
  AckTheAcks = FALSE
  Inject = {inject}
PROPERTY NoPingPong
INVARIANT BoundedQueues
CHECK_DEADLOCK FALSE
"""


def judge(ctx, traces, rejects, origin):
    for tid, l, why in rejects:
        t = traces[tid]
        e = t["ev"][l - 1]
        fl = "+".join(k for k, v in e["m"]["f"].items() if v and k != "opt") or "data"
        cls = (fl + "/" + e["m"]["payload"]) if e["m"]["clean"] else "damaged"
        if why in ("AcksNotAnswered", "OneAckPerMessage", "AckSameSnNoPayload", "ConnectedIsLastConnectClose"):
            cls = fl if e["m"]["clean"] else "damaged"   # the payload plays no role in these clauses
        ctx.violation(f"hstrp/{why}/{cls}",
                      f"{origin}: step {l} message {cls} breaks {why}; observed {json.dumps(e['out'])[:400]}",
                      {"steps": t.get("steps"), "seed": t.get("seed"), "upto": l, "clause": why, "origin": origin,
                       "loop": t.get("loop")})


def directed_cut_steps(rng):
    """every non-RRS HDAP opcode inside a REJECT and inside a plain data message, with its tail cut by 1..14 octets (what remains
    may still parse as the message it was - with fields missing)"""
    from harness.drivers import c12
    nb = len([b for b in c12.builders() if b[0] != "RRS"])
    steps = [("clean", msg(("conn",), sn=1))]
    for idx in range(nb):
        for cut in range(1, 15):
            for flags in (("rej",), ()):
                m = msg(flags, sn=rng.randrange(65536), payload="hdap_other")
                m["other"] = idx
                steps.append(("trunc", m, -cut))
    return steps


def random_steps(rng, n):
    radios = ["10.0.0.%d" % i for i in range(1, 6)] + ["10.2.3.4", "11.255.255.254"]
    steps = []
    for _ in range(n):
        r = rng.random()
        kind = rng.random()
        flags = rng.choice([(), (), (), ("conn",), ("close",), ("hb",), ("ack",), ("rej",), ("conn", "ack"), ("conn", "rej"), ("close", "rej"),
                            ("close", "ack"), ("hb", "ack"), ("ack", "rej")])
        optlen = 0
        if rng.random() < 0.4:
            flags = tuple(flags) + ("opt",)
            optlen = rng.choice([9, 6, 2, 12])
        payload = rng.choice(["none", "none", "rrs_req", "rrs_req", "rrs_off", "rrs_other", "hdap_other"])
        if "hb" in flags:
            payload = "none"   # a heartbeat never carries options or a payload
            flags = tuple(x for x in flags if x != "opt")
            optlen = 0
        m = msg(flags, sn=rng.choice([0, 1, 2, 255, 256, 65535, rng.randrange(65536)]), optlen=optlen,
                payload=payload, radio=rng.choice(radios) if payload.startswith("rrs") else "")
        if kind < 0.75:
            steps.append(("clean", m))
        elif kind < 0.80:
            steps.append(("clean", dict(GARBAGE)))
        elif kind < 0.86:
            steps.append(("trunc", m, rng.randrange(0, 30)))
        elif kind < 0.90:
            # cut from the end: the tail of the payload is missing (one to a dozen octets), the head still parses as what it was
            steps.append(("trunc", m, -rng.randrange(1, 13)))
        else:
            steps.append(("flip", m, [rng.randrange(0, 240) for _ in range(rng.choice([1, 2]))]))
    return steps


def run(ctx):
    ctx.rule = ("TLC explores all datagram histories of the handler model to a depth bound over 19 message classes; "
                "dumped edges are covered by transition tours on a real RRSDatagramProtocol with a recording transport; "
                "TLC checks 'no ping-pong' as a liveness property of two handlers back to back, confirmed by wiring two "
                "real handlers; random histories with truncated / bit-flipped datagrams are recorded and judged by TLC.")
    ctx.assumptions += [
        "an acknowledgement is any datagram with the ack flag; 'answered' = an acknowledgement is sent in reaction",
        "echoing heartbeats while connected is the specified behaviour and not a ping-pong",
        "obligations are judged for clean messages with exactly one role (pure connect / close / data); for "
        "damaged datagrams only NeverRaises and heartbeat-only-when-connected are judged and the monitor resynchronises",
        "sent datagrams are read structurally by the harness (magic, type byte, S/N, HDAP frame by length+checksum+terminator)",
    ]
    depth = 5 if ctx.quick else 7
    with open(os.path.join(ctx.rundir, "MC_HSTRP_run.cfg"), "w") as f:
        f.write(CFG.format(depth=depth))
    res = core.run_tlc(ctx, "MC_HSTRP", "MC_HSTRP_run.cfg", timeout=3000, workers=1)
    if res.violated:
        ctx.note("design_counterexample", res.violated)
    edges = core.parse_printed_json(res, tag="EDGE")
    ctx.note("edges", len(edges))
    if len(edges) < 100:
        raise core.MachineryError(f"edge dump too small ({len(edges)})")
    core.edge_label_coverage(ctx, edges, lambda e: "+".join(k for k in ("conn", "close", "hb", "ack", "rej") if e["m"]["f"].get(k)) + "/" + str(e["m"].get("payload")),
                             "hstrp", 10)
    with open(os.path.join(ctx.rundir, "MC_HSTRPLoop_run.cfg"), "w") as f:
        f.write(LOOPCFG.format(inject=2 if ctx.quick else 3))
    res2 = core.run_tlc(ctx, "MC_HSTRPLoop", "MC_HSTRPLoop_run.cfg", timeout=1200, workers=8)
    if res2.violated:
        ctx.note("design_counterexample_loop", {"violated": res2.violated,
                                                "lasso": [s.get("_action", "")[:80] for s in res2.trace]})
    ctx.exhaustive = True
    # ---- tours on the real handler
    tours = tours_from_edges(edges, max_len=40)
    ctx.note("tours", len(tours))
    jobs = []
    for n, t in enumerate(tours):
        jobs.append((ctx.seed * 13 + n, [("clean", e["m"]) for e in t]))
        for e in t:
            ctx.count(core.digest([e["fv"], e["m"]]))
    with Pool(core.NCPU) as pool:
        traces = pool.map(run_steps, jobs, chunksize=8)
    for t, j in zip(traces, jobs):
        t["seed"], t["steps"] = j
    ctx.sample({"tour_prefix": traces[len(traces) // 2]["ev"][:3]})
    for part in core.chunks(traces, 500):
        judge(ctx, part, ctx.validate_traces("Trace_HSTRP", "Trace_HSTRP.cfg", part), "transition tour")
    # ---- closed loop on real handlers
    inj_pool = [msg(("conn",)), msg(("close",)), msg(("hb",)), msg((), sn=7), msg(("rej",), sn=3),
                msg(("opt",), sn=1, optlen=9, payload="rrs_req", radio="10.0.0.1"),
                msg(("conn", "ack")), msg(("close", "ack")), msg(("ack",), sn=4)]
    jobs = []
    for a in inj_pool:
        jobs.append((ctx.seed + len(jobs), [(1, a)], 12))
        for b in inj_pool:
            jobs.append((ctx.seed + len(jobs), [(1, a), (2, b)], 16))
            jobs.append((ctx.seed + len(jobs), [(1, a), (1, b)], 16))
    with Pool(core.NCPU) as pool:
        loops = pool.map(run_loop, jobs, chunksize=8)
    for t, j in zip(loops, jobs):
        t["seed"], t["loop"] = j[0], [j[1], j[2]]
        ctx.count(core.digest(j[1]))
    ctx.sample({"closed_loop": loops[1]["ev"][:4]})
    judge(ctx, loops, ctx.validate_traces("Trace_HSTRP", "Trace_HSTRP.cfg", loops), "closed loop of two real handlers")
    # ---- random histories
    n, ln = (300, 80) if ctx.quick else (5000, 200)
    # one history in four starts with the own sequence counter a few answers before its 16-bit wrap-around
    jobs = [(ctx.seed * 17 + i, random_steps(ctx.rng, ctx.rng.randrange(5, ln)),
             0 if i % 4 else ctx.rng.choice([65534, 65533, 65532, 65530, 65500, 32767, 255]))
            for i in range(n)]
    # directed: every non-RRS opcode with its tail cut, inside REJECT and plain data messages (split into histories of ~120 steps)
    dsteps = directed_cut_steps(ctx.rng)
    jobs += [(ctx.seed * 19 + k, dsteps[k:k + 120], 0) for k in range(0, len(dsteps), 120)]
    with Pool(core.NCPU) as pool:
        hist = pool.map(run_steps, jobs, chunksize=8)
    for t, j in zip(hist, jobs):
        t["seed"], t["steps"], t["sn0"] = j
        for e in t["ev"]:
            ctx.count(core.digest([e["m"], e["out"]["sent"], e["out"]["connected"]]))
    for part in core.chunks(hist, 500):
        judge(ctx, part, ctx.validate_traces("Trace_HSTRP", "Trace_HSTRP.cfg", part), "random history")
    active_phase(ctx)
    client_phase(ctx)


def replay(ctx, rec):
    r = rec["record"]
    if r.get("loop"):
        t = run_loop((r["seed"], [tuple(x) for x in r["loop"][0]], r["loop"][1]))
    else:
        t = run_steps((r["seed"], [tuple(s) for s in r["steps"]], r.get("sn0", 0)))
    rej = ctx.validate_traces("Trace_HSTRP", "Trace_HSTRP.cfg", [t])
    if rej:
        print(f"VIOLATION property=C17 replay={rec.get('path', '(given)')} why={rej[0][2]} step={rej[0][1]}")
        return 1
    print("replay: property holds on this history")
    return 0
