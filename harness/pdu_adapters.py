"""Adapters between the field records of spec/PDULayouts.tla (name -> natural number) and the library's PDU
classes: build(name, vals) -> object, ser(obj) -> bitarray, parse(name, bits) -> object, extract(name, obj) -> vals.
Also: domains (allowed values of enumeration-typed / restricted fields), used by the TLC case enumeration."""
from bitarray import bitarray
from bitarray.util import ba2int, int2ba


def _mods():
    from okdmr.dmrlib.etsi.layer2.elements.csbk_opcodes import CsbkOpcodes
    from okdmr.dmrlib.etsi.layer2.elements.data_packet_formats import DataPacketFormats
    from okdmr.dmrlib.etsi.layer2.elements.defined_data_formats import DefinedDataFormats
    from okdmr.dmrlib.etsi.layer2.elements.feature_set_ids import FeatureSetIDs
    from okdmr.dmrlib.etsi.layer2.elements.flcos import FLCOs
    from okdmr.dmrlib.etsi.layer2.elements.fragment_sequence_number import FragmentSequenceNumber
    from okdmr.dmrlib.etsi.layer2.elements.full_message_flag import FullMessageFlag
    from okdmr.dmrlib.etsi.layer2.elements.resynchronize_flag import ResynchronizeFlag
    from okdmr.dmrlib.etsi.layer2.elements.sap_identifier import SAPIdentifier
    from okdmr.dmrlib.etsi.layer2.elements.sarq import SARQ
    from okdmr.dmrlib.etsi.layer2.elements.slcos import SLCOs
    from okdmr.dmrlib.etsi.layer2.elements.supplementary_flag import SupplementaryFlag
    from okdmr.dmrlib.etsi.layer2.elements.udt_format import UDTFormat
    from okdmr.dmrlib.etsi.layer3.elements.activity_id import ActivityID
    from okdmr.dmrlib.etsi.layer3.elements.additional_information_field import AdditionalInformationField
    from okdmr.dmrlib.etsi.layer3.elements.announcement_type import AnnouncementType
    from okdmr.dmrlib.etsi.layer3.elements.answer_response import AnswerResponse
    from okdmr.dmrlib.etsi.layer3.elements.channel_timing_opcode import ChannelTimingOpcode
    from okdmr.dmrlib.etsi.layer3.elements.dynamic_identifier import DynamicIdentifier
    from okdmr.dmrlib.etsi.layer3.elements.ip_address_identifier import IPAddressIdentifier
    from okdmr.dmrlib.etsi.layer3.elements.position_error import PositionError
    from okdmr.dmrlib.etsi.layer3.elements.random_access_service_function import RandomAccessServiceFunction
    from okdmr.dmrlib.etsi.layer3.elements.reason_code import ReasonCode
    from okdmr.dmrlib.etsi.layer3.elements.service_options import ServiceOptions
    from okdmr.dmrlib.etsi.layer3.elements.source_type import SourceType
    from okdmr.dmrlib.etsi.layer3.elements.talker_alias_data_format import TalkerAliasDataFormat
    from okdmr.dmrlib.etsi.layer3.elements.udt_option_flag import UDTOptionFlag
    return locals()


def enum_f(E):
    to = lambda v: E(v)
    to.enum = E          # marks an enumeration-typed field (see Adapter.build(plain=True))
    return (to, lambda m: m.value)


def accepts_int(C, kw):
    """does the constructor of C declare that keyword `kw` may be given as a plain int (Union[int, <Enum>])?"""
    import typing
    try:
        hint = typing.get_type_hints(C.__init__).get(kw)
    except Exception:  # noqa
        return False
    return hint is int or int in typing.get_args(hint)


IDENT = (lambda v: v, lambda x: int(x))
BOOL = (lambda v: bool(v), lambda x: int(bool(x)))
NOTBOOL = (lambda v: not bool(v), lambda x: int(not bool(x)))


def bits_f(w):
    return (lambda v: int2ba(v, length=w), lambda b: ba2int(b) if len(b) else 0)


def fields_table():
    """layout field -> (constructor keyword, attribute name, (to_py, from_py)) per family"""
    M = _mods()
    SO = (lambda v: M["ServiceOptions"].from_bits(int2ba(v, length=8)), lambda o: ba2int(o.as_bits()))
    FSN = (lambda v: M["FragmentSequenceNumber"](v), lambda o: o.value)
    csbk = {
        "last_block": ("last_block", "last_block", BOOL), "protect_flag": ("protect_flag", "protect_flag", BOOL),
        "fid": ("manufacturers_feature_set_id", "feature_set", enum_f(M["FeatureSetIDs"])),
        "bs_address": ("bs_address", "bs_address", IDENT), "source_address": ("source_address", "source_address", IDENT),
        "target_address": ("target_address", "target_address", IDENT), "service_options": ("service_options", "service_options", SO),
        "answer_response": ("answer_response", "answer_response", enum_f(M["AnswerResponse"])),
        "additional_information_field": ("additional_information_field", "additional_information_field", enum_f(M["AdditionalInformationField"])),
        "source_type": ("source_type", "source_type", enum_f(M["SourceType"])),
        "service_type": ("service_type", "service_type", enum_f(M["CsbkOpcodes"])),
        "reason_code": ("reason_code", "reason_code", enum_f(M["ReasonCode"])),
        "data_follows": ("csbk_content_follows_preambles", "csbk_content_follows_preambles", NOTBOOL),
        "target_is_group": ("target_address_is_individual", "target_address_is_individual", NOTBOOL),
        "blocks_to_follow": ("blocks_to_follow", "blocks_to_follow", IDENT),
        "sync_age": ("sync_age", "sync_age", IDENT), "generation": ("generation", "generation", IDENT),
        "leader_identifier": ("leader_identifier", "leader_identifier", IDENT), "new_leader": ("new_leader", "new_leader", IDENT),
        "leader_dynamic_identifier": ("leader_dynamic_identifier", "leader_dynamic_identifier", enum_f(M["DynamicIdentifier"])),
        "source_identifier": ("source_identifier", "source_identifier", IDENT),
        "source_dynamic_identifier": ("source_dynamic_identifier", "source_dynamic_identifier", enum_f(M["DynamicIdentifier"])),
        "tsccas_support": ("tsccas_support", "tsccas_support", BOOL),
        "site_timeslot_synchronized": ("site_timeslot_synchronized", "site_timeslot_synchronized", BOOL),
        "document_version_control": ("document_version_control", "document_version_control", IDENT),
        "tscc_is_offset_timing": ("tscc_is_offset_timing", "tscc_is_offset_timing", BOOL),
        "ts_active_connection": ("ts_active_connection", "ts_active_connection", BOOL),
        "aloha_mask": ("aloha_mask", "aloha_mask", IDENT),
        "service_function": ("service_function", "service_function", enum_f(M["RandomAccessServiceFunction"])),
        "nrand_wait": ("nrand_wait", "nrand_wait", IDENT), "tscc_reg_required": ("tscc_reg_required", "tscc_reg_required", BOOL),
        "tscc_backoff": ("tscc_backoff", "tscc_backoff", IDENT), "system_identity_code": ("system_identity_code", "system_identity_code", IDENT),
        "announcement_type": ("announcement_type", "announcement_type", enum_f(M["AnnouncementType"])),
    }
    hdr = {
        "is_group": ("is_group", "is_group", BOOL), "is_response_requested": ("is_response_requested", "is_response_requested", BOOL),
        "sap": ("sap_identifier", "sap_identifier", enum_f(M["SAPIdentifier"])),
        "llid_destination": ("llid_destination", "llid_destination", IDENT), "llid_source": ("llid_source", "llid_source", IDENT),
        "full_message_flag": ("full_message_flag", "full_message_flag", enum_f(M["FullMessageFlag"])),
        "blocks_to_follow": ("blocks_to_follow", "blocks_to_follow", IDENT),
        "resynchronize_flag": ("resynchronize_flag", "resynchronize_flag", enum_f(M["ResynchronizeFlag"])),
        "send_sequence_number": ("send_sequence_number", "send_sequence_number", IDENT),
        "fragment_sequence_number": ("fragment_sequence_number", "fragment_sequence_number", FSN),
        "response_class": ("response_class", "response_class", IDENT), "response_type": ("response_type", "response_type", IDENT),
        "response_status": ("response_status", "response_status", IDENT),
        "defined_data_format": ("defined_data_format", "defined_data_format", enum_f(M["DefinedDataFormats"])),
        "sarq": ("sarq", "sarq", enum_f(M["SARQ"])), "bit_padding": ("bit_padding", "bit_padding", bits_f(8)),
        "is_emergency": ("is_emergency", "is_emergency", BOOL),
        "udt_option_flag": ("udt_option_flag", "udt_option_flag", enum_f(M["UDTOptionFlag"])),
        "udt_format": ("udt_format", "udt_format", enum_f(M["UDTFormat"])),
        "pad_nibbles_count": ("pad_nibbles_count", "pad_nibbles_count", IDENT),
        "appended_blocks": ("appended_blocks", "appended_blocks", IDENT),
        "supplementary_flag": ("supplementary_flag", "supplementary_flag", enum_f(M["SupplementaryFlag"])),
        "udt_opcode": ("udt_opcode", "udt_opcode", enum_f(M["CsbkOpcodes"])),
    }
    flc = {
        "protect_flag": ("protect_flag", "protect_flag", BOOL), "fid": ("fid", "feature_set_id", enum_f(M["FeatureSetIDs"])),
        "service_options": ("service_options", "service_options", SO), "group_address": ("group_address", "group_address", IDENT),
        "source_address": ("source_address", "source_address", IDENT), "target_address": ("target_address", "target_address", IDENT),
        "position_error": ("position_error", "position_error", enum_f(M["PositionError"])),
        "talker_alias_data_format": ("talker_alias_data_format", "talker_alias_data_format", enum_f(M["TalkerAliasDataFormat"])),
        "talker_alias_data_length": ("talker_alias_data_length", "talker_alias_data_length", IDENT),
        "talker_alias_data_msb": ("talker_alias_data_msb", "talker_alias_data_msb", BOOL),
    }
    slc = {
        "ts1_activity_id": ("ts1_activity_id", "ts1_activity_id", enum_f(M["ActivityID"])),
        "ts2_activity_id": ("ts2_activity_id", "ts2_activity_id", enum_f(M["ActivityID"])),
        "ts1_address": ("ts1_address", "ts1_address", bits_f(8)), "ts2_address": ("ts2_address", "ts2_address", bits_f(8)),
    }
    udp = {
        "ipv4_identification": ("ipv4_identification", "ipv4_identification", IDENT),
        "source_ip_address_id": ("source_ip_address_id", "source_ip_address_id", enum_f(M["IPAddressIdentifier"])),
        "destination_ip_address_id": ("destination_ip_address_id", "destination_ip_address_id", enum_f(M["IPAddressIdentifier"])),
        "udp_source_port_id": ("udp_source_port_id", "udp_source_port_original", IDENT),
        "udp_destination_port_id": ("udp_destination_port_id", "udp_destination_port_original", IDENT),
        "extended_header_1": ("extended_header_1", "extended_header_1", IDENT),
        "extended_header_2": ("extended_header_2", "extended_header_2", IDENT),
    }
    return {"CSBK": csbk, "DataHeader": hdr, "FullLC96": flc, "FullLC77": flc, "ShortLC": slc, "UDP": udp, "PI": {},
            "Rate12Data": {"dbsn": ("dbsn", "dbsn", IDENT)}, "Rate34Data": {"dbsn": ("dbsn", "dbsn", IDENT)},
            "Rate1Data": {"dbsn": ("dbsn", "dbsn", IDENT)}}


def limbs(vals, prefix):
    """collect limb fields prefix_1.. (16 bits) and prefix_t (tail) -> (list of (value, width))"""
    out = []
    k = 1
    while f"{prefix}_{k}" in vals:
        out.append((vals[f"{prefix}_{k}"], 16))
        k += 1
    return out


def limbs_to_bits(vals, prefix, tail_width=0):
    b = bitarray()
    for v, w in limbs(vals, prefix):
        b += int2ba(v, length=w)
    if f"{prefix}_t" in vals:
        b += int2ba(vals[f"{prefix}_t"], length=tail_width)
    return b


def bits_to_limbs(out, prefix, b, names):
    """split bitarray b into the limb fields present in names"""
    pos, k = 0, 1
    while f"{prefix}_{k}" in names:
        out[f"{prefix}_{k}"] = ba2int(b[pos:pos + 16]) if len(b) >= pos + 16 else -1
        pos += 16
        k += 1
    if f"{prefix}_t" in names:
        rest = b[pos:]
        out[f"{prefix}_t"] = ba2int(rest) if len(rest) else -1


def signed(v, w):
    return v - (1 << w) if v >= 1 << (w - 1) else v


class Adapter:
    def __init__(self):
        self.T = fields_table()
        self.M = _mods()

    # ------------------------------------------------------------------ domains
    def domains(self, layouts):
        """layouts: name -> list of field descriptors (from TLC); returns "name/field" -> allowed values"""
        import enum
        dom = {}
        for name, L in layouts.items():
            fam, sub = name.split("/")
            for d in L:
                if d["k"] != "u":
                    continue
                f = d["f"]
                ent = self.T.get(fam, {}).get(f)
                if ent is not None:
                    to_py = ent[2][0]
                    # enumeration typed: the allowed values are the defined members
                    try:
                        probe = to_py(0)
                    except Exception:  # noqa
                        probe = None
                    E = None
                    for v in range(1 << min(d["w"], 8)):
                        try:
                            x = to_py(v)
                            if isinstance(x, enum.Enum):
                                E = type(x)
                                break
                        except Exception:  # noqa
                            continue
                    if E is not None:
                        dom[f"{name}/{f}"] = sorted(m.value for m in E if 0 <= m.value < (1 << d["w"]))
                if fam == "UDP" and f in ("udp_source_port_id", "udp_destination_port_id"):
                    nonzero = [1, 2, 3, 64, 95, 96, 127]
                    if sub == "UdpNoExt":
                        dom[f"{name}/{f}"] = nonzero
                    elif sub == "UdpTwoExt":
                        dom[f"{name}/{f}"] = [0]
                    else:
                        dom[f"{name}/{f}"] = [0] if f == "udp_source_port_id" else nonzero
                if fam.startswith("Rate") and f.startswith("crc32"):
                    pass
        return dom

    # ------------------------------------------------------------------ build
    _CLS = {"CSBK": ("okdmr.dmrlib.etsi.layer2.pdu.csbk", "CSBK"), "DataHeader": ("okdmr.dmrlib.etsi.layer2.pdu.data_header", "DataHeader"),
            "FullLC96": ("okdmr.dmrlib.etsi.layer2.pdu.full_link_control", "FullLinkControl"),
            "FullLC77": ("okdmr.dmrlib.etsi.layer2.pdu.full_link_control", "FullLinkControl"),
            "ShortLC": ("okdmr.dmrlib.etsi.layer2.pdu.short_link_control", "ShortLinkControl"),
            "UDP": ("okdmr.dmrlib.etsi.layer3.pdu.udp_ipv4_compressed_header", "UDPIPv4CompressedHeader")}

    def optional_fields(self, name, vals):
        """fields of the case that map one-to-one onto a constructor parameter which has a default: a caller may leave them out"""
        import importlib
        import inspect
        fam = name.split("/")[0]
        if fam not in self._CLS:
            return []
        C = getattr(importlib.import_module(self._CLS[fam][0]), self._CLS[fam][1])
        params = inspect.signature(C.__init__).parameters
        out = []
        for f in vals:
            ent = self.T.get(fam, {}).get(f)
            # a default of None marks a field that other opcodes / formats of the same class do not have (it is required for the
            # ones that do); a default VALUE (0, False, b"", an empty bitarray) is a field the caller may really leave out. The UDP
            # header is left alone: leaving out an extended header selects another layout.
            if fam != "UDP" and ent is not None and ent[0] in params and params[ent[0]].default is not inspect.Parameter.empty \
                    and params[ent[0]].default is not None:
                out.append(f)
        # the alias octets of the talker alias link controls (one constructor argument, default b"", carried in 16-bit limbs)
        if fam in ("FullLC96", "FullLC77") and "talker_alias_data_1" in vals and params["talker_alias_data"].default is not None:
            out.append("talker_alias_data_1")
        # likewise the manufacturer data / broadcast parameters of two CSBK opcodes (one argument each, carried in several fields)
        if fam == "CSBK" and "raw_data_1" in vals:
            out.append("raw_data_1")
        if fam == "CSBK" and "params1" in vals:
            out.append("params1")
        return out

    def build(self, name, vals, plain=False, omit=()):
        """plain: enumeration-typed fields are given as plain integers wherever the constructor declares it accepts them;
        omit: fields (from optional_fields) whose constructor argument is not passed at all"""
        fam, sub = name.split("/")
        M = self.M
        kw = {}
        C0 = None
        vals = {f: v for f, v in vals.items() if f not in omit}
        if plain:
            import importlib
            C0 = {"CSBK": ("okdmr.dmrlib.etsi.layer2.pdu.csbk", "CSBK"), "DataHeader": ("okdmr.dmrlib.etsi.layer2.pdu.data_header", "DataHeader"),
                  "FullLC96": ("okdmr.dmrlib.etsi.layer2.pdu.full_link_control", "FullLinkControl"),
                  "FullLC77": ("okdmr.dmrlib.etsi.layer2.pdu.full_link_control", "FullLinkControl"),
                  "ShortLC": ("okdmr.dmrlib.etsi.layer2.pdu.short_link_control", "ShortLinkControl"),
                  "UDP": ("okdmr.dmrlib.etsi.layer3.pdu.udp_ipv4_compressed_header", "UDPIPv4CompressedHeader")}.get(fam)
            C0 = getattr(importlib.import_module(C0[0]), C0[1]) if C0 else None
        for f, v in vals.items():
            ent = self.T.get(fam, {}).get(f)
            if ent is not None:
                conv = ent[2][0]
                if C0 is not None and getattr(conv, "enum", None) is not None and accepts_int(C0, ent[0]):
                    kw[ent[0]] = v
                else:
                    kw[ent[0]] = conv(v)
        if fam == "CSBK":
            from okdmr.dmrlib.etsi.layer2.pdu.csbk import CSBK
            if "cto_hi" in vals:
                kw["channel_timing_opcode"] = M["ChannelTimingOpcode"]((vals["cto_hi"] << 1) | vals["cto_lo"])
            if "raw_data_1" in vals:
                kw["raw_data"] = limbs_to_bits(vals, "raw_data").tobytes()
            if "params1" in vals:
                kw["broadcast_params"] = int2ba(vals["params1"], length=14) + int2ba(vals["params2"], length=24)
            return CSBK(csbko=M["CsbkOpcodes"][sub], **kw)
        if fam == "DataHeader":
            from okdmr.dmrlib.etsi.layer2.pdu.data_header import DataHeader
            if "poc_hi" in vals:
                kw["pad_octet_count"] = (vals["poc_hi"] << 4) | vals["poc_lo"]
            if "ab_hi" in vals:
                kw["appended_blocks"] = (vals["ab_hi"] << 4) | vals["ab_lo"]
            return DataHeader(dpf=M["DataPacketFormats"][sub], **kw)
        if fam in ("FullLC96", "FullLC77"):
            from okdmr.dmrlib.etsi.layer2.pdu.full_link_control import FullLinkControl
            crc = limbs_to_bits(vals, "crc", 8 if fam == "FullLC96" else 5)
            if "longitude_raw" in vals:
                kw["longitude"] = signed(vals["longitude_raw"], 25) * (360 / 2 ** 25)
                kw["latitude"] = signed(vals["latitude_raw"], 24) * (180 / 2 ** 24)
            if "talker_alias_data_1" in vals:     # (left out as a whole: the driver omits every limb together)
                kw["talker_alias_data"] = limbs_to_bits(vals, "talker_alias_data", 8).tobytes()
            return FullLinkControl(flco=M["FLCOs"][sub], crc=crc, **kw)
        if fam == "ShortLC":
            from okdmr.dmrlib.etsi.layer2.pdu.short_link_control import ShortLinkControl
            return ShortLinkControl(slco=M["SLCOs"][sub], **kw)
        if fam == "PI":
            from okdmr.dmrlib.etsi.layer2.pdu.pi_header import PIHeader
            return PIHeader(data=limbs_to_bits(vals, "data").tobytes())
        if fam.startswith("Rate"):
            C, T = self.rate_classes(fam)
            # the block's octets as the caller happens to hold them: bytes, a bytes subclass, a bytearray, a memoryview slice
            from harness import gen
            data = limbs_to_bits(vals, "data", 8).tobytes()
            data = gen.as_caller_buffer(data, sum(data) + len(data))
            if "crc32_1" in vals:
                kw["crc32"] = (vals["crc32_1"] << 16) | vals["crc32_2"]
            return C(data=data, packet_type=T[sub], **kw)
        if fam == "UDP":
            from okdmr.dmrlib.etsi.layer3.pdu.udp_ipv4_compressed_header import UDPIPv4CompressedHeader
            return UDPIPv4CompressedHeader(user_data=limbs_to_bits(vals, "user_data"), **kw)
        raise KeyError(name)

    def rate_classes(self, fam):
        from okdmr.dmrlib.etsi.layer2.pdu.rate12_data import Rate12Data, Rate12DataTypes
        from okdmr.dmrlib.etsi.layer2.pdu.rate1_data import Rate1Data, Rate1DataTypes
        from okdmr.dmrlib.etsi.layer2.pdu.rate34_data import Rate34Data, Rate34DataTypes
        return {"Rate12Data": (Rate12Data, Rate12DataTypes), "Rate34Data": (Rate34Data, Rate34DataTypes),
                "Rate1Data": (Rate1Data, Rate1DataTypes)}[fam]

    def parse(self, name, bits):
        fam, sub = name.split("/")
        if fam == "CSBK":
            from okdmr.dmrlib.etsi.layer2.pdu.csbk import CSBK
            return CSBK.from_bits(bits)
        if fam == "DataHeader":
            from okdmr.dmrlib.etsi.layer2.pdu.data_header import DataHeader
            return DataHeader.from_bits(bits)
        if fam in ("FullLC96", "FullLC77"):
            from okdmr.dmrlib.etsi.layer2.pdu.full_link_control import FullLinkControl
            return FullLinkControl.from_bits(bits)
        if fam == "ShortLC":
            from okdmr.dmrlib.etsi.layer2.pdu.short_link_control import ShortLinkControl
            return ShortLinkControl.from_bits(bits)
        if fam == "PI":
            from okdmr.dmrlib.etsi.layer2.pdu.pi_header import PIHeader
            return PIHeader.from_bits(bits)
        if fam.startswith("Rate"):
            C, T = self.rate_classes(fam)
            return C.from_bits_typed(bits, T[sub])
        if fam == "UDP":
            from okdmr.dmrlib.etsi.layer3.pdu.udp_ipv4_compressed_header import UDPIPv4CompressedHeader
            return UDPIPv4CompressedHeader.from_bits(bits)
        raise KeyError(name)

    def extract(self, name, o, names):
        """field record of a parsed object, for the fields in `names`; -1 = not representable"""
        fam, sub = name.split("/")
        out = {}
        for f in names:
            ent = self.T.get(fam, {}).get(f)
            if ent is not None:
                try:
                    out[f] = int(ent[2][1](getattr(o, ent[1])))
                except Exception:  # noqa
                    out[f] = -1
        if "cto_hi" in names:
            out["cto_hi"], out["cto_lo"] = o.channel_timing_opcode.value >> 1, o.channel_timing_opcode.value & 1
        if "raw_data_1" in names:
            b = bitarray()
            b.frombytes(o.raw_data)
            bits_to_limbs(out, "raw_data", b, names)
        if "params1" in names:
            bp = o.broadcast_params
            out["params1"] = ba2int(bp[:14]) if len(bp) >= 14 else -1
            out["params2"] = ba2int(bp[14:38]) if len(bp) >= 38 else -1
        if "poc_hi" in names:
            out["poc_hi"], out["poc_lo"] = o.pad_octet_count >> 4, o.pad_octet_count & 15
        if "ab_hi" in names:
            out["ab_hi"], out["ab_lo"] = o.appended_blocks >> 4, o.appended_blocks & 15
        if fam in ("FullLC96", "FullLC77"):
            bits_to_limbs(out, "crc", o.crc, names)
            if "longitude_raw" in names:
                out["longitude_raw"] = round(o.longitude / (360 / 2 ** 25)) & ((1 << 25) - 1)
                out["latitude_raw"] = round(o.latitude / (180 / 2 ** 24)) & ((1 << 24) - 1)
            if "talker_alias_data_1" in names:
                b = bitarray()
                b.frombytes(o.talker_alias_data)
                bits_to_limbs(out, "talker_alias_data", b, names)
        if fam == "PI" or fam.startswith("Rate"):
            b = bitarray()
            b.frombytes(o.data)
            bits_to_limbs(out, "data", b, names)
            if "crc32_1" in names:
                out["crc32_1"], out["crc32_2"] = o.crc32 >> 16, o.crc32 & 0xFFFF
        if fam == "UDP":
            bits_to_limbs(out, "user_data", o.user_data, names)
            for k in ("extended_header_1", "extended_header_2"):
                if k in names and out.get(k) is None:
                    out[k] = -1
        for f in names:
            out.setdefault(f, -1)
        return out
