"""Catalogue of public codec entry points for C19 (purity): every signature is a named thunk that builds its
arguments deterministically from its own name, performs ONE library call chain and returns the result together
with the argument buffers (so that the runner can check they were not altered).
Inputs come from a seeded generator and from the hex vectors of the repository's own test files."""
import hashlib
import os
import random
import re

from harness import core

HEX_RE = re.compile(r"[\"']([0-9a-fA-F]{8,})[\"']")


def harvest(rel):
    p = os.path.join(core.REPO, "okdmr", "tests", "dmrlib", rel)
    try:
        txt = open(p).read()
    except OSError:
        return []
    out = []
    for m in HEX_RE.finditer(txt):
        h = m.group(1)
        if len(h) % 2 == 0:
            b = bytes.fromhex(h)
            if b not in out:
                out.append(b)
    return out


def struct(o, depth=0):
    """canonical, value-based, JSON-able rendering of a result (nested dicts/lists/strings)"""
    import datetime
    import enum
    import numpy
    from bitarray import bitarray
    if depth > 7:
        return "<deep>"
    if o is None or isinstance(o, (bool, int, str)):
        return o
    if isinstance(o, float):
        return round(o, 9)
    if isinstance(o, (bytes, bytearray)):
        return "b:" + bytes(o).hex()
    if isinstance(o, bitarray):
        return "ba:" + o.to01()
    if isinstance(o, enum.Enum):
        return f"{type(o).__name__}.{o.name}"
    if isinstance(o, (datetime.date, datetime.time, datetime.datetime)):
        return "t:" + o.isoformat()
    if isinstance(o, numpy.ndarray):
        return {"np": o.tolist()}
    if isinstance(o, numpy.generic):
        return o.item()
    if isinstance(o, (list, tuple)):
        return [struct(x, depth + 1) for x in o]
    if isinstance(o, (set, frozenset)):
        return sorted((struct(x, depth + 1) for x in o), key=repr)
    if isinstance(o, dict):
        return {str(struct(k, depth + 1)): struct(v, depth + 1) for k, v in sorted(o.items(), key=lambda kv: repr(kv[0]))}
    if isinstance(o, BaseException):
        return "raise:" + type(o).__name__
    if hasattr(o, "__dict__"):
        d = {k: struct(v, depth + 1) for k, v in sorted(vars(o).items()) if "logger" not in k.lower()}
        d["__class__"] = type(o).__name__
        return d
    try:
        return [struct(x, depth + 1) for x in list(o)]
    except TypeError:
        return type(o).__name__


def canon(o, depth=0):
    import json
    return json.dumps(struct(o), sort_keys=True, default=str)


def diff_paths(a, b, path="", out=None, limit=6):
    """paths at which two structs differ"""
    out = [] if out is None else out
    if len(out) >= limit:
        return out
    if isinstance(a, dict) and isinstance(b, dict):
        for k in sorted(set(a) | set(b)):
            if a.get(k) != b.get(k):
                diff_paths(a.get(k), b.get(k), f"{path}.{k}" if path else k, out, limit)
    elif isinstance(a, list) and isinstance(b, list) and len(a) == len(b):
        for n, (x, y) in enumerate(zip(a, b)):
            if x != y:
                diff_paths(x, y, f"{path}[{n}]", out, limit)
    elif a != b:
        cls = a.get("__class__") if isinstance(a, dict) else None
        out.append(path or (cls or "value"))
    return out


def digest(o):
    return hashlib.sha256(canon(o).encode()).hexdigest()[:20]


def rng_for(name):
    return random.Random(int(hashlib.sha256(name.encode()).hexdigest()[:12], 16))


_TRACK = []


def track(x):
    """register an argument buffer: its canonical form is compared after the call"""
    _TRACK.append((x, canon(x)))
    return x


_SAME = []


def same(results):
    """results of calls made with EQUAL arguments (equal by value, held in different buffers): they must be equal"""
    rs = [canon(x) for x in results]
    _SAME.append(all(x == rs[0] for x in rs))
    return results


_SHARED = {}
_BUILDER_NAMES = [None]


def shared(name, factory):
    """an argument object the caller created once and keeps using for later calls (per process): in a pristine process the
    signature sees it fresh, in an interleaving earlier calls have already used it - the results must be the same"""
    if name not in _SHARED:
        _SHARED[name] = factory()
    return _SHARED[name]


def rbits(r, n):
    from bitarray import bitarray
    return track(bitarray([r.getrandbits(1) for _ in range(n)]))


_MODE = {"mutable": False}


def wrap(b):
    """a byte buffer handed to the library: immutable bytes, or - in the '~m' variant of a signature - a caller-owned
    bytearray whose contents must be the same after the call"""
    if _MODE["mutable"]:
        return track(bytearray(b))
    return b


def rbytes(r, n):
    return wrap(bytes(r.getrandbits(8) for _ in range(n)))


def build():
    """returns dict name -> thunk; thunk() -> (result, [argument buffers], mutates_args_by_contract)"""
    S = {}

    def add(name, fn, n=3, in_place=False, mutable=True):
        for k in range(n):
            S[f"{name}#{k}"] = (fn, f"{name}#{k}", in_place)
        if mutable and not in_place:
            # the same inputs as #0 with every byte buffer passed as a caller-owned bytearray
            S[f"{name}#0~m"] = (fn, f"{name}#0", in_place)

    # ---------------------------------------------------------------- CRC
    def crc8(r):
        from okdmr.dmrlib.etsi.crc.crc8 import CRC8
        a = rbits(r, r.choice([0, 1, 7, 28, 36, 77]))
        return CRC8.calculate(a), [a]

    def crc9(r):
        from okdmr.dmrlib.etsi.crc.crc9 import CRC9
        from okdmr.dmrlib.etsi.layer2.elements.crc_masks import CrcMasks
        d = rbytes(r, r.choice([6, 10, 12, 16, 22]))
        return CRC9.calculate_from_parts(d, r.randrange(128), r.choice([CrcMasks.Rate12DataContinuation, CrcMasks.Rate34DataContinuation]),
                                         crc32=r.choice([None, 0, rbytes(r, 4)])), [d]

    def crc16(r):
        from okdmr.dmrlib.etsi.crc.crc16 import CRC16
        from okdmr.dmrlib.etsi.layer2.elements.crc_masks import CrcMasks
        d = rbytes(r, r.choice([0, 1, 10, 11]))
        m = r.choice([CrcMasks.CSBK, CrcMasks.DataHeader, CrcMasks.PiHeader])
        v = CRC16.calculate(d, m)
        return (v, CRC16.check(d, v, m), CRC16.check(d, v ^ 1, m)), [d]

    def crc32(r):
        from okdmr.dmrlib.etsi.crc.crc32 import CRC32
        d = rbytes(r, r.choice([0, 1, 2, 7, 20, 33]))
        return CRC32.calculate(d), [d]

    def crc_bitwise(r):
        from okdmr.dmrlib.etsi.crc.crc import BitCrcCalculator, Crc7, Crc9, Crc16
        cfg = r.choice([Crc7.ETSI_DMR, Crc9.ETSI_DMR, Crc16.ETSI_DMR])
        a = rbits(r, r.randrange(0, 60))
        return (BitCrcCalculator(cfg, table_based=False).calculate_checksum(a),
                BitCrcCalculator(cfg, table_based=True).calculate_checksum(a)), [a]

    def crc_custom(r):
        """the generic calculator with a caller's own configuration - every switch of BitCrcConfiguration in both positions, both
        register kinds, whole-octet messages (the byte-reversing switches are defined on octets); the same buffer is summed twice"""
        from okdmr.dmrlib.etsi.crc.crc import BitCrcCalculator, BitCrcConfiguration
        k = r.randrange(16)
        w = r.choice([7, 8, 9, 16, 32])
        cfg = BitCrcConfiguration(polynomial=r.getrandbits(w) | 1, width_bits=w, init_value=r.getrandbits(w) if k & 1 else 0,
                                  final_xor_value=r.getrandbits(w) if k & 2 else 0, reverse_input_bytes=bool(k & 4),
                                  reverse_output_bytes=bool(k & 8))
        a = rbits(r, 8 * r.randrange(1, 9))
        c = BitCrcCalculator(cfg, table_based=bool(r.getrandbits(1)))
        return (c.calculate_checksum(a), c.calculate_checksum(a), BitCrcCalculator(cfg, table_based=False).calculate_checksum(a)), [a]

    def crc_register(r):
        """the register workflow of crc.py's own docstring (init, update 1..n times, digest) with a caller's configuration: digest is an
        observation - the register handed to it (tracked from the last update on) is left as it was"""
        from okdmr.dmrlib.etsi.crc.crc import BitCrcConfiguration, BitCrcRegister, TableBasedBitCrcRegister
        k = r.randrange(16)
        w = r.choice([7, 8, 9, 16, 32])
        cfg = BitCrcConfiguration(polynomial=r.getrandbits(w) | 1, width_bits=w, init_value=r.getrandbits(w) if k & 1 else 0,
                                  final_xor_value=r.getrandbits(w) if k & 2 else 0, reverse_input_bytes=bool(k & 4),
                                  reverse_output_bytes=bool(k & 8))
        a, b = rbits(r, 8 * r.randrange(1, 9)), rbits(r, 8 * r.randrange(1, 5))
        R = (TableBasedBitCrcRegister if r.getrandbits(1) else BitCrcRegister)(cfg)
        R.init()
        R.update(a)
        track(R)
        # an odd number of times: two in-place reversals of the register would cancel
        ds = [R.digest() for _ in range(r.choice([1, 1, 3]))]
        return ds, [a, b]

    def crc_custom_tail(r):
        """the byte-reversing switch on a message whose length is no whole number of octets, held in a buffer whose pad bits are not
        zero (a longer bitarray cut down with del - what slicing a received frame leaves behind): the checksum is a function of the
        message's bits, the same for equal messages whatever their buffers held before"""
        from bitarray import bitarray
        from okdmr.dmrlib.etsi.crc.crc import BitCrcCalculator, BitCrcConfiguration
        w = r.choice([7, 8, 9, 16, 32])
        cfg = BitCrcConfiguration(polynomial=r.getrandbits(w) | 1, width_bits=w, reverse_input_bytes=True, reverse_output_bytes=bool(r.getrandbits(1)))
        n = r.choice([1, 3, 11, 13, 28, 75])
        msg = [r.getrandbits(1) for _ in range(n)]
        out = []
        for fillbit in (0, 1, 1, 0):
            a = bitarray(msg + [fillbit] * (8 - n % 8))
            del a[n:]
            out.append(BitCrcCalculator(cfg, table_based=bool(r.getrandbits(1))).calculate_checksum(track(a)))
        return same(out), []

    add("crc_custom_tail", crc_custom_tail, 8)
    add("crc_register", crc_register, 16)
    add("crc_custom", crc_custom, 16)
    add("crc8", crc8, 4)
    add("crc9", crc9, 4)
    add("crc16", crc16, 4)
    add("crc32", crc32, 4)
    add("crc_calc", crc_bitwise, 4)

    # ---------------------------------------------------------------- FEC
    def hamming(r):
        import importlib
        mod, cls = r.choice([("hamming_7_4_3", "Hamming743"), ("hamming_13_9_3", "Hamming1393"), ("hamming_15_11_3", "Hamming15113"),
                             ("hamming_16_11_4", "Hamming16114"), ("hamming_17_12_3", "Hamming17123")])
        H = getattr(importlib.import_module("okdmr.dmrlib.etsi.fec." + mod), cls)
        a = rbits(r, H.CODE_DIMENSION)
        w = rbits(r, H.CODEWORD_LENGTH)
        return (H.generate(a), H.check(w)), [a, w]

    def hamming_fix(r):
        from okdmr.dmrlib.etsi.fec.hamming_15_11_3 import Hamming15113 as H
        from okdmr.dmrlib.utils.bits_bytes import numpy_array_to_bitarray
        w = numpy_array_to_bitarray(H.generate(rbits(r, 11)))
        w.invert(r.randrange(15))
        return H.check_and_correct(w), [w]

    def golay_qr(r):
        from okdmr.dmrlib.etsi.fec.golay_20_8_7 import Golay2087
        from okdmr.dmrlib.etsi.fec.quadratic_residue_16_7_6 import QuadraticResidue1676
        a, b, c, d = rbits(r, 8), rbits(r, 20), rbits(r, 7), rbits(r, 16)
        return (Golay2087.generate(a), Golay2087.check(b), QuadraticResidue1676.generate(c), QuadraticResidue1676.check(d)), [a, b, c, d]

    def rs(r):
        from okdmr.dmrlib.etsi.fec.reed_solomon_12_9_4 import ReedSolomon1294 as RS
        d, m = rbytes(r, 9), r.choice([b"\x96\x96\x96", b"\x99\x99\x99", b"\x00\x00\x00"])
        w = RS.generate(d, m)
        return (w, RS.check(w, m), RS.log_multiply(r.randrange(256), r.randrange(256))), [d, m]

    def bptc(r):
        from okdmr.dmrlib.etsi.fec.bptc_196_96 import BPTC19696
        a = rbits(r, 96)
        e = BPTC19696.encode(a)
        f = e.copy()
        for _ in range(r.choice([0, 1, 2])):
            f.invert(r.randrange(196))
        track(f)
        return (e, BPTC19696.deinterleave_data_bits(f, True), BPTC19696.deinterleave_data_bits(f, False)), [a, f]

    def vbptc(r):
        from okdmr.dmrlib.etsi.fec.vbptc_128_72 import VBPTC12873
        from okdmr.dmrlib.etsi.fec.vbptc_32_11 import VBPTC3211
        from okdmr.dmrlib.etsi.fec.vbptc_68_28 import VBPTC6828
        a, b, c = rbits(r, 72), rbits(r, 28), rbits(r, 11)
        ea, eb, ec = track(VBPTC12873.encode(a)), track(VBPTC6828.encode(b)), track(VBPTC3211.encode(c))
        return (ea, eb, ec, VBPTC12873.deinterleave_data_bits(ea), VBPTC6828.deinterleave_data_bits(eb),
                VBPTC3211.deinterleave_data_bits(ec)), [a, b, c, ea, eb, ec]

    def trellis(r):
        from okdmr.dmrlib.etsi.fec.trellis import Trellis34
        a = rbits(r, 144)
        e = track(Trellis34.encode(a))
        return (e, Trellis34.decode(e), Trellis34.decode(e, as_bytes=True), Trellis34.encode(a.tobytes())), [a, e]

    def cs5(r):
        from okdmr.dmrlib.etsi.fec.five_bit_checksum import FiveBitChecksum
        d = rbytes(r, r.choice([9, 9, 5]))
        return FiveBitChecksum.calculate(d), [d]

    def vbptc_forms(r):
        """every input form the VBPTC encoders accept (message, message with its check field, the fully de-interleaved matrix) and
        every extractor, each used twice in one thunk"""
        from okdmr.dmrlib.etsi.fec.vbptc_128_72 import VBPTC12873 as A_
        from okdmr.dmrlib.etsi.fec.vbptc_32_11 import VBPTC3211 as C_
        from okdmr.dmrlib.etsi.fec.vbptc_68_28 import VBPTC6828 as B_
        out, bufs = [], []
        for _ in range(2):
            a, b, c = rbits(r, 72), rbits(r, 28), rbits(r, 11)
            ea, eb = track(A_.encode(a)), track(B_.encode(b))
            full_a, full_b = track(A_.deinterleave_all_bits(ea)), track(B_.deinterleave_all_bits(eb))
            with_a, with_b = track(A_.deinterleave_data_bits(ea, include_cs5=True)), track(B_.deinterleave_data_bits(eb, include_crc8=True))
            forms = []
            for enc, xs in ((A_.encode, (a, with_a, full_a)), (B_.encode, (b, with_b, full_b))):
                for x in xs:
                    try:
                        forms.append(enc(x))
                    except (AssertionError, ValueError, IndexError) as ex:
                        forms.append(ex)
            ec0, ec1 = track(C_.encode(c, even_parity=True)), track(C_.encode(c, even_parity=False))
            out.append((forms, A_.deinterleave_cs5_bits(ea), B_.deinterleave_crc8_bits(eb), A_.deinterleave_data_bits(ea, include_cs5=False),
                        B_.deinterleave_data_bits(eb, include_crc8=False), ec0, ec1, C_.deinterleave_data_bits(ec0), C_.deinterleave_all_bits(ec1)))
            bufs += [a, b, c, ea, eb, full_a, full_b, with_a, with_b, ec0, ec1]
        return out, bufs

    add("vbptc_forms", vbptc_forms, 4)

    def vbptc_parity(r):
        """the public column-parity helpers of the three VBPTCs on caller-owned columns of the lengths they accept (with and without
        room for the parity bit): the result is the column with its parity, the caller's column is as it was"""
        import numpy
        from okdmr.dmrlib.etsi.fec.vbptc_128_72 import VBPTC12873 as A_
        from okdmr.dmrlib.etsi.fec.vbptc_32_11 import VBPTC3211 as C_
        from okdmr.dmrlib.etsi.fec.vbptc_68_28 import VBPTC6828 as B_
        col = lambda n: track(numpy.array([r.getrandbits(1) for _ in range(n)]))
        cols = [col(7), col(8), col(3), col(4), col(2), col(2)]
        out = [A_.set_parity(cols[0]), A_.set_parity(cols[1]), B_.set_parity(cols[2]), B_.set_parity(cols[3]),
               C_.set_parity(cols[4], True), C_.set_parity(cols[5], False)]
        return out, cols

    add("vbptc_parity", vbptc_parity, 6)

    def talker_alias_text(r):
        """the talker alias text codec of the four alias formats: whole aliases, and the 6 / 7 octet pieces an alias is sent in
        (a piece may end in the middle of a character - whatever decoding it does, the next decode must not see it)"""
        from okdmr.dmrlib.etsi.layer3.elements.talker_alias_data_format import TalkerAliasDataFormat as F
        text = r.choice(["OK1DMR Jan", "žluťoučký kůň", "中文 radio 7", "Übung Ωμέγα", "abc"])
        out = []
        for f in F:
            try:
                raw = f.encode(text)
            except (UnicodeEncodeError, AttributeError) as ex:
                out.append((f.name, ex))
                continue
            res = [raw]
            for piece in (raw, raw[:6], raw[:7], raw[6:13], raw[:1], raw[-3:], raw):
                try:
                    res.append(f.decode(piece))
                except UnicodeDecodeError as ex:
                    res.append(ex)
            out.append((f.name, res))
        return out, []

    add("talker_alias_text", talker_alias_text, 5)

    def elements_all(r):
        """every information-element enumeration of layer 2 / layer 3: all members serialised, all values of the element's width
        parsed (member, documented error) - found by walking the packages, so that new elements are covered without being listed"""
        import enum
        import importlib
        import pkgutil
        from bitarray.util import int2ba
        out = []
        for pkg in ("okdmr.dmrlib.etsi.layer2.elements", "okdmr.dmrlib.etsi.layer3.elements", "okdmr.dmrlib.hytera.ipsc_elements"):
            P = importlib.import_module(pkg)
            for mi in sorted(pkgutil.iter_modules(P.__path__), key=lambda m: m.name):
                M = importlib.import_module(pkg + "." + mi.name)
                for cn in sorted(dir(M)):
                    C = getattr(M, cn)
                    if not (isinstance(C, type) and issubclass(C, enum.Enum) and C.__module__ == M.__name__):
                        continue
                    rec = [cn]
                    w = None
                    for m in C:
                        try:
                            b = m.as_bits() if hasattr(m, "as_bits") else None
                            rec.append((m.name, b))
                            if b is not None:
                                w = len(b)
                        except Exception as ex:  # noqa
                            rec.append((m.name, ex))
                    if w is not None and w <= 8 and hasattr(C, "from_bits"):
                        for v in range(1 << w):
                            try:
                                rec.append((v, C.from_bits(int2ba(v, length=w))))
                            except Exception as ex:  # noqa
                                rec.append((v, ex))
                    out.append(rec)
        return out, []

    add("elements_all", elements_all, 1)
    add("hamming", hamming, 6)
    add("hamming_fix", hamming_fix, 3, in_place=True)
    add("golay_qr", golay_qr, 3)
    add("rs1294", rs, 3)
    add("bptc", bptc, 4)
    add("vbptc", vbptc, 3)
    add("trellis", trellis, 3)

    def trellis_stream(r):
        """received rate-3/4 streams that are not encodings of a block with the flushing tribit: a valid point sequence whose 49th
        tribit is not zero (decodable, ends in another state than 0), valid encodings with one to three inverted bits (mostly
        rejected half way) and arbitrary 196 bits"""
        from array import array
        from okdmr.dmrlib.etsi.fec.trellis import Trellis34
        kind = r.randrange(4)
        if kind == 0:
            e = rbits(r, 196)
        elif kind == 1:
            e = Trellis34.encode(rbits(r, 144))
            for _ in range(r.randrange(1, 4)):
                e.invert(r.randrange(196))
            track(e)
        else:
            tri = array("B", [r.randrange(8) for _ in range(48)] + [r.randrange(1, 8)])
            e = track(Trellis34.dibits_to_bits(Trellis34.interleave(Trellis34.points_to_dibits(Trellis34.tribits_to_points(tri)))))
        try:
            return Trellis34.decode(e), [e]
        except AssertionError as ex:
            return ex, [e]

    add("trellis_stream", trellis_stream, 10)
    add("cs5", cs5, 2)

    # ---------------------------------------------------------------- layer 2/3 PDUs
    def pdu_from_bits(clsname, mod, nbits):
        def f(r):
            import importlib
            from bitarray.util import int2ba
            C = getattr(importlib.import_module(mod), clsname)
            a = rbits(r, nbits)
            # steer half of the cases to implemented opcodes / formats
            if r.random() < 0.7:
                if clsname == "CSBK":
                    a[2:8] = int2ba(r.choice([0b111000, 0b000100, 0b000101, 0b100110, 0b111101, 0b000111, 0b011001, 0b101000]), 6)
                    a[8:16] = int2ba(r.choice([0, 0x10, 0x68]), 8)
                elif clsname == "FullLinkControl":
                    a[2:8] = int2ba(r.choice([0, 3, 4, 5, 6, 7, 8]), 6)
                    a[8:16] = int2ba(r.choice([0, 0x10]), 8)
                elif clsname == "DataHeader":
                    a[4:8] = int2ba(r.choice([0, 1, 2, 3, 13]), 4)
                elif clsname == "ShortLinkControl":
                    a[0:4] = int2ba(r.choice([0, 1, 2, 3]), 4)
            _TRACK.clear()
            track(a)
            try:
                o = C.from_bits(a)
                return (o, o.as_bits()), [a]
            except (ValueError, KeyError, NotImplementedError, AssertionError) as ex:
                return ex, [a]
        return f

    for cn, mod, n in [("CSBK", "okdmr.dmrlib.etsi.layer2.pdu.csbk", 96), ("DataHeader", "okdmr.dmrlib.etsi.layer2.pdu.data_header", 96),
                       ("FullLinkControl", "okdmr.dmrlib.etsi.layer2.pdu.full_link_control", 96),
                       ("ShortLinkControl", "okdmr.dmrlib.etsi.layer2.pdu.short_link_control", 36),
                       ("PIHeader", "okdmr.dmrlib.etsi.layer2.pdu.pi_header", 96), ("SlotType", "okdmr.dmrlib.etsi.layer2.pdu.slot_type", 20),
                       ("EmbeddedSignalling", "okdmr.dmrlib.etsi.layer2.pdu.embedded_signalling", 16),
                       ("Rate12Data", "okdmr.dmrlib.etsi.layer2.pdu.rate12_data", 96), ("Rate34Data", "okdmr.dmrlib.etsi.layer2.pdu.rate34_data", 144),
                       ("Rate1Data", "okdmr.dmrlib.etsi.layer2.pdu.rate1_data", 192),
                       ("UDPIPv4CompressedHeader", "okdmr.dmrlib.etsi.layer3.pdu.udp_ipv4_compressed_header", 120)]:
        add("random_" + cn, pdu_from_bits(cn, mod, n), 4)

    def sample_pdu(clsname, mod, rel, lengths):
        samples = [s for s in harvest(rel) if len(s) in lengths]

        def f(r):
            import importlib
            from okdmr.dmrlib.utils.bits_bytes import bytes_to_bits
            if not samples:
                return "no-sample", []
            C = getattr(importlib.import_module(mod), clsname)
            s = wrap(r.choice(samples))
            a = track(bytes_to_bits(bytes(s)))
            try:
                o = C.from_bits(a)
                return (o, o.as_bits(), repr(o)), [a]
            except (ValueError, KeyError, NotImplementedError, AssertionError) as ex:
                return ex, [a]
        return f

    add("sample_CSBK", sample_pdu("CSBK", "okdmr.dmrlib.etsi.layer2.pdu.csbk", "etsi/layer2/pdu/test_csbk.py", (12,)), 5)
    add("sample_DataHeader", sample_pdu("DataHeader", "okdmr.dmrlib.etsi.layer2.pdu.data_header", "etsi/layer2/pdu/test_data_header.py", (12,)), 5)
    add("sample_FullLC", sample_pdu("FullLinkControl", "okdmr.dmrlib.etsi.layer2.pdu.full_link_control", "etsi/layer2/pdu/test_full_link_control.py", (9, 10, 12)), 3)

    def defaults(r):
        """objects built with default arguments, after mutating a previous default-built object's fields in place"""
        from bitarray import bitarray
        from okdmr.dmrlib.etsi.layer2.burst import Burst
        from okdmr.dmrlib.etsi.layer2.elements.csbk_opcodes import CsbkOpcodes
        from okdmr.dmrlib.etsi.layer2.pdu.csbk import CSBK
        from okdmr.dmrlib.etsi.layer3.elements.service_options import ServiceOptions
        b = Burst()
        c = CSBK(csbko=CsbkOpcodes.AnnouncementPDUsWithoutResponse, broadcast_params=bitarray("0" * 38))
        c2 = CSBK(csbko=CsbkOpcodes.BSOutboundActivation)
        so = ServiceOptions()
        return (b.as_bytes(), repr(b.data), c.as_bits(), c2.as_bits(), c2.broadcast_params, so.as_bits(), so.reserved), []

    add("defaults", defaults, 2)

    def burst_samples():
        samples = [s for s in harvest("etsi/layer2/test_burst.py") + harvest("transmission/test_transmission.py") if len(s) == 33]

        def f(r):
            from okdmr.dmrlib.etsi.layer2.burst import Burst
            from okdmr.dmrlib.etsi.layer2.elements.burst_types import BurstTypes
            if not samples:
                return "no-sample", []
            s = wrap(r.choice(samples))
            try:
                b = Burst.from_bytes(s, burst_type=r.choice([BurstTypes.DataAndControl, BurstTypes.Vocoder]))
                return (b.as_bytes(), repr(b), b.data), [s]
            except (ValueError, KeyError, NotImplementedError, AssertionError) as ex:
                return ex, [s]
        return f

    add("burst", burst_samples(), 8)

    def buffer_ctor(r):
        """constructors whose parameters are documented as 'number or buffer' get the buffer form, caller-owned, and the same
        buffers are used for a second construction straight away (a retransmitted block is decoded twice)"""
        import importlib
        from bitarray import bitarray
        name, mod, sizes = r.choice([("Rate12Data", "rate12_data", (12, 10, 8, 6)), ("Rate34Data", "rate34_data", (18, 16, 14, 12)),
                                     ("Rate1Data", "rate1_data", (24, 22, 20, 18))])
        C = getattr(importlib.import_module("okdmr.dmrlib.etsi.layer2.pdu." + mod), name)
        n = r.choice(sizes)
        raw = bytes(r.getrandbits(8) for _ in range(n))
        data = wrap(raw) if r.random() < 0.5 else track(bitarray("".join(format(x, "08b") for x in raw)))
        dbsn = rbits(r, 7)
        crc9 = bitarray([r.getrandbits(1) for _ in range(9)])
        if crc9 == crc9[::-1]:
            crc9.invert(0)                     # not a palindrome: reading it in the other direction shows
        track(crc9)
        crc32 = rbytes(r, 4)
        out = []
        for _ in range(3):
            o = C(data=data, dbsn=dbsn, crc9=crc9, crc32=crc32)
            out.append((o, o.as_bits()))
        return out, [data, dbsn, crc9, crc32]

    add("buffer_ctor", buffer_ctor, 9)

    def slc_pi_ctor(r):
        from okdmr.dmrlib.etsi.layer2.elements.slcos import SLCOs
        from okdmr.dmrlib.etsi.layer3.elements.activity_id import ActivityID
        from okdmr.dmrlib.etsi.layer2.pdu.pi_header import PIHeader
        from okdmr.dmrlib.etsi.layer2.pdu.short_link_control import ShortLinkControl
        crc8, a1, a2 = rbits(r, 8), rbits(r, 8), rbits(r, 8)
        d, c = rbytes(r, 10), rbytes(r, 2)
        out = []
        for _ in range(2):
            s = ShortLinkControl(slco=SLCOs.ActivityUpdate, crc_8bit=crc8, ts1_activity_id=r.choice(list(ActivityID)),
                                 ts2_activity_id=ActivityID.NoActivity, ts1_address=a1, ts2_address=a2)
            p = PIHeader(data=d, crc=c)
            out.append((s.as_bits(), repr(s), p.as_bits(), p.crc_ok))
        return out, [crc8, a1, a2, d, c]

    add("slc_pi_ctor", slc_pi_ctor, 3)

    def burst_deinterleave(r):
        """the payload decoding of a burst, called on a caller-owned 196-bit buffer twice over, for every data type"""
        from okdmr.dmrlib.etsi.fec.bptc_196_96 import BPTC19696
        from okdmr.dmrlib.etsi.fec.trellis import Trellis34
        from okdmr.dmrlib.etsi.layer2.burst import Burst
        from okdmr.dmrlib.etsi.layer2.elements.data_types import DataTypes
        out, bufs = [], []
        for dt in [DataTypes.Rate1Data, DataTypes.Rate34Data, DataTypes.Rate12Data, DataTypes.CSBK, DataTypes.DataHeader,
                   DataTypes.VoiceLCHeader, DataTypes.TerminatorWithLC, DataTypes.PIHeader, DataTypes.MBCHeader, DataTypes.Idle]:
            if dt == DataTypes.Rate1Data:
                bits = rbits(r, 196)
            elif dt == DataTypes.Rate34Data:
                bits = track(Trellis34.encode(rbits(r, 144)))
            else:
                bits = track(BPTC19696.encode(rbits(r, 96)))
            bufs.append(bits)
            for _ in range(2):
                try:
                    out.append(Burst.deinterleave(bits, dt))
                except (ValueError, KeyError, NotImplementedError, AssertionError) as ex:
                    out.append(ex)
        return out, bufs

    add("burst_deinterleave", burst_deinterleave, 3)

    def burst_generated(r):
        """bursts of every data kind (rate-1 and rate-3/4 blocks included) decoded from caller-owned bits, and the burst's own
        stored payload bits decoded once more"""
        from harness import gen
        from harness.drivers.c01 import make_pdu
        from okdmr.dmrlib.etsi.layer2.burst import Burst
        from okdmr.dmrlib.etsi.layer2.elements.burst_types import BurstTypes
        from okdmr.dmrlib.utils.bits_bytes import bytes_to_bits
        kind = r.choice(["R1/u", "R1/c", "R34/u", "R34/c", "R12/u", "R12/c", "CSBK/other", "DH/U", "VLC", "TLC", "PI"])
        pdu, dt, _ = make_pdu(r, kind)
        raw = gen.assemble_data_burst(pdu, dt, r.randrange(16), r.choice(gen.DATA_SYNCS))
        bits = track(bytes_to_bits(raw))
        out = []
        for _ in range(2):
            b = Burst.from_bits(bits, burst_type=BurstTypes.DataAndControl)
            again = Burst.deinterleave(b.info_bits_original, b.data_type)
            out.append((b.as_bytes(), repr(b.data), b.info_bits_original, b.info_bits_deinterleaved, again,
                        Burst.deinterleave(b.info_bits_original, b.data_type)))
        return out, [bits]

    add("burst_generated", burst_generated, 12)

    # ---------------------------------------------------------------- Hytera
    def hytera_samples(rel, what):
        samples = harvest(rel)

        def f(r):
            from okdmr.dmrlib.hytera.pdu.hdap import HDAP
            from okdmr.dmrlib.hytera.pdu.hrnp import HRNP
            from okdmr.dmrlib.hytera.pdu.hstrp import HSTRP
            C = {"hdap": HDAP, "hrnp": HRNP, "hstrp": HSTRP}[what]
            if not samples:
                return "no-sample", []
            s = wrap(r.choice(samples))
            try:
                o = C.from_bytes(s)
                return (o, o.as_bytes() if o is not None else None, repr(o)), [s]
            except Exception as ex:  # noqa
                return ex, [s]
        return f

    add("hrnp", hytera_samples("hytera/pdu/test_hrnp.py", "hrnp"), 6)
    add("hstrp", hytera_samples("hytera/pdu/test_hstrp.py", "hstrp"), 3)
    for rel in ("test_hdap.py", "test_rcp.py", "test_lp.py", "test_tmp.py", "test_rrs.py"):
        add("hdap_" + rel[5:-3], hytera_samples("hytera/pdu/" + rel, "hdap"), 3)

    def ipsc():
        samples = [s for s in harvest("hytera/test_hytera_ipsc.py") + harvest("etsi/layer2/test_burst.py") if len(s) == 72]

        def f(r):
            from okdmr.dmrlib.etsi.layer2.burst import Burst
            if not samples:
                return "no-sample", []
            s = wrap(r.choice(samples))
            try:
                b = Burst.from_hytera_ipsc(s)
                return (type(b).__name__, b.as_bytes(), b.source_radio_id, b.target_radio_id, b.timeslot, repr(b.hytera_ipsc)), [s]
            except Exception as ex:  # noqa
                return ex, [s]
        return f

    add("ipsc", ipsc(), 4)

    def hytera_defaults(r):
        from okdmr.dmrlib.hytera.pdu.location_protocol import GPSData
        from okdmr.dmrlib.hytera.pdu.radio_ip import RadioIP
        from okdmr.dmrlib.hytera.pdu.radio_registration_service import RadioRegistrationService, RRSTypes
        rr = RadioRegistrationService(opcode=RRSTypes.RadioRegistrationRequest, radio_ip=RadioIP(r.randrange(1 << 24)))
        return (rr.as_bytes(), len(rr)), []

    add("hytera_defaults", hytera_defaults, 2)

    def hdap_wire(svc):
        """wire messages of one HDAP service (hex literals, so that nothing but the generic entry point is imported) parsed through
        HDAP.from_bytes alone: the dispatch must find the service whatever else has been imported"""
        wires = {"RRS": ["11000300040bee69af1a03", "11008000090a000001020000012c6f03", "1100010004ff1571565203"],
                 "LP": ["88a0010008ffffffff0ba70fece003"],
                 "TMP": ["0980a2000d80000000ff0000010a35b38d09fb03", "89c0b10019000100000001000000010b000000480065006c006c006f0001a503"],
                 "RCP": ["02410805000affffffffde03", "0241880100006803", "8245b810000000040007000400ffffffff000000001a03"]}[svc]

        def f(r):
            from okdmr.dmrlib.hytera.pdu.hdap import HDAP
            raw = wrap(bytes.fromhex(r.choice(wires)))
            try:
                o = HDAP.from_bytes(raw)
                return (type(o).__name__, o, o.as_bytes()), [raw]
            except Exception as ex:  # noqa
                return ex, [raw]
        return f

    for svc in ("RRS", "LP", "TMP", "RCP"):
        add("hdap_wire_" + svc, hdap_wire(svc), 2)

    def lp_request(r):
        """parse a location request (carries no GPS record)"""
        from okdmr.dmrlib.hytera.pdu.hdap import HDAP
        from okdmr.dmrlib.hytera.pdu.location_protocol import LocationProtocol, LocationProtocolSpecificService
        from okdmr.dmrlib.hytera.pdu.radio_ip import RadioIP
        raw = LocationProtocol(opcode=LocationProtocolSpecificService.StandardRequest, request_id=r.randrange(1 << 31),
                               radio_ip=RadioIP(r.randrange(1 << 24))).as_bytes()
        raw = wrap(raw)
        o = HDAP.from_bytes(raw)
        return (o, o.as_bytes()), [raw]

    add("lp_request", lp_request, 2)

    def gps_years(r):
        """GPS records whose two-digit year runs over the whole range (parsing must not window it against 'today')"""
        import datetime
        from okdmr.dmrlib.hytera.pdu.location_protocol import GPSData
        out = []
        for yy in (0, 15, 26, 27, 38, 50, 69, 70, 99):
            g = GPSData(data_valid="A", greenwich_time=datetime.time(1, 2, 3), greenwich_date=datetime.date(2000 + yy, 6, 7),
                        north_south="N", latitude=4718.8051, east_west="E", longitude=1854.4387, speed_knots=1.5, direction=7)
            raw = wrap(g.as_bytes())
            p = GPSData.from_bytes(raw)
            out.append((p, p.as_bytes()))
        return out, []

    add("gps_years", gps_years, 1)

    def hytera_generated(idx):
        """every implemented RRS / LP / TMP / RCP opcode with generated field values (the builders of the C12 driver): parse the
        serialised PDU; different instances of one family carry different values, so that state leaking from one decode
        into the next (shared default containers) shows"""
        def f(r):
            from harness.drivers import c12
            from okdmr.dmrlib.hytera.pdu.hdap import HDAP
            fam, opname, build = c12.builders()[idx]
            raw = wrap(build(r).as_bytes())
            o = HDAP.from_bytes(raw)
            return (o, o.as_bytes(), repr(o)), [raw]
        return f

    def hytera_default_built(idx):
        """objects of the same opcode built with as few arguments as the constructor accepts (default arguments)"""
        def f(r):
            from harness.drivers import c12
            fam, opname, build = c12.builders()[idx]
            o = build(r)
            try:
                d = type(o)(opcode=o.opcode)
                return (d, d.as_bytes(), repr(d)), []
            except Exception as ex:  # noqa: a constructor that needs more than the opcode
                return ex, []
        return f

    # the names of the C12 builders: given by the caller (a cold interpreter must not import the library to learn them) or
    # read from the driver
    bnames = _BUILDER_NAMES[0]
    if bnames is None:
        try:
            from harness.drivers import c12 as _c12
            bnames = [[fam, opname] for fam, opname, _ in _c12.builders()]
        except Exception:  # noqa
            bnames = []
    for i, (fam, opname) in enumerate(bnames):
        add(f"gen_{fam}_{opname}", hytera_generated(i), 2, mutable=(i % 4 == 0))
        add(f"dflt_{fam}_{opname}", hytera_default_built(i), 1, mutable=False)

    def rcp_default_settings(r):
        """a PDU built with its optional arguments left out, serialised - and then completed by its owner, who adds entries to the
        PDU's own containers (status change settings, later re-sent): the next PDU built with defaults is as empty as the first"""
        from okdmr.dmrlib.hytera.pdu import radio_control_protocol as R
        p_ = R.RadioControlProtocol(opcode=R.RCPOpcode.StatusChangeNotificationRequest)
        first = p_.as_bytes()
        for t in r.sample([x for x in R.StatusChangeNotificationTargets], 2):
            p_.status_change_settings[t] = r.choice([x for x in R.StatusChangeNotificationSetting])
        return (first, len(p_.as_bytes())), []

    add("rcp_default_settings", rcp_default_settings, 4)

    # ---------------------------------------------------------------- Motorola
    def mbxml():
        samples = harvest("motorola/test_lrrp.py") + harvest("motorola/test_mbxml.py")

        def f(r):
            from okdmr.dmrlib.motorola.mbxml import MBXML
            if not samples:
                return "no-sample", []
            s = wrap(r.choice(samples))
            try:
                docs = MBXML.from_bytes(s)
                return ([MBXML.as_bytes(d) for d in docs], [d.as_xml() for d in docs]), [s]
            except Exception as ex:  # noqa
                return ex, [s]
        return f

    add("mbxml", mbxml(), 8)

    def mbxml_var(r):
        from okdmr.dmrlib.motorola.mbxml import MBXML
        v = r.choice([0, 1, 127, 128, 300, 16384, 2 ** 31])
        b = MBXML.write_uintvar(v)
        return (b, MBXML.read_uintvar(b, 0), MBXML.write_sintvar(-v), MBXML.write_ufloatvar(v + 0.5, 1)), []

    add("mbxml_var", mbxml_var, 3)

    # the numeric writers one at a time (a signature is ONE entry point, so that what another writer leaves behind - a rounding
    # mode, a precision, an error state of a numeric library - can show), on the values where a rounding rule decides: coordinates
    # whose seventh decimal is an exact binary half (odd multiples of 1/128 degree), fractions at the half of a septet step
    TIES = [0.0078125, 24.0078125, 89.9921875, 0.0234375, 124.6640625, 179.9921875, 51.5, 14.4375, 0.0000005, 45.1234565]

    def mbxml_lat(r):
        from okdmr.dmrlib.motorola.mbxml import MBXML
        return [MBXML.write_latitude(v if v < 90 else v / 2) for v in r.sample(TIES, 4)] + [MBXML.write_latitude(90.0)], []

    def mbxml_lon(r):
        from okdmr.dmrlib.motorola.mbxml import MBXML
        return [MBXML.write_longitude(v) for v in r.sample(TIES, 4)], []

    def mbxml_float(r):
        from okdmr.dmrlib.motorola.mbxml import MBXML
        v = r.choice([0.5, 1 / 256, 3 / 256, 7.00390625, 2.5, 63.99609375])
        return (MBXML.write_ufloatvar(v, 1), MBXML.write_sfloatvar(-v, 1), MBXML.write_ufloatvar(v, 2)), []

    def mbxml_render(r):
        """presentation calls between parse and encode: a parsed document (float elements with fractions that a five-decimal
        rendering shortens: k/128) is rendered as XML, its token values are read through get_value, and only then serialised.  The
        document handed to the presentation calls is tracked - its value-based rendering is the same afterwards - and the encode
        after them is part of the result"""
        from okdmr.dmrlib.motorola.mbxml import MBXML
        k = r.choice([1, 3, 7, 33, 77, 127])
        # Immediate-Location-Report (0x07): request-id, speed-hor (0x6C: ufloat), optional second float
        body = bytes([0x22, 0x03, 0x01, 0x02, 0x03, 0x6C, r.randrange(1, 100), k])
        buf = bytes([0x07, len(body)]) + body
        docs = MBXML.from_bytes(buf)
        track(docs)
        xml = [d.as_xml() for d in docs]
        vals = [[p.get_value(d) for p in d.parts] for d in docs]
        return (xml, vals, [MBXML.as_bytes(d) for d in docs]), [buf]

    add("mbxml_render", mbxml_render, 6)
    add("mbxml_lat", mbxml_lat, 3)
    add("mbxml_lon", mbxml_lon, 3)
    add("mbxml_float", mbxml_float, 3)

    def lrrp_token(r):
        from okdmr.dmrlib.motorola.lrrp import LRRP
        from okdmr.dmrlib.motorola.mbxml import MBXML, MBXMLDocumentIdentifier
        out = []
        for name, val, attrs in (("result", None, {"result-code": 5}), ("result", None, {"result-code": 5}),
                                 ("request-id", b"\x01\x02", {})):
            try:
                t = LRRP.get_token(name, val, attrs, is_request=False)
                out.append((t.token_id if hasattr(t, "token_id") else None, struct(t)))
            except Exception as ex:  # noqa
                out.append(ex)
        return out, []

    add("lrrp_token", lrrp_token, 2)

    def lrrp_token_tables(r):
        """every element token id 0x22..0x7F looked up by id, and every token name of the document family looked up by name, for
        requests and for answers / reports: the class-level token tables as the public look-up shows them"""
        from okdmr.dmrlib.motorola.lrrp import LRRP
        out = []
        for is_request in (True, False):
            names = []
            for tid in range(0x22, 0x80):
                try:
                    t = LRRP.get_token(tid, None, {}, is_request=is_request)
                    out.append((is_request, tid, None if t is None else (t.name, struct(t.token_type) if hasattr(t, "token_type") else None, t.token_id)))
                    if t is not None and t.name not in names:
                        names.append(t.name)
                except Exception as ex:  # noqa
                    out.append((is_request, tid, ex))
            for n in names:
                try:
                    t = LRRP.get_token(n, None, {}, is_request=is_request)
                    out.append((is_request, n, None if t is None else t.token_id))
                except Exception as ex:  # noqa
                    out.append((is_request, n, ex))
        return out, []

    add("lrrp_token_tables", lrrp_token_tables, 2)

    def lrrp_generated(r):
        """a generated document of either family (request / answer-report), built token by token, serialised and parsed"""
        from okdmr.dmrlib.motorola.lrrp import LRRP
        from okdmr.dmrlib.motorola.mbxml import MBXML, MBXMLDocument, MBXMLTokenType, MBXMLDocumentIdentifier as DI
        is_request = bool(r.getrandbits(1))
        did = r.choice([DI.LRRP_ImmediateLocationRequest_NCDT, DI.LRRP_TriggeredLocationRequest_NCDT] if is_request
                       else [DI.LRRP_ImmediateLocationReport_NCDT, DI.LRRP_TriggeredLocationReport_NCDT])
        try:
            toks = [LRRP.get_token("request-id", bytes(r.getrandbits(8) for _ in range(r.randrange(1, 5))), {}, is_request=is_request)]
            if is_request:
                toks.append(LRRP.get_token("oneshot-trigger", None, {}, is_request=True))
            cfg = LRRP.get_configuration(did)
            doc = MBXMLDocument(document_id=did, elements_config=cfg[MBXMLTokenType.ELEMENT_TOKEN], attributes_config=cfg[MBXMLTokenType.ATTRIBUTE_TOKEN])
            doc.parts.extend(toks)
            raw = MBXML.as_bytes(doc)
            docs = MBXML.from_bytes(raw)
            return (raw, [MBXML.as_bytes(d) for d in docs], [d.as_xml() for d in docs]), []
        except Exception as ex:  # noqa
            return ex, []

    add("lrrp_generated", lrrp_generated, 6)

    def tms_ars(rel, mod, cls):
        samples = harvest(rel)

        def f(r):
            import importlib
            C = getattr(importlib.import_module(mod), cls)
            if not samples:
                return "no-sample", []
            s = wrap(r.choice(samples))
            try:
                o = C.from_bytes(s)
                return (o.as_bytes(), repr(o)), [s]
            except Exception as ex:  # noqa
                return ex, [s]
        return f

    add("ars", tms_ars("motorola/test_ars.py", "okdmr.dmrlib.motorola.automatic_registration_service", "AutomaticRegistrationService"), 4)
    add("tms", tms_ars("motorola/test_tms.py", "okdmr.dmrlib.motorola.text_messaging_service", "TextMessagingService"), 4)

    # ---------------------------------------------------------------- caller-owned argument objects reused across calls
    def tms_reused_header(variant):
        def f(r):
            from okdmr.dmrlib.motorola import text_messaging_service as T
            h = shared("tms_ack_header", lambda: T.FirstHeader(pdu_type=T.TMSPDUType.TMS_ACKNOWLEDGEMENT))
            h2 = shared("tms_text_header", lambda: T.FirstHeader(is_acknowledged=True, pdu_type=T.TMSPDUType.SIMPLE_TEXT_MESSAGE))
            if variant == 0:
                return T.TextMessagingService(first_header=h, address=b"12", sequence_number=5).as_bytes(), []
            if variant == 1:
                return T.TextMessagingService(first_header=h, address=b"12").as_bytes(), []
            if variant == 2:
                return T.TextMessagingService(first_header=h2, address=b"", sequence_number=40, encoding=T.TMSEncoding.UCS2_LE,
                                              message="ab".encode("utf-16-le")).as_bytes(), []
            return T.TextMessagingService(first_header=h2, address=b"7", sequence_number=3, message="c".encode("utf-16-le")).as_bytes(), []
        return f

    for v in range(4):
        add(f"tms_reused_header_{v}", tms_reused_header(v), 1, mutable=False)

    def ars_reused_header(variant):
        def f(r):
            from okdmr.dmrlib.motorola import automatic_registration_service as A
            h = shared("ars_header", lambda: A.FirstHeader(pdu_type=A.ARSPDUType.DEVICE_REGISTRATION_REQUEST))
            if variant == 0:
                return A.AutomaticRegistrationService(first_header=h, registration_request_header=A.RegistrationRequestHeader(event=list(A.RegistrationEvent)[0]),
                                                      device_identifier="d", user_identifier="u", password="p").as_bytes(), []
            return A.AutomaticRegistrationService(first_header=h, device_identifier="dev", user_identifier="", password="").as_bytes(), []
        return f

    for v in range(2):
        add(f"ars_reused_header_{v}", ars_reused_header(v), 1, mutable=False)

    def flc_reused_options(variant):
        def f(r):
            from okdmr.dmrlib.etsi.layer2.elements.feature_set_ids import FeatureSetIDs
            from okdmr.dmrlib.etsi.layer2.elements.flcos import FLCOs
            from okdmr.dmrlib.etsi.layer2.pdu.full_link_control import FullLinkControl
            from okdmr.dmrlib.etsi.layer3.elements.service_options import ServiceOptions
            so = shared("flc_service_options", lambda: ServiceOptions(is_emergency=1, priority_level=2))
            if variant == 0:
                o = FullLinkControl(flco=FLCOs.GroupVoiceChannelUser, fid=FeatureSetIDs.StandardizedFID, service_options=so, group_address=9, source_address=8)
            else:
                o = FullLinkControl(flco=FLCOs.UnitToUnitVoiceChannelUser, fid=FeatureSetIDs.StandardizedFID, service_options=so, target_address=7, source_address=6)
            return (o.as_bits(), FullLinkControl.from_bits(o.as_bits()).as_bits()), []
        return f

    for v in range(2):
        add(f"flc_reused_options_{v}", flc_reused_options(v), 1, mutable=False)

    def hytera_reused_ip(variant):
        def f(r):
            from okdmr.dmrlib.hytera.pdu.hdap import HDAP
            from okdmr.dmrlib.hytera.pdu.radio_ip import RadioIP
            from okdmr.dmrlib.hytera.pdu.radio_registration_service import RadioRegistrationService, RRSTypes
            ip = shared("hytera_radio_ip", lambda: RadioIP(2308090, subnet=10))
            op = [RRSTypes.RadioRegistrationRequest, RRSTypes.RadioGoingOffline][variant]
            o = RadioRegistrationService(opcode=op, radio_ip=ip, is_reliable=bool(variant))
            return (o.as_bytes(), HDAP.from_bytes(o.as_bytes()).as_bytes()), []
        return f

    for v in range(2):
        add(f"hytera_reused_ip_{v}", hytera_reused_ip(v), 1, mutable=False)

    # ---------------------------------------------------------------- utils
    def utils(r):
        from okdmr.dmrlib.utils.bits_bytes import byteswap_bytes, bytes_to_bits, bits_to_bytes
        d = rbytes(r, r.choice([0, 1, 2, 5, 8]))
        return (byteswap_bytes(d), bits_to_bytes(bytes_to_bits(d))), [d]

    add("utils", utils, 3)

    def utils_bytearray(r):
        """the bytearray form of the octet swap, on a caller-owned bytearray of even and of odd length"""
        from okdmr.dmrlib.utils.bits_bytes import byteswap_bytearray
        d = track(bytearray(r.getrandbits(8) for _ in range(r.choice([2, 3, 4, 7, 8, 34]))))
        return (byteswap_bytearray(d), bytes(d), byteswap_bytearray(d), bytes(d), byteswap_bytearray(d)), [d]     # odd number of calls: two in-place swaps cancel

    add("utils_bytearray", utils_bytearray, 6, mutable=False)

    def ars_built_response(variant):
        """one response object built from fields, kept by the caller: serialising it, measuring it and rendering it in any order"""
        def f(r):
            from okdmr.dmrlib.motorola import automatic_registration_service as A
            P = A.ARSPDUType
            ok = shared("ars_resp_ok", lambda: A.AutomaticRegistrationService(
                first_header=A.FirstHeader(has_more_headers=True, is_acknowledged=False, is_control_message=True, pdu_type=P.ARS_DEVICE_OR_QUERY_RESPONSE),
                response_second_header=A.ResponseSecondHeader(refresh_time=30)))
            bad = shared("ars_resp_bad", lambda: A.AutomaticRegistrationService(
                first_header=A.FirstHeader(has_more_headers=True, is_acknowledged=True, is_control_message=True, pdu_type=P.ARS_DEVICE_OR_QUERY_RESPONSE),
                response_second_header=A.ResponseSecondHeader(failure_reason=list(A.FailureReason)[-1], refresh_time=1)))
            o = ok if variant & 1 else bad
            try:
                return (o.as_bytes(), len(o)) if variant < 2 else repr(o), []
            except Exception as ex:  # noqa
                return ex, []
        return f

    for v in range(4):
        add(f"ars_built_response_{v}", ars_built_response(v), 1, mutable=False)
    return S


def run_signature(S, name):
    """execute one signature: returns (digest of result, argument buffers intact?, short rendering)"""
    fn, key, in_place = S[name]
    r = rng_for(key)
    _MODE["mutable"] = name.endswith("~m")
    _TRACK.clear()
    _SAME.clear()
    try:
        res, _ = fn(r)
    except Exception as ex:  # noqa: an unexpected exception class is a result too
        res = ex
    intact = True if in_place else all(canon(x) == c for x, c in _TRACK)
    return digest(res), intact, struct(res), all(_SAME)
