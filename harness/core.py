"""
Core of the verification harness: run context, TLC invocation and output parsing,
generation of TLA+ modules from observations ("learned" binding constants), batch trace
validation, known-findings matching, evidence and replay files.

Every check is `./check Cxx --tier quick|thorough`; drivers live in harness/drivers/cXX.py and
expose `run(ctx)`.  Exit codes: 0 property held (known findings are printed), 1 violation,
2 machinery failure (never expected on an unchanged tree).
"""
import hashlib
import json
import os
import random
import re
import shutil
import subprocess
import sys
import tempfile
import time

VERIF = os.path.dirname(os.path.dirname(os.path.abspath(__file__)))
SPEC_DIR = os.path.join(VERIF, "spec")
REPO = os.environ.get("VERIF_REPO", "/repo")
# where evidence/ and replays/ are written: /verif itself, except for development runs against scratch copies
# (reverted fixes, seeded changes), which must not rewrite the committed evidence
OUT = os.environ.get("VERIF_OUT", VERIF)
TLA_CP = "/opt/veriftools/tla/tla2tools.jar:/opt/veriftools/tla/CommunityModules-deps.jar"
NCPU = os.cpu_count() or 4


HARNESS_ONLY_KEYS = ("meta", "steps", "seed", "observers", "loop", "left", "N", "pad", "gen_error", "extra")


class MachineryError(Exception):
    """The checking machinery itself failed (TLC crash, unparsable output...)."""


def setup_repo_path():
    """Make `import okdmr` resolve to the tree under test ($VERIF_REPO, default /repo)."""
    if REPO not in sys.path:
        sys.path.insert(0, REPO)
    os.environ.setdefault("PYTHONHASHSEED", "0")
    import logging

    logging.disable(logging.CRITICAL)


# --------------------------------------------------------------------------- TLA+ values


def tla(v):
    """Serialise a Python value as a TLA+ expression.
    int/bool/str -> literal; list/tuple -> sequence; set/frozenset -> set;
    dict with str keys -> record; dict with other keys -> function (via :> and @@)."""
    if isinstance(v, bool):
        return "TRUE" if v else "FALSE"
    if isinstance(v, int):
        return str(v)
    if isinstance(v, str):
        return json.dumps(v)
    if isinstance(v, (list, tuple)):
        return "<<" + ", ".join(tla(x) for x in v) + ">>"
    if isinstance(v, (set, frozenset)):
        return "{" + ", ".join(tla(x) for x in sorted(v, key=repr)) + "}"
    if isinstance(v, dict):
        if not v:
            return "<<>>"
        if all(isinstance(k, str) and re.match(r"^[A-Za-z_][A-Za-z0-9_]*$", k) for k in v):
            return "[" + ", ".join(f"{k} |-> {tla(x)}" for k, x in v.items()) + "]"
        return "(" + " @@ ".join(f"({tla(k)} :> {tla(x)})" for k, x in v.items()) + ")"
    raise TypeError(f"cannot serialise {type(v)} to TLA+")


def write_module(path, name, defs, extends=("Integers", "Sequences", "TLC")):
    """Write a generated module (binding constants learned from the implementation)."""
    lines = [f"---- MODULE {name} ----", "EXTENDS " + ", ".join(extends), ""]
    for k, v in defs.items():
        lines.append(f"{k} == {tla(v)}")
    lines.append("====")
    with open(os.path.join(path, name + ".tla"), "w") as f:
        f.write("\n".join(lines) + "\n")


def digest(obj):
    return hashlib.sha256(json.dumps(obj, sort_keys=True, default=str).encode()).hexdigest()[:16]


# --------------------------------------------------------------------------- TLC


class TLCResult:
    def __init__(self):
        self.ok = False
        self.generated = 0  # "states generated" = transitions explored (+ initial states)
        self.distinct = 0
        self.error = None  # text of first TLC error (invariant name etc.)
        self.violated = None  # name of violated invariant / property
        self.trace = []  # list of dict var -> text  (TLC's counterexample)
        self.prints = []  # values printed by PrintT, as text lines
        self.coverage = {}
        self.output = ""
        self.wall = 0.0
        self.timed_out = False
        self.depth = 0


_STATE_RE = re.compile(r"^State (\d+): (.*)$")


def parse_tlc_output(out, res):
    res.output = out
    m = None
    for m in re.finditer(r"(\d+) states generated, (\d+) distinct states found", out):
        pass
    if m:
        res.generated, res.distinct = int(m.group(1)), int(m.group(2))
    m = re.search(r"The depth of the complete state graph search is (\d+)", out)
    if m:
        res.depth = int(m.group(1))
    if "Model checking completed. No error has been found." in out:
        res.ok = True
    m = re.search(r"Error: Invariant (\S+) is violated", out)
    if m:
        res.violated = m.group(1)
    m2 = re.search(r"Error: Action property (\S+) is violated", out)
    if m2:
        res.violated = m2.group(1)
    if "Error: Temporal properties were violated." in out:
        res.violated = res.violated or "TemporalProperty"
    m3 = re.search(r"Error: Temporal property (\S+) was violated", out)
    if m3:
        res.violated = res.violated or m3.group(1)
    m3 = re.search(r"^Error: (.*)$", out, re.M)
    if m3:
        res.error = m3.group(1)
    # counterexample
    cur = None
    for line in out.splitlines():
        sm = _STATE_RE.match(line)
        if sm:
            cur = {"_n": int(sm.group(1)), "_action": sm.group(2), "_text": ""}
            res.trace.append(cur)
            continue
        if cur is not None:
            if line.strip() == "" or re.match(r"^\d+ states generated", line):
                cur = None
                continue
            if line.startswith("Back to state") or line.startswith("Error:"):
                cur = None
                continue
            cur["_text"] += line + "\n"
            vm = re.match(r"^/\\ (\w+) = (.*)$", line)
            if vm:
                cur[vm.group(1)] = vm.group(2)
                cur["_last"] = vm.group(1)
            elif "_last" in cur and not line.startswith("/\\"):
                cur[cur["_last"]] += " " + line.strip()
    m = re.search(r"Back to state (\d+)", out)
    if m:
        res.trace.append({"_n": -1, "_action": "BackToState", "_text": m.group(1)})


def run_tlc(ctx, module, cfg, workers=None, timeout=900, env=None, extra=(), simulate=None,
            depth=None, deadlock=False, coverage=False, jvm=(), seed=None, allow_violation=True):
    """Run TLC on `module`.tla with `cfg` inside ctx.rundir (specs are copied there).
    Returns TLCResult.  Raises MachineryError on crash / parse failure."""
    rd = ctx.rundir
    metadir = tempfile.mkdtemp(prefix="meta_", dir=rd)
    cmd = ["java", "-XX:+UseParallelGC", "-Xss64m", "-Xmx24g", *jvm, "-cp", TLA_CP, "tlc2.TLC",
           "-config", cfg, "-metadir", metadir, "-noGenerateSpecTE"]
    if workers is None:
        workers = NCPU
    cmd += ["-workers", str(workers)]
    if not deadlock:
        cmd += ["-deadlock"]
    if coverage:
        cmd += ["-coverage", "1"]
    if simulate:
        cmd += ["-simulate", simulate]
    if depth:
        cmd += ["-depth", str(depth)]
    if seed is not None:
        cmd += ["-seed", str(seed)]
    cmd += list(extra)
    cmd += [module + ".tla"]
    e = dict(os.environ)
    e.pop("JAVA_TOOL_OPTIONS", None)
    if env:
        e.update(env)
    res = TLCResult()
    t0 = time.time()
    try:
        p = subprocess.run(cmd, cwd=rd, env=e, stdout=subprocess.PIPE, stderr=subprocess.STDOUT,
                           timeout=timeout, text=True, errors="replace")
        out = p.stdout
        rc = p.returncode
    except subprocess.TimeoutExpired as ex:
        out = ex.stdout if isinstance(ex.stdout, str) else (ex.stdout or b"").decode(errors="replace")
        res.timed_out = True
        rc = -1
        subprocess.run(["pkill", "-f", metadir], check=False)
    res.wall = time.time() - t0
    shutil.rmtree(metadir, ignore_errors=True)
    parse_tlc_output(out, res)
    # PrintT lines: everything that is not a TLC banner line; drivers filter by prefix
    res.prints = [l for l in out.splitlines() if l.startswith('"') or l.startswith("<<") or l.startswith("[")]
    ctx.tlc_runs.append({"module": module, "cfg": cfg, "generated": res.generated,
                         "distinct": res.distinct, "wall_s": round(res.wall, 2),
                         "ok": res.ok, "violated": res.violated, "timed_out": res.timed_out,
                         "depth": res.depth})
    ctx.states += res.distinct
    ctx.transitions += res.generated
    if res.timed_out:
        return res
    bad = (not res.ok and not res.violated)
    if bad or (res.violated and not allow_violation):
        log = os.path.join(ctx.rundir, f"tlc_fail_{module}.log")
        with open(log, "w") as f:
            f.write(out)
        keep = os.path.join(OUT, "replays", f"{ctx.pid}-tlc-failure.log")
        os.makedirs(os.path.dirname(keep), exist_ok=True)
        shutil.copy(log, keep)
        raise MachineryError(f"TLC failed on {module}/{cfg} (rc={rc}): {res.error}; log {keep}")
    return res


def parse_printed_json(res, tag=None):
    """PrintT(ToJson(x)) prints a TLA+ string literal holding JSON; decode all such lines."""
    vals = []
    for l in res.output.splitlines():
        l = l.strip()
        if len(l) > 2 and l[0] == '"' and l[-1] == '"' and l[1] in "{[":
            try:
                v = json.loads(json.loads(l))
            except Exception:
                continue
            if tag is None or (isinstance(v, dict) and v.get("tag") == tag):
                vals.append(v)
    return vals


# --------------------------------------------------------------------------- context


class Violation:
    def __init__(self, key, what, replay):
        self.key, self.what, self.replay = key, what, replay


class Ctx:
    def __init__(self, pid, tier, seed):
        self.pid, self.tier, self.seed = pid, tier, seed
        self.rng = random.Random(seed)
        self.t0 = time.time()
        self.rundir = tempfile.mkdtemp(prefix=f"verif_{pid}_")
        for f in os.listdir(SPEC_DIR):
            if f.endswith(".tla") or f.endswith(".cfg"):
                shutil.copy(os.path.join(SPEC_DIR, f), self.rundir)
        self.tlc_runs = []
        self.states = 0
        self.transitions = 0
        self.traces_validated = 0
        self.evaluations = 0
        self.distinct = set()
        self.samples = []
        self.violations = []  # unknown
        self.known_hits = {}  # finding id -> count
        self.drift = []
        self.outside_obs = {}
        self.notes = {}
        self.assumptions = []
        self.rule = ""
        self.exhaustive = None
        self.findings = load_findings(pid)

    @property
    def quick(self):
        return self.tier == "quick"

    def sample(self, s, limit=6):
        if len(self.samples) < limit:
            self.samples.append(s)

    def count(self, key, n=1):
        """count an evaluated case; key identifies distinct non-trivial cases (None = trivial)."""
        self.evaluations += n
        if key is not None:
            self.distinct.add(key if isinstance(key, (str, int)) else digest(key))

    def note(self, k, v):
        self.notes[k] = v

    def outside(self, what):
        """behaviour observed in a growth phase that no listed property covers: informational, never a verdict"""
        self.outside_obs[what] = self.outside_obs.get(what, 0) + 1

    def model_drift(self, what):
        if len(self.drift) < 50:
            self.drift.append(what)

    # ---- violations -------------------------------------------------------------
    def violation(self, key, what, record):
        """Report a property violation observed on the real code.
        key: stable identification of the failing call site + input class (matched against
        known_findings.json); record: JSON-able replay data."""
        for f in self.findings:
            if f.get("status") == "open" and finding_matches(f, key):
                self.known_hits.setdefault(f["id"], [f, 0, what])
                self.known_hits[f["id"]][1] += 1
                return
        if any(v.key == key for v in self.violations):
            return
        os.makedirs(os.path.join(OUT, "replays"), exist_ok=True)
        path = os.path.join(OUT, "replays", f"{self.pid}-{digest([key, record])}.json")
        with open(path, "w") as f:
            json.dump({"property": self.pid, "key": key, "what": what, "seed": self.seed,
                       "tier": self.tier, "record": record}, f, indent=1, default=str)
        self.violations.append(Violation(key, what, path))

    # ---- traces -----------------------------------------------------------------
    def validate_traces(self, module, cfg, traces, extra_env=None, workers=None, timeout=1800,
                        expect_states=True):
        """Batch trace validation.  `traces` is a list of traces, each {"init": <state>, "ev": [events]}.
        The Trace_* module reads them with JsonDeserialize(IOEnv.TRACE_FILE), steps `l` through
        every trace `tid`, records the first failing clause in `why` and prints one JSON line
        {"tag":"REJECT","tid":..,"l":..,"why":..} per rejected trace; it never stops at the
        first rejection, so known findings cannot mask new ones.
        Returns list of (tid0, l, why) with tid0 zero-based."""
        if not traces:
            return []
        path = os.path.join(self.rundir, f"traces_{module}_{len(self.tlc_runs)}.json")
        with open(path, "w") as f:
            # harness-only metadata (seeds, abstract step lists for replay) is not part of the trace
            json.dump([{k: v for k, v in t.items() if k not in HARNESS_ONLY_KEYS} for t in traces], f)
        env = {"TRACE_FILE": path}
        if extra_env:
            env.update(extra_env)
        res = run_tlc(self, module, cfg, env=env, workers=workers, timeout=timeout,
                      allow_violation=False)
        os.unlink(path)
        if res.timed_out:
            raise MachineryError(f"trace validation {module} timed out after {timeout}s")
        if expect_states:
            want = len(traces) + sum(len(t["ev"]) + 1 for t in traces)
            # one initial state per trace + (len+1) positions; nondeterministic specs may add more
            if res.distinct < want - len(traces):
                raise MachineryError(
                    f"trace validation {module}: TLC visited {res.distinct} states, expected >= {want - len(traces)}")
        rej = []
        for v in parse_printed_json(res, tag="REJECT"):
            rej.append((int(v["tid"]) - 1, int(v["l"]), v["why"]))
        for v in parse_printed_json(res, tag="DRIFT"):
            self.model_drift(f"{module}: trace {int(v['tid']) - 1} step {v['l']}: {v['why']}")
        for v in parse_printed_json(res, tag="OUTSIDE"):
            self.outside(v["why"])
        self.traces_validated += len(traces)
        return sorted(set(rej))

    # ---- finish -----------------------------------------------------------------
    def finish(self):
        wall = time.time() - self.t0
        cov = {
            "states": max(self.states, 0),
            "transitions": max(self.transitions, 0),
            "traces_validated_against_impl": self.traces_validated,
            "samples": self.samples[:8] or ["(run aborted before a sample was recorded)"],
            "evaluations": self.evaluations,
            "distinct_nontrivial": len(self.distinct),
            "rule": self.rule,
            "tlc_runs": self.tlc_runs,
            "model_matches_code": not self.drift,
            "model_drift": self.drift[:20],
            "known_findings_printed": sorted(self.known_hits),
        }
        if self.outside_obs:
            cov["outside_listed_properties"] = [{"observation": k, "count": n} for k, n in sorted(self.outside_obs.items())]
        if self.exhaustive is not None:
            cov["exhaustive"] = self.exhaustive
        cov.update(self.notes)
        ev = {
            "property_id": self.pid,
            "tier": self.tier,
            "seed": self.seed,
            "level": "model_checking",
            "coverage": cov,
            "assumptions": self.assumptions,
            "wall_s": round(wall, 2),
            "violations": len(self.violations),
        }
        os.makedirs(os.path.join(OUT, "evidence"), exist_ok=True)
        with open(os.path.join(OUT, "evidence", f"{self.pid}.json"), "w") as f:
            json.dump(ev, f, indent=1, default=str)
        for fid, (f, n, what) in sorted(self.known_hits.items()):
            print(f"KNOWN-FINDING: property={self.pid} {f['site']}: {f['class']} ({n} observations)")
        for d in self.drift[:10]:
            print(f"MODEL-DRIFT: property={self.pid} {d}")
        for k, n in sorted(self.outside_obs.items()):
            print(f"OUTSIDE-LISTED-PROPERTIES: (informational, seen while checking {self.pid}) {k} ({n} observations)")
        for v in self.violations:
            print(f"  violation detail: {v.what}")
            print(f"VIOLATION property={self.pid} replay={v.replay}")
        print(f"{self.pid} {self.tier}: states={self.states} transitions={self.transitions} "
              f"traces={self.traces_validated} evaluations={self.evaluations} "
              f"distinct={len(self.distinct)} violations={len(self.violations)} "
              f"known={len(self.known_hits)} wall={wall:.1f}s")
        shutil.rmtree(self.rundir, ignore_errors=True)
        return 1 if self.violations else 0

    def cleanup(self):
        shutil.rmtree(self.rundir, ignore_errors=True)


def edge_label_coverage(ctx, edges, label, name, floor):
    """vacuity guard for the bounded models (the state machines have one Next with the action as a parameter, so TLC's own
    per-action coverage says nothing): the explored edges are counted per action label, the table goes into the evidence
    file, and a model that explored fewer than `floor` different labels - an alphabet that silently lost letters - is a
    machinery failure, not a passed check"""
    counts = {}
    for e in edges:
        k = label(e)
        counts[k] = counts.get(k, 0) + 1
    ctx.note(f"{name}_edges_per_action_label", dict(sorted(counts.items())))
    if len(counts) < floor:
        raise MachineryError(f"{name}: the bounded model explored only {len(counts)} action labels (floor {floor}): {sorted(counts)}")
    return counts


# --------------------------------------------------------------------------- findings


def load_findings(pid):
    p = os.path.join(VERIF, "known_findings.json")
    if not os.path.exists(p):
        return []
    with open(p) as f:
        data = json.load(f)
    return [x for x in data.get("findings", []) if x.get("property") == pid]


def finding_matches(f, key):
    m = f.get("match", {})
    if "key" in m:
        return key == m["key"]
    if "key_regex" in m:
        return re.fullmatch(m["key_regex"], key) is not None
    return False


# --------------------------------------------------------------------------- misc helpers


def chunks(seq, n):
    for i in range(0, len(seq), n):
        yield seq[i:i + n]


def bits_of(ba):
    return [int(b) for b in ba]


def hexs(b):
    return bytes(b).hex()
