"""Input builders: PDUs with in-range fields and bursts assembled the way TransmissionGenerator
assembles them (Burst(burst_type=DataAndControl) + slot type + sync + data -> as_bytes())."""
from bitarray import bitarray
from bitarray.util import int2ba

DATA_SYNCS = ["BsSourcedData", "MsSourcedData", "Tdma1Data", "Tdma2Data"]
VOICE_SYNCS = ["BsSourcedVoice", "MsSourcedVoice", "Tdma1Voice", "Tdma2Voice"]


def rbits(rng, n):
    return bitarray([rng.getrandbits(1) for _ in range(n)]) if n else bitarray()


def rbytes(rng, n):
    return bytes(rng.getrandbits(8) for _ in range(n))


def assemble_data_burst(pdu, data_type, colour_code=1, sync="BsSourcedData"):
    """assemble like TransmissionGenerator does, return the 33 bytes"""
    from okdmr.dmrlib.etsi.layer2.burst import Burst
    from okdmr.dmrlib.etsi.layer2.elements.burst_types import BurstTypes
    from okdmr.dmrlib.etsi.layer2.elements.sync_patterns import SyncPatterns
    from okdmr.dmrlib.etsi.layer2.pdu.slot_type import SlotType
    b = Burst(full_bits=bitarray([0] * 264), burst_type=BurstTypes.DataAndControl)
    b.has_emb = False
    b.sync_or_embedded_signalling = SyncPatterns[sync]
    b.slot_type = SlotType(colour_code=colour_code, data_type=data_type)
    b.data = pdu
    return b.as_bytes()


def raw_data_burst(info96, data_type, colour_code=1, sync="BsSourcedData"):
    """a data burst with a BPTC-coded 96-bit payload of a data type that has no PDU class"""
    from okdmr.dmrlib.etsi.fec.bptc_196_96 import BPTC19696
    from okdmr.dmrlib.etsi.layer2.elements.sync_patterns import SyncPatterns
    from okdmr.dmrlib.etsi.layer2.pdu.slot_type import SlotType
    from okdmr.dmrlib.utils.bits_bytes import bits_to_bytes
    coded = BPTC19696.encode(info96)
    slot = SlotType(colour_code=colour_code, data_type=data_type).as_bits()
    bits = coded[:98] + slot[:10] + SyncPatterns[sync].as_bits() + slot[10:] + coded[98:]
    return bits_to_bytes(bits)


def voice_sync_burst(rng, sync=None):
    from okdmr.dmrlib.etsi.layer2.elements.sync_patterns import SyncPatterns
    from okdmr.dmrlib.utils.bits_bytes import bits_to_bytes
    v = rbits(rng, 216)
    s = SyncPatterns[sync or rng.choice(VOICE_SYNCS)].as_bits()
    return bits_to_bytes(v[:108] + s + v[108:])


def voice_emb_burst(rng, colour_code=1, pi=0, lcss=0, emb32=None, voice=None):
    # the EMB word is laid out here as the standard says (CC 4, PI 1, LCSS 2, QR(16,7,6) parity 9), not by the
    # library's EmbeddedSignalling serialiser, so that what the parser receives is valid embedded signalling
    from bitarray.util import int2ba
    from okdmr.dmrlib.etsi.fec.quadratic_residue_16_7_6 import QuadraticResidue1676
    from okdmr.dmrlib.utils.bits_bytes import bits_to_bytes
    v = voice if voice is not None else rbits(rng, 216)
    e = bitarray([int(x) for x in QuadraticResidue1676.generate(int2ba((colour_code << 3) | (pi << 2) | lcss, length=7))])
    m = emb32 if emb32 is not None else rbits(rng, 32)
    return bits_to_bytes(v[:108] + e[:8] + m + e[8:] + v[108:])


def service_options(rng):
    from okdmr.dmrlib.etsi.layer3.elements.service_options import ServiceOptions
    return ServiceOptions(is_emergency=rng.getrandbits(1), is_broadcast=rng.getrandbits(1),
                          is_open_voice_call_mode=rng.getrandbits(1), priority_level=rng.randrange(4),
                          is_privacy=rng.getrandbits(1), reserved=bitarray("00"))


def addr24(rng):
    """a 24-bit address: mostly random, but also the values a careless `x or default` / `if x` treats as absent or special"""
    return rng.choice([0, 1, (1 << 24) - 1, 0xFFFFFC]) if rng.random() < 0.2 else rng.randrange(1 << 24)


def full_lc_voice(rng, source_address, group=True, other=None):
    from okdmr.dmrlib.etsi.layer2.elements.feature_set_ids import FeatureSetIDs
    from okdmr.dmrlib.etsi.layer2.elements.flcos import FLCOs
    from okdmr.dmrlib.etsi.layer2.pdu.full_link_control import FullLinkControl
    other = addr24(rng) if other is None else other
    kw = dict(protect_flag=rng.getrandbits(1), fid=FeatureSetIDs.StandardizedFID, crc=rbits(rng, 24),
              service_options=service_options(rng), source_address=source_address)
    if group:
        return FullLinkControl(flco=FLCOs.GroupVoiceChannelUser, group_address=other, **kw)
    return FullLinkControl(flco=FLCOs.UnitToUnitVoiceChannelUser, target_address=other, **kw)


class Octets(bytes):
    """octets in a caller's own subclass of bytes (a payload wrapper): wherever bytes are accepted, these are bytes"""


def as_caller_bytes(b, k):
    """every fifth caller hands its octets over as an instance of a subclass of bytes"""
    return Octets(b) if k % 5 == 4 else bytes(b)


def as_caller_buffer(b, k):
    """where a signature says "raw bytes" of a received datagram: what a socket / transport / capture library hands over -
    bytes, a subclass of bytes, a bytearray (recv_into buffers) or a memoryview slice of a larger receive buffer"""
    m = k % 7
    if m == 3:
        return bytearray(b)
    if m == 5:
        return memoryview(b"\x00" + bytes(b) + b"\x00")[1:-1]
    return Octets(b) if m == 6 else bytes(b)


def full_lc_other(rng, sub, ident=None):
    """the full link controls that are not voice channel users: sub = "gps" (GPS Info, coordinates on the 25 / 24 bit grid,
    both signs and the extremes) or "ta" (talker alias header / blocks 1..3).  ident: a burst id to carry (these link controls
    have no source address): in the first alias octets behind the marker octet 0xA5, or as the longitude's grid index"""
    from okdmr.dmrlib.etsi.layer2.elements.feature_set_ids import FeatureSetIDs
    from okdmr.dmrlib.etsi.layer2.elements.flcos import FLCOs
    from okdmr.dmrlib.etsi.layer2.pdu.full_link_control import FullLinkControl
    from okdmr.dmrlib.etsi.layer3.elements.position_error import PositionError
    from okdmr.dmrlib.etsi.layer3.elements.talker_alias_data_format import TalkerAliasDataFormat
    kw = dict(protect_flag=rng.getrandbits(1), fid=FeatureSetIDs.StandardizedFID, crc=rbits(rng, 24))
    if sub == "gps":
        def grid(w):
            k = rng.choice([rng.randrange(-(1 << (w - 1)), 1 << (w - 1)), -rng.randrange(1, 1 << (w - 1)), -1, -(1 << (w - 1)),
                            (1 << (w - 1)) - 1, 0, rng.randrange(1, 1 << (w - 1))])
            return k
        return FullLinkControl(flco=FLCOs.GPSInfo, position_error=rng.choice(list(PositionError)),
                               longitude=(grid(25) if ident is None else ident) * (360 / 2 ** 25), latitude=grid(24) * (180 / 2 ** 24), **kw)
    alias = lambda n: rbytes(rng, n) if ident is None else marker(ident) + rbytes(rng, n - 3)
    if rng.random() < 0.4:
        return FullLinkControl(flco=FLCOs.TalkerAliasHeader, talker_alias_data_format=rng.choice(list(TalkerAliasDataFormat)),
                               talker_alias_data_length=rng.randrange(32), talker_alias_data_msb=rng.getrandbits(1),
                               talker_alias_data=alias(6), **kw)
    return FullLinkControl(flco=rng.choice([FLCOs.TalkerAliasBlock1, FLCOs.TalkerAliasBlock2, FLCOs.TalkerAliasBlock3]),
                           talker_alias_data=alias(7), **kw)


HDR_FORMATS = ["C", "U", "R", "S", "T"]


def data_header(rng, fmt, btf=0, a=False, sap=None, llid_source=1, llid_destination=None, pad=0):
    """fmt: C confirmed, U unconfirmed, R response, S short data defined, T unified data transport"""
    from okdmr.dmrlib.etsi.layer2.elements.csbk_opcodes import CsbkOpcodes
    from okdmr.dmrlib.etsi.layer2.elements.data_packet_formats import DataPacketFormats as D
    from okdmr.dmrlib.etsi.layer2.elements.defined_data_formats import DefinedDataFormats
    from okdmr.dmrlib.etsi.layer2.elements.full_message_flag import FullMessageFlag
    from okdmr.dmrlib.etsi.layer2.elements.resynchronize_flag import ResynchronizeFlag
    from okdmr.dmrlib.etsi.layer2.elements.sap_identifier import SAPIdentifier
    from okdmr.dmrlib.etsi.layer2.elements.sarq import SARQ
    from okdmr.dmrlib.etsi.layer2.elements.supplementary_flag import SupplementaryFlag
    from okdmr.dmrlib.etsi.layer2.elements.udt_format import UDTFormat
    from okdmr.dmrlib.etsi.layer2.pdu.data_header import DataHeader
    from okdmr.dmrlib.etsi.layer3.elements.udt_option_flag import UDTOptionFlag
    sap = sap or rng.choice([s for s in SAPIdentifier if s != SAPIdentifier.Reserved])
    dst = addr24(rng) if llid_destination is None else llid_destination
    common = dict(sap_identifier=sap, llid_destination=dst, llid_source=llid_source,
                  is_response_requested=bool(a))
    if fmt == "C":
        return DataHeader(dpf=D.DataPacketConfirmed, is_group=rng.getrandbits(1), pad_octet_count=pad,
                          full_message_flag=FullMessageFlag(rng.getrandbits(1)), blocks_to_follow=btf,
                          resynchronize_flag=ResynchronizeFlag(rng.getrandbits(1)),
                          send_sequence_number=rng.randrange(8), fragment_sequence_number=rng.randrange(16),
                          **common)
    if fmt == "U":
        return DataHeader(dpf=D.DataPacketUnconfirmed, is_group=rng.getrandbits(1), pad_octet_count=pad,
                          full_message_flag=FullMessageFlag(rng.getrandbits(1)), blocks_to_follow=btf,
                          fragment_sequence_number=rng.randrange(16), **common)
    if fmt == "R":
        return DataHeader(dpf=D.ResponsePacket, full_message_flag=FullMessageFlag(rng.getrandbits(1)),
                          blocks_to_follow=btf, response_class=rng.randrange(4), response_type=rng.randrange(8),
                          response_status=rng.randrange(8), **common)
    if fmt == "S":
        ddf = rng.choice([d for d in DefinedDataFormats if d.name != "Reserved"])
        return DataHeader(dpf=D.ShortDataDefined, is_group=rng.getrandbits(1), appended_blocks=btf,
                          defined_data_format=ddf, sarq=SARQ(rng.getrandbits(1)),
                          full_message_flag=FullMessageFlag(rng.getrandbits(1)), bit_padding=rbits(rng, 8),
                          **common)
    if fmt == "T":
        return DataHeader(dpf=D.UnifiedDataTransport, is_group=rng.getrandbits(1), is_emergency=rng.getrandbits(1),
                          udt_option_flag=UDTOptionFlag(rng.getrandbits(1)), pad_nibbles_count=rng.randrange(32),
                          udt_format=rng.choice([u for u in UDTFormat if "Reserved" not in u.name]),
                          appended_blocks=rng.randrange(4), supplementary_flag=SupplementaryFlag(rng.getrandbits(1)),
                          udt_opcode=rng.choice(list(CsbkOpcodes)), **common)
    raise ValueError(fmt)


def preamble_csbk(rng, btf, source_address=1, target_address=None):
    from okdmr.dmrlib.etsi.layer2.elements.csbk_opcodes import CsbkOpcodes
    from okdmr.dmrlib.etsi.layer2.pdu.csbk import CSBK
    return CSBK(csbko=CsbkOpcodes.PreambleCSBK, last_block=True, source_address=source_address,
                target_address=addr24(rng) if target_address is None else target_address,
                blocks_to_follow=btf, csbk_content_follows_preambles=rng.getrandbits(1),
                target_address_is_individual=rng.getrandbits(1))


def other_csbk(rng, source_address=1):
    """a CSBK that is not a preamble: every implemented opcode that carries a source address (the burst id of the harness)"""
    from okdmr.dmrlib.etsi.layer2.elements.csbk_opcodes import CsbkOpcodes
    from okdmr.dmrlib.etsi.layer2.pdu.csbk import CSBK
    from okdmr.dmrlib.etsi.layer3.elements.additional_information_field import AdditionalInformationField
    from okdmr.dmrlib.etsi.layer3.elements.answer_response import AnswerResponse
    from okdmr.dmrlib.etsi.layer3.elements.reason_code import ReasonCode
    from okdmr.dmrlib.etsi.layer3.elements.source_type import SourceType
    k = rng.randrange(4)
    if k == 0:
        return CSBK(csbko=CsbkOpcodes.BSOutboundActivation, bs_address=addr24(rng),
                    source_address=source_address)
    if k == 1:
        return CSBK(csbko=CsbkOpcodes.UnitToUnitVoiceServiceRequest, service_options=service_options(rng),
                    target_address=addr24(rng), source_address=source_address)
    if k == 2:
        return CSBK(csbko=CsbkOpcodes.UnitToUnitVoiceServiceAnswerResponse, service_options=service_options(rng),
                    answer_response=rng.choice(list(AnswerResponse)), target_address=addr24(rng), source_address=source_address)
    return CSBK(csbko=CsbkOpcodes.NegativeAcknowledgementResponse, additional_information_field=rng.choice(list(AdditionalInformationField)),
                source_type=rng.choice(list(SourceType)), service_type=rng.choice([CsbkOpcodes.UnitToUnitVoiceServiceRequest, CsbkOpcodes.BSOutboundActivation]),
                reason_code=rng.choice(list(ReasonCode)), target_address=addr24(rng), source_address=source_address)


def marker(n):
    return b"\xa5" + int(n).to_bytes(2, "big")


def find_marker(data, confirmed):
    """id carried by a (typed) rate block: the marker sits at octets 2..4 of the untyped block, i.e. at
    offset 2 of an unconfirmed block's data and offset 0 of a confirmed block's data"""
    data = bytes(data)
    off = 0 if confirmed else 2
    if len(data) < off + 3 or data[off] != 0xA5:
        return 0
    return int.from_bytes(data[off + 1:off + 3], "big")


def rate_block_bytes(rng, rate, ident, udpz=False):
    """untyped rate-coded block: 12/18/24 octets with the marker at octets 2..4 (inside the data field of
    every typed re-parse). udpz: octets 5,6 zero, which reads as 'both UDP ports in extended headers' when the
    block is the start of a UDP/IPv4-compressed payload of a confirmed transmission"""
    n = {"R12": 12, "R34": 18, "R1": 24}[rate]
    body = bytearray(rbytes(rng, n))
    body[2:5] = marker(ident)
    if udpz:
        body[5] = 0
        body[6] = 0
    return bytes(body)


def rate_block(rate, data):
    from okdmr.dmrlib.etsi.layer2.pdu.rate12_data import Rate12Data
    from okdmr.dmrlib.etsi.layer2.pdu.rate1_data import Rate1Data
    from okdmr.dmrlib.etsi.layer2.pdu.rate34_data import Rate34Data
    return {"R12": Rate12Data, "R34": Rate34Data, "R1": Rate1Data}[rate](data=data)


def scribble(obj, depth=0, seen=None):
    """the impolite caller: an object the library handed out (or was given) belongs to the caller, who may edit it in place -
    booleans flipped, integers changed, bit / byte arrays inverted, nested library objects likewise.  Enumeration members,
    classes and anything not defined by the library are left alone.  Later library calls must not be affected."""
    import enum
    from bitarray import bitarray
    seen = seen if seen is not None else set()
    if obj is None or id(obj) in seen or depth > 3:
        return
    seen.add(id(obj))
    if isinstance(obj, (enum.Enum, type)) or not type(obj).__module__.startswith("okdmr.dmrlib"):
        return
    d = getattr(obj, "__dict__", None)
    if not isinstance(d, dict):
        return
    for k, v in list(d.items()):
        try:
            if isinstance(v, bool):
                d[k] = not v
            elif isinstance(v, enum.Enum):
                continue
            elif isinstance(v, int):
                d[k] = v ^ 1
            elif isinstance(v, bitarray):
                v.invert()
            elif isinstance(v, bytearray):
                for i in range(len(v)):
                    v[i] ^= 0xFF
            elif isinstance(v, list):
                for x in v:
                    scribble(x, depth + 1, seen)
            elif isinstance(v, dict):
                for x in v.values():
                    scribble(x, depth + 1, seen)
            else:
                scribble(v, depth + 1, seen)
        except Exception:  # noqa: read-only slots / properties are not the caller's to edit
            pass


def ipsc_frame(rng, burst33, slot_type, frame_type=0x1111, colour_code=1, timeslot=1, src=1, dst=2, seq=0, packet_type=0x41, call_type=0):
    """a well-formed 72-octet Hytera IPSC frame around a 33-octet burst (layout of spec/IPSC.tla); starts with ZZZZ so that the
    protocol detection of utils/parsing.py recognises it whatever the other octets are"""
    from okdmr.dmrlib.utils.bits_bytes import byteswap_bytes
    return (b"ZZZZ" + bytes([seq & 0xFF]) + rbytes(rng, 3) + bytes([packet_type]) + rbytes(rng, 7)
            + (b"\x11\x11" if timeslot == 1 else b"\x22\x22") + slot_type.to_bytes(2, "little") + bytes([colour_code | colour_code << 4] * 2)
            + frame_type.to_bytes(2, "little") + rbytes(rng, 2) + byteswap_bytes(bytes(burst33) + b"\x00") + rbytes(rng, 2) + bytes([call_type])
            + (dst << 8).to_bytes(4, "little") + (src << 8).to_bytes(4, "little") + rbytes(rng, 1))


class ambient_numeric_context:
    """the application around the library has numeric settings of its own: a decimal context with little precision and
    another rounding mode, numpy told to raise on floating-point errors.  A codec result may not depend on them; entered for a
    share of the calls of the numeric checks, restored afterwards"""

    def __enter__(self):
        import decimal
        import numpy
        self.d = decimal.getcontext().copy()
        self.n = numpy.geterr()
        c = decimal.getcontext()
        c.prec, c.rounding = 5, decimal.ROUND_UP
        c.traps[decimal.Inexact] = False
        numpy.seterr(all="raise")
        return self

    def __exit__(self, *exc):
        import decimal
        import numpy
        decimal.setcontext(self.d)
        numpy.seterr(**self.n)
        return False
