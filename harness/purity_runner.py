"""Runs catalogue signatures for C19 in a controlled interpreter.
  --mode ref : every signature is executed as the FIRST library call of a pristine process state
               (a child forked from a parent that imported the library but called nothing)
  --mode cold: like ref, but the parent has NOT imported the library (only third-party packages): each child imports exactly
               what its one call chain imports - results that depend on which modules happen to be loaded show here
  --mode seq : the given signatures are executed one after the other in this one interpreter
The wall clock (date/datetime) is shifted by --offset-days and random/secrets are seeded with --seed
BEFORE the library is imported."""
import argparse
import json
import os
import sys

sys.path.insert(0, os.path.dirname(os.path.dirname(os.path.abspath(__file__))))


def patch_environment(offset_days, seed):
    import datetime as dtm
    import random
    import secrets
    if offset_days:
        delta = dtm.timedelta(days=offset_days, seconds=offset_days * 997)
        real_date, real_dt = dtm.date, dtm.datetime

        class _DateMeta(type):
            def __instancecheck__(cls, inst):
                return isinstance(inst, real_date)

        class _DateTimeMeta(type):
            def __instancecheck__(cls, inst):
                return isinstance(inst, real_dt)

        class FakeDate(real_date, metaclass=_DateMeta):
            @classmethod
            def today(cls):
                d = real_date.today() + delta
                return real_date.__new__(cls, d.year, d.month, d.day)

        class FakeDateTime(real_dt, metaclass=_DateTimeMeta):
            @classmethod
            def now(cls, tz=None):
                d = real_dt.now(tz) + delta
                return real_dt.__new__(cls, d.year, d.month, d.day, d.hour, d.minute, d.second, d.microsecond, d.tzinfo)

            @classmethod
            def utcnow(cls):
                d = real_dt.utcnow() + delta
                return real_dt.__new__(cls, d.year, d.month, d.day, d.hour, d.minute, d.second, d.microsecond)

            @classmethod
            def today(cls):
                return cls.now()

        dtm.date, dtm.datetime = FakeDate, FakeDateTime
        import time as _t
        real_time = _t.time
        _t.time = lambda: real_time() + delta.total_seconds()
    random.seed(seed)
    rng = random.Random(seed * 31 + 7)
    secrets.token_bytes = lambda n=32: bytes(rng.getrandbits(8) for _ in range(n))


def cell_readers():
    """hidden mutable cells (read through private attributes; 'n/a' if the attribute is gone)"""
    from harness import catalogue

    def reg(modname, cls):
        def f():
            import importlib
            C = getattr(importlib.import_module(modname), cls)
            return C.CALC._crc_register._register.to01()
        return f

    def defaults(modname, cls):
        def f():
            import importlib
            C = getattr(importlib.import_module(modname), cls)
            d = C.__init__.__defaults__ or ()
            return catalogue.canon([x for x in d if not isinstance(x, (int, str, bool, type(None), bytes, float))])
        return f

    def lrrp():
        from okdmr.dmrlib.motorola.lrrp import LRRP
        return catalogue.digest([getattr(LRRP, k) for k in sorted(vars(LRRP)) if k.isupper()])

    def arrp():
        from okdmr.dmrlib.motorola.arrp import ARRP
        return catalogue.digest([getattr(ARRP, k) for k in sorted(vars(ARRP)) if k.isupper()])

    def debug():
        from okdmr.dmrlib.motorola.mbxml import MBXML
        return repr(MBXML.DEBUG)

    def tables():
        from okdmr.dmrlib.etsi.crc import crc16, crc32, crc8, crc9
        return catalogue.digest([m.__dict__[n].CALC._crc_register._lookup_table
                                 for m, n in ((crc8, "CRC8"), (crc9, "CRC9"), (crc16, "CRC16"), (crc32, "CRC32"))])

    def numeric_context():
        # process-wide numeric settings a codec has no business changing: the decimal context, numpy's error handling
        import decimal
        import numpy
        c = decimal.getcontext()
        return repr((c.rounding, c.prec, sorted(numpy.geterr().items())))

    return {
        "numeric_context": numeric_context,
        "crc8_reg": reg("okdmr.dmrlib.etsi.crc.crc8", "CRC8"), "crc9_reg": reg("okdmr.dmrlib.etsi.crc.crc9", "CRC9"),
        "crc16_reg": reg("okdmr.dmrlib.etsi.crc.crc16", "CRC16"), "crc32_reg": reg("okdmr.dmrlib.etsi.crc.crc32", "CRC32"),
        "crc_tables": tables,
        "burst_defaults": defaults("okdmr.dmrlib.etsi.layer2.burst", "Burst"),
        "csbk_defaults": defaults("okdmr.dmrlib.etsi.layer2.pdu.csbk", "CSBK"),
        "dataheader_defaults": defaults("okdmr.dmrlib.etsi.layer2.pdu.data_header", "DataHeader"),
        "serviceoptions_defaults": defaults("okdmr.dmrlib.etsi.layer3.elements.service_options", "ServiceOptions"),
        "rcp_defaults": defaults("okdmr.dmrlib.hytera.pdu.radio_control_protocol", "RadioControlProtocol"),
        "lp_defaults": defaults("okdmr.dmrlib.hytera.pdu.location_protocol", "LocationProtocol"),
        "lrrp_tables": lrrp, "arrp_tables": arrp, "mbxml_debug": debug,
    }


def read_cells(readers):
    out = {}
    for k, f in readers.items():
        try:
            out[k] = f()
        except Exception:  # noqa
            out[k] = "n/a"
    return out


def main():
    ap = argparse.ArgumentParser()
    ap.add_argument("--mode", required=True)
    ap.add_argument("--builders", default="")
    ap.add_argument("--names", required=True)
    ap.add_argument("--out", required=True)
    ap.add_argument("--offset-days", type=int, default=0)
    ap.add_argument("--seed", type=int, default=0)
    ap.add_argument("--full", action="store_true")
    a = ap.parse_args()
    patch_environment(a.offset_days, a.seed)
    import contextlib
    import io
    from harness import core
    core.setup_repo_path()
    from harness import catalogue
    if a.builders:
        catalogue._BUILDER_NAMES[0] = json.load(open(a.builders))
    S = catalogue.build()
    names = json.load(open(a.names))
    sink = io.StringIO()
    if a.mode in ("ref", "cold"):
        import importlib
        import pkgutil
        if a.mode == "ref":
            # import (only import) the library so that children start fast; no library call is made here
            import okdmr.dmrlib as root
            for m in pkgutil.walk_packages(root.__path__, "okdmr.dmrlib."):
                if ".tools." in m.name or ".tests." in m.name:
                    continue
                try:
                    importlib.import_module(m.name)
                except Exception:  # noqa
                    pass
        else:
            # third-party packages only (they are what makes a cold start slow); nothing of okdmr
            for third in ("numpy", "bitarray", "bitarray.util", "kaitaistruct", "scapy.layers.inet", "scapy.layers.l2", "scapy.utils"):
                try:
                    importlib.import_module(third)
                except Exception:  # noqa
                    pass
            if any(k.startswith("okdmr") for k in sys.modules):
                print("the cold parent has already imported the library")
                sys.exit(3)
        out = {}
        for n in names:
            r, w = os.pipe()
            pid = os.fork()
            if pid == 0:
                os.close(r)
                with contextlib.redirect_stdout(sink):
                    res = catalogue.run_signature(S, n)
                os.write(w, json.dumps(res).encode())
                os._exit(0)
            os.close(w)
            buf = b""
            while True:
                chunk = os.read(r, 65536)
                if not chunk:
                    break
                buf += chunk
            os.close(r)
            os.waitpid(pid, 0)
            out[n] = json.loads(buf.decode()) if buf else ["crashed", False, "crashed", True]
            if not a.full:
                out[n][2] = json.dumps(out[n][2])[:160]
        json.dump(out, open(a.out, "w"))
    else:
        readers = cell_readers()
        ev = []
        before = read_cells(readers)
        for n in names:
            with contextlib.redirect_stdout(sink):
                d, intact, short, _same = catalogue.run_signature(S, n)
            after = read_cells(readers)
            changed = sorted(k for k in after if after[k] != before[k])
            before = after
            ev.append({"sig": n, "fam": n.split("#")[0], "digest": d, "intact": bool(intact), "changed": changed})
        json.dump(ev, open(a.out, "w"))


if __name__ == "__main__":
    main()
