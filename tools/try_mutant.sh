#!/bin/sh
# usage: try_mutant.sh <Cxx> <file-relative-to-repo> <sed-expression> [tier]
# copies the okdmr package to a scratch dir, applies the sed edit, runs the check against the copy, removes the copy
set -e
PID=$1; FILE=$2; EXPR=$3; TIER=${4:-quick}
SCR=$(mktemp -d /tmp/mut_XXXXXX)
cp -r "${BASE:-/repo}/okdmr" "$SCR/"
sed -i "$EXPR" "$SCR/$FILE"
if diff -q "/repo/$FILE" "$SCR/$FILE" >/dev/null; then echo "sed expression changed nothing"; rm -rf "$SCR"; exit 3; fi
diff -u "/repo/$FILE" "$SCR/$FILE" | head -20 || true
set +e
VERIF_OUT="$SCR" VERIF_REPO="$SCR" /verif/check "$PID" --tier "$TIER" > "$SCR/out.txt" 2>&1
RC=$?
grep -E "VIOLATION|KNOWN-FINDING|MACHINERY|OUTSIDE|MODEL-DRIFT|violations=" "$SCR/out.txt" | head -8
echo "exit code $RC"
rm -rf "$SCR"
exit 0
