#!/usr/bin/env python3
"""Regenerate the seeded-change table of DESIGN.md (between the SEEDTABLE markers) from seeded/*/meta.json."""
import glob, json, re
rows = []
for f in sorted(glob.glob("/verif/seeded/*/meta.json")):
    m = json.load(open(f))
    caught = m["caught_by_quick_check"]
    short = "yes" if caught == "yes" else ("after strengthening" if caught.startswith("yes-after") else caught)
    det = m.get("violation_details") or []
    clause = ""
    if det:
        mm = re.search(r"breaks (\w+)", det[0]) or re.search(r": ([\w\-/().|, ]+?):", det[0].replace("violation detail: ", "", 1) + ":")
        clause = mm.group(1) if mm else ""
    rows.append(f"| {m['id']} | `{m['files'][0].replace('okdmr/dmrlib/', '')}` | {m['needs_to_manifest']} | {short} | {clause[:70]} |")
table = "| id | file | needs to manifest | caught by `./check` quick | first clause reported |\n|---|---|---|---|---|\n" + "\n".join(rows)
p = "/verif/DESIGN.md"
s = open(p).read()
s = re.sub(r"<!-- SEEDTABLE -->.*?<!-- /SEEDTABLE -->", "<!-- SEEDTABLE -->\n" + table + "\n<!-- /SEEDTABLE -->", s, flags=re.S)
open(p, "w").write(s)
print(len(rows), "rows")
