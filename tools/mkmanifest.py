#!/venv/bin/python
"""Generate MANIFEST.json from the table below (one place to edit)."""
import json
import os

HERE = os.path.dirname(os.path.dirname(os.path.abspath(__file__)))
BASELINE = "cd /repo && /venv/bin/python -m pytest -ra -q -p no:cacheprovider --timeout=900 --continue-on-collection-errors"

# appended to the level note: what was added after the seeded-change rounds and the growth phases (DESIGN 10, 11)
EXTRA_NOTES = {
    "C01": "TLC lists the valid EMB words nearest to each SYNC pattern (MC_BurstNear) and the harness builds those voice bursts. Payload kinds are interleaved in every worker process, first rounds carry all-zero / all-one payload octets; EMB words of voice bursts are laid out by the harness from the QR(16,7,6) code. Every CSBK opcode, data header format and full link control of PDULayouts.tla (exported by MC_PDUExport, built by the C03 adapter with random in-range values) also goes through burst assembly; voice LC headers / terminators also carry GPS-info and talker-alias link controls. Voice bursts enter through every public entry point (from_bytes without a hint - the observation point the property names -, the constructor, from_bits); data bursts whose centre is EMB + 32 embedded bits are given as such.",
    "C03": "Every other case is handled by an impolite caller that edits built and decoded objects in place afterwards; undefined element values are judged against the standard's reserved / manufacturer ranges (Elements.tla). Optional constructor arguments whose default is a value are left out in one case of seven (fixed length and bit survival judged); feature set id classes per 9.3.13 - unlisted manufacturer ids are an open known finding. Rate block octets are handed over as bytes, bytes subclass, bytearray and memoryview slice; the alias octets of talker alias link controls are among the arguments left out. Every element value is decoded twice (ascending, descending) and the serialised value of defined members is judged. CSBK raw data / broadcast parameters are among the arguments left out.",
    "C04": "HRNP also on the relay path (received, field updated, sent on); error patterns aimed at indicators computed over re-serialised fields (fold-amplified, harness polynomial arithmetic); corruption records judged in slices of 400 000. Clause CorruptPduReportedIntact: an accepted corrupted PDU breaks the property also when its fields equal the original; HRNP around every HDAP family and as payload-less control packets. Errors that clear every set bit of a light CRC-32 of a confirmed last block (1500 per rate and run). ",
    "C05": "CRC-32 part incl. 00000000/00000001/80000000/FFFFFFFF; half of the callers reuse a mutable buffer for calculate, calculate, verify. Verifiers are offered structured wrong values (octets / bits in the other order, halves swapped, complement, neighbours, other mask). The CRC-32 part of the CRC-9 is also given as a number, zero included. Front-end inputs aimed by the code's algebra (Gaussian elimination over GF(2) on the affine front ends): check values all zeros / all ones / with a zero or all-one octet at either end. Front-end message lengths are walked through by a counter.",
    "C06": "Encoder outputs of a sweep are held and read after the last call; each repair result is read after the next call.",
    "C07": "Extremes N=126/127 with 0/2/16 preambles in both tiers. Growth phase AirLink (AirLink.tla, MC_AirLink): <=2 inverted information bits per BPTC-protected burst, informational. Late-entry phase (verdict-bearing): the receiver hears one to three stray data blocks of an earlier transmission first. The header format (packet data header of either mode, defined short data header) is varied independently of the confirmation mode (the A bit). The late-entry phase also has a receiver that heard one stale preamble (open known finding); the clauses are judged on the generated transmission's own events.",
    "C08": "Histories that outlast the 8-bit receive sequence counter are part of both tiers. Growth phase TransmissionWatcher (Watcher.tla, Trace_Watcher): per-terminal C08 monitors on traffic routed by the watcher (verdict-bearing), routing facts; observations outside the listed properties are printed as OUTSIDE-LISTED-PROPERTIES. One voice burst in eight carries the Reserved SYNC pattern (no colour code). Every third burst is parsed from its 33 octets alone (Burst.from_bytes without a burst-type hint).",
    "C09": "Half of the samples are taken by a caller that damages an earlier result in place first; a third / a quarter of the (68,28) / (128,72) messages are little-endian bitarrays. Growth phase embedded-LC reassembly (EmbeddedLC.tla, MC_EmbeddedLC, Trace_EmbeddedLC) on the real EmbeddedExtractor, informational. Growth phase capture iterator (PcapFilter.tla, MC_PcapFilter) on generated capture files, informational. Clause RowCodeIsAHammingCode: the parity-check columns learned from generate() are non-zero and pairwise different (the rows are not judged by a code that is no Hamming code); drift against the shortened cyclic codes of annex B.3. One sample in four is preceded by verifications that fail (shared CRC-8 / checksum calculators).",
    "C10": "One block in three is processed by a caller that damages earlier results in place and asks again; one in four is kept in little-endian bitarrays; every fourth damaged stream is followed by a valid block; interleave/deinterleave are also composed directly. All 64 impossible (state, point) pairs are aimed at with tails that continue validly from each state a lenient decoder might assume. Blocks also as bytearray / memoryview; the 49th position accepts only the flush point of the state reached. Plain streams (one point 49 times - the all-zero and all-one 196 bits among them -, two points alternating, a valid stream shifted by one point) judged by the model's decoder run.",
    "C11": "Results held and read late, mutable buffers, accepted words offered again under the other masks. Messages aimed by the generator polynomial (unmasked parity all-zero, equal to the mask, zero octets); structured wrong parities offered to the checker. Corruptions of weight 2 / 3 solved over GF(2^8) to zero one / two chosen syndromes.",
    "C12": "Opcodes interleaved, impolite caller, HRNP packet numbers aimed at the corners of ones-complement addition, GPS speeds over the whole NMEA range. Growth phases: per-opcode payload layouts of all 32 opcodes (HyteraPayloads.tla, drift), protocol detection (Detect.tla, MC_Detect), informational. GPS times / dates that collide with an 'absent' sentinel (midnight, 2000-01-01); option data also all zeros / all ones. Whole-number speeds also as int. Fix times with a sub-second part (judged on the whole seconds the hhmmss field holds). RCP pass-through payloads of 255..1024 octets.",
    "C13": "Growth phase MMDVM DMRD frames (MMDVM.tla, MC_MMDVM), informational. One frame in four is received twice with the first decoding edited in between; ids with zero / all-ones octets in each position. Call types cross every slot type; reserved segments also all zeros / all ones. The burst's own ids must equal the frame's (id 0 included); sync / wake-up frames carry arbitrary payloads incl. whole DMR bursts. Growth phase MMDVM client (MMDVMClient.tla, MC_MMDVMClient, Trace_MMDVMClient): the Homebrew login state machine in a closed loop with a master over lossy channels - liveness (refuted for the code as committed, proved with the missing timer branch) and an action property (refuted with two login requests in flight); TLC's counterexamples (-dumpTrace json) are replayed on the real class, random histories are judged by TLC; informational. Raw frames arrive as bytes, bytes subclass, bytearray and memoryview slice. One raw frame in seven is decoded from a memoryview of a receive buffer that is refilled before anything is read.",
    "C14": "Coordinates and info-times are read back through the library's own XML view; TLC judges in slices of 300 000 records. A share of the writer calls runs under an application's own decimal context / numpy error settings.",
    "C15": "Buffers are also framed by the harness as the grammar says (not only by the library's serialiser); result codes incl. 0 and septet boundaries. Each document id's token table is decided by the document's name from the library's three token tables, not by LRRP.get_configuration; every id goes through the token lookup API; signed floats written by hand incl. minus zero; content-less result with result-code. Attribute tokens are compared with their token ids. The API phase asks for 'result' by name with content and for request-hor-acc with integral and fractional values.",
    "C16": "UCS-2 texts with 0x00/0x7F/0x80/0xFF octets in first, middle and last position; impolite caller. Texts and identifiers with blank / line-end / NUL / no-break-space / BOM edges. Responses are built from fields alone (no .context() by the harness), failure reasons also as plain integers, acknowledgements with an encoding, reserved bit compared exactly; a constructor that refuses in-range fields is a violation. One FirstHeader object for two messages built before either is serialised.",
    "C17": "Growth phase active peer (MC_HSTRPActive.tla: timer, loss, liveness; the real periodic_maintenance coroutine under virtual time), informational. One history in four starts with the own sequence counter a few answers before its 16-bit wrap-around (reachable state set through the public attribute). Growth phase two-service client (MC_HSTRPClient.tla) on the real HRNPClient.go under virtual time, informational. The registration answer must be readable (option flag says what follows the header); a REJECT is not acknowledged. A plain heartbeat heard while the link is down is answered by no datagram at all.",
    "C18": "Growth phase start-up sequence across both handlers on one storage (Trace_Startup.tla): P2P and RDAC monitors plus cross-handler storage clauses. Keep-alives of 9..14 octets and commands whose octets 4..8 look like a keep-alive / acknowledgement are in the alphabet. Growth phases: RDAC handler in a closed loop with a cooperating repeater over a faulty network and inside a running event loop (MC_RDACLoop.tla), the SNMP read after completion (SNMPWalk.tla, MC_SNMPWalk), informational. RDAC steps are read per peer (ip, port), two peers behind each address; served datagrams go to the stored outbound address or the requester only.",
    "C19": "Catalogue also decodes every implemented Hytera opcode from generated PDUs with different values and builds them with default arguments; every signature family has a variant with caller-owned bytearrays; clock pass shifts the date by 38 years. Constructor parameters documented as 'number or buffer' get caller-owned buffers, three times over; the burst payload decoder is called twice on one caller-owned buffer for every data type; rejected / odd-ending rate-3/4 streams; every LRRP token by id and by name for both document families. Caller-configured CRC calculators (every switch of BitCrcConfiguration), byteswap_bytearray on caller-owned buffers, ARS responses built from fields serialised / measured / rendered in any order. Register workflow (init / update / digest) with caller configurations, the register tracked across digests; VBPTC column-parity helpers on caller-owned columns; numeric writers one at a time on rounding ties; the process-wide numeric context (decimal, numpy error state) is a watched cell. Presentation calls between parse and encode (mbxml_render). Clause EqualArgumentsEqualResults (equal messages in buffers with different pad bits); default-built PDU completed by its owner.",
    "C20": "Source states of replayed edges are set up with the specification's own operations and judged by TLC; a fresh record must carry only the attributes its creating call names; bounded model explored with one worker (deterministic graph). All eight data members of a record are projected and patched. A dynamic attribute spelt like a member ('address_in') is in the key pool; the frame condition distinguishes members from attributes. Dual-stack address spellings in the random histories. Operation save_new (save of a repeater the storage does not hold adds nothing); clause OneRecordPerAddress (open known finding: a patch re-addressing a record onto an occupied address).",
}

# pid -> (design_ref, technique, level text, level note)
CHECKS = {
    "C20": (
        "DESIGN.md 5/C20",
        "TLC exhaustive bounded model (Storage.tla) + edge replay into RepeaterStorage + TLC trace validation of recorded histories",
        "Every transition of the bounded storage model (3 addresses, all operations, 12 patch shapes naming every data member) is enumerated by TLC, "
        "checked against the property predicates, replayed on a real RepeaterStorage and the observed step judged by TLC; "
        "random long histories recorded from the real object are validated against the same predicates.",
        "Bounded: <=2 records, depth 3/4, small value pools; ids are mapped to creation order; patches of id/method names excluded.",
    ),
    "C08": (
        "DESIGN.md 5/C08",
        "TLC exhaustive bounded model of the tracker (Transmission.tla) + transition tours replayed on a real Terminal + TLC trace validation with a property monitor",
        "TLC explores every burst history of the tracker design model to a depth bound (17-letter alphabet, one and two timeslots, "
        "end_all) against the property monitor and two structural invariants; every explored edge is covered by a transition tour "
        "replayed with concrete bursts on a real Terminal with recording/raising observers; random long histories are recorded from "
        "the real Terminal; TLC judges every recorded step (events, labels, sequence numbers, stream ids, outcome).",
        "Burst content is abstract in the model (classes); voice bursts with RC-sync/reserved sync are outside the alphabet; secrets.token_bytes replaced by a counter; rx wrap at 256 only via long random histories.",
    ),
    "C07": (
        "DESIGN.md 5/C07",
        "TLC exhaustive model of generator arithmetic composed with the tracker model (Fragmentation.tla) + replay of every printed configuration through the real generator/parser/Terminal + TLC trace validation",
        "TLC enumerates all configurations (payload length x 3 rates x 2 modes x preamble counts) of the generator model "
        "written from ETSI Table 8.1, runs them through the tracker model and checks the C07 clauses; N and pad of each "
        "configuration are printed and used to drive the real TransmissionGenerator; its bursts are serialised, parsed and fed "
        "to a real Terminal, and TLC judges the recorded run (per-burst tracker monitor + summary clauses).",
        "Payload/CRC-32 byte equality is computed by the harness with the library's CRC32 (C05) and judged as booleans by TLC; N<=127; header built by the harness from the spec's N/pad.",
    ),
    "C17": (
        "DESIGN.md 5/C17",
        "TLC exhaustive bounded model of the HSTRP/RRS handler + liveness check of two handlers in a loop (HSTRPHandler.tla) + transition tours and closed loops on real handlers + TLC trace validation",
        "TLC explores every datagram history over 19 message classes to a depth bound against the property monitor, and checks "
        "'two handlers cannot ping-pong' as a temporal property (weak fairness, no state constraint) on two handler models wired "
        "back to back; every explored edge is replayed on a real RRSDatagramProtocol with a recording transport, two real handlers "
        "are wired back to back, and random histories with truncated/bit-flipped datagrams are recorded; TLC judges every step.",
        "Sent datagrams are classified structurally by the harness; damaged datagrams are judged only on never-raises and heartbeat clauses; periodic_maintenance (timer coroutine) not modelled.",
    ),
    "C18": (
        "DESIGN.md 5/C18",
        "TLC exhaustive bounded models of the P2P (on the storage spec) and RDAC handlers + edge replay on the real handlers with a recording transport + TLC trace validation",
        "TLC explores all interleavings of datagrams from 3 peers (P2P: 10 datagram classes + operator configuration, RDAC: every step "
        "reachable within the bound, 11 datagram classes) against the property monitors; every explored edge is replayed on the real "
        "P2PDatagramProtocol / RDACDatagramProtocol, random histories up to 150 datagrams are recorded, and TLC judges every step "
        "(who is served, destinations, rejects, registration flags, step dictionary, completion callbacks).",
        "SNMP read stubbed; sent datagrams classified structurally by the harness; raising on malformed datagrams is outside the statement.",
    ),
    "C19": (
        "DESIGN.md 5/C19",
        "TLC model of hidden mutable cells and entry-point families (Purity.tla) + reference results from pristine processes + TLC trace validation of random call interleavings",
        "TLC explores all interleavings of entry-point families over the hidden mutable cells (CRC registers, cached tables, mutable "
        "defaults, class-level token tables) and checks that no family reads what an earlier call left behind; ~165 catalogue "
        "signatures are measured as the first call of a pristine process, again with the date shifted by 400 days, and inside "
        "random interleavings of ~350 calls; TLC compares every call with the reference and checks argument buffers; observed cell "
        "changes are compared with the model (drift).",
        "The catalogue is finite and listed by the harness; hidden cells are read through private attributes for the drift check only; results compared by value.",
    ),
    "C06": (
        "DESIGN.md 5/C06",
        "exhaustive observation of the 7 block codes through their public API + TLC enumeration of the same domains evaluating the clauses (BlockCodes.tla)",
        "The implementation is called on every one of the 2^k messages, every one of the 2^n words (incl. all 2^20 Golay words), every "
        "codeword x single error and, for Hamming(16,11,4), every codeword x double error; TLC enumerates the same 1.75 million items "
        "and evaluates systematic form, linearity in the learned rows, checker = code membership, minimum distance, repair of single "
        "errors and reporting of double errors; the learned rows are also compared with the shortened-cyclic (polynomial) definition.",
        "Exhaustive on both sides; membership is relative to the library's own encoder (a different but self-consistent code of the same distance would pass; the polynomial comparison reports that as drift).",
    ),
    "C02": (
        "DESIGN.md 5/C02",
        "TLC enumeration of all 19 306 error patterns of weight <= 2 through a repair model (BPTC19696.tla) + the same patterns through the real decoder on two codewords each, judged by TLC; basis + random messages for linearity",
        "TLC enumerates every error pattern of weight <= 2 over the 196 transmitted bits, runs the repair pass sequence (Hamming syndrome "
        "decoders with parity-check columns learned through the public API, ETSI matrix layout) and compares with what the real "
        "decoder returned for the same pattern on the zero codeword and on a random codeword; the 96 unit messages and random messages "
        "check decode(encode(m)) = m with and without repair, encoder linearity and that rows/columns of codewords are Hamming words.",
        "2^96 messages via basis + linearity + translation invariance observed on random codewords; R(3) handling of repair_if_necessary not judged.",
    ),
    "C09": (
        "DESIGN.md 5/C09",
        "observations of the three variable-length BPTC encoders/extractors judged by TLC against the matrix rules (VBPTC.tla): exhaustive for (32,11), basis + every checksum value + random for (128,72)/(68,28)",
        "For every sample TLC rebuilds the transmitted matrix from the ETSI layout, checks that every data row is a Hamming word "
        "(parity-check columns learned through the public API), every column satisfies its parity rule, the extractor returns the "
        "message, the checksum read back equals the computed one (and the spec's own 5-bit checksum), and that the three encoder "
        "entry forms agree. (32,11): all 2^11 messages x both parities.",
        "Layouts are the spec's reading of ETSI B.2 (for (32,11) as tabulated in the library); (128,72)/(68,28) message spaces are sampled (unit messages, all 31 CS5 values, random).",
    ),
    "C10": (
        "DESIGN.md 5/C10",
        "TLC exhaustive check of the learned trellis tables and of the encoder x decoder product machine (Trellis34.tla) + observed blocks re-encoded by TLC + corrupted streams judged",
        "The 8x8 transition table, the constellation and dibit maps and the 98-position interleaver are learned through the public API; "
        "TLC checks exhaustively that every table row is injective, both maps are bijections, interleave/deinterleave are inverse "
        "permutations and that the decoder state tracks the encoder state over all tribit strings up to length 4 from all states; "
        "blocks embedding each of the 64 transitions at three positions, unit, constant and random blocks are encoded/decoded by the "
        "implementation (bits and bytes input), re-encoded by TLC with the pipeline over the learned tables, and streams with one "
        "replaced constellation point are judged (unreachable point => rejected).",
        "2^144 blocks by the structural argument over learned tables plus sampled end-to-end blocks; rejection = AssertionError from decode.",
    ),
    "C11": (
        "DESIGN.md 5/C11",
        "TLC recomputation of all 65 536 GF(2^8) products and syndrome evaluation of generated / checked words (RS1294.tla), with LFSR model and distance argument at design level",
        "TLC recomputes every product of log_multiply by shift-and-reduce modulo x^8+x^4+x^3+x^2+1, evaluates the three syndromes of every "
        "generated word after removing the mask (9 x 255 single-symbol messages, standard masks, random pairs), judges the checker on "
        "generated, corrupted (1-3 symbols) and random words (accepted iff zero syndromes), and checks at design level that "
        "(x-a)(x-a^2)(x-a^3) = x^3+14x^2+56x+64, that the LFSR model reproduces the observed parity and that any three parity-check "
        "columns are independent (distance 4).",
        "Messages are sampled (basis + random); products exhaustive; corrupted words sampled.",
    ),
    "C05": (
        "DESIGN.md 5/C05",
        "TLC: register models = polynomial remainder on all bit strings up to a bound (CRC.tla) + recomputation of observed checksums of both engines for every length 0..400 and of the four front ends",
        "The remainder is specified without a register (superposition of x^k mod g); TLC checks exhaustively on all bit strings up to "
        "12/14 bits (per width) that the bit-by-bit and the table register models equal it, proves the detection facts on the "
        "polynomials (constant term, 96 distinct unit remainders with no two xoring to a third), and recomputes what the real bitwise "
        "and table calculators returned (big- and little-endian bitarrays, every length 0..400, all short strings, unit vectors) and "
        "what CRC8/CRC9/CRC16/CRC32 front ends and their check functions returned; the repository's on-air vectors guard the reading.",
        "Long strings are sampled per length; polynomials as in ETSI B.3; CRC-32 front-end rule is the effective one (word swap, MSB first).",
    ),
    "C04": (
        "DESIGN.md 5/C04",
        "exhaustive parse of all 2^20 slot-type and 2^16 EMB words with membership recomputed by TLC (Integrity.tla on BlockCodes.tla) + corruption campaign on generated check-field PDUs judged by TLC against the detection capability proved in CRC.tla",
        "All 2^20 slot-type words and all 2^16 EMB words are parsed by the implementation; TLC enumerates them and compares the indicator "
        "with membership in the code spanned by the learned Golay/QR rows. 17 classes of check-field PDUs (slot type, EMB, five data "
        "header formats, PI header, short LC, six confirmed rate-block variants, HRNP) are generated, serialised, parsed (indicator must be "
        "true) and corrupted with every single-bit error, double errors, bursts (in code-word order) no longer than the check field, "
        "weight-3 patterns and patterns that clear the check field; TLC judges each outcome.",
        "Corruption patterns beyond single/double bit errors are sampled; field equality excludes the check fields themselves; five open findings (all-zero check field convention).",
    ),
    "C03": (
        "DESIGN.md 5/C03",
        "TLC: layout catalogue well-formedness + design round trip + enumeration of the case analysis (PDULayouts.tla) -> every case built with the real PDU classes -> TLC judges round trips, arbitrary bit strings and all element values",
        "46 field layouts are specified in TLA+; TLC checks them (widths, disjoint fields, Dec(Enc v) = v) and enumerates layout x field x "
        "boundary value / enumeration member; the harness builds each case and dense random cases (GPS coordinates: tens of thousands of raw "
        "values) with the real classes, serialises, parses, re-serialises; arbitrary right-length bit strings are decoded (documented error or "
        "fixed point); all 2^w values of 30 element enumerations are mapped; TLC judges everything and compares serialised bits with the "
        "layouts (drift).",
        "Field values beyond boundaries are sampled; adapters map layout fields to constructor keywords (trusted, small); which member an undefined element value folds to is not judged.",
    ),
    "C01": (
        "DESIGN.md 5/C01",
        "TLC judges assembled-serialised-parsed-reserialised bursts and re-derives slot type, centre and coded info bits from the fields (Burst.tla with learned Golay/QR rows and BPTC basis); classification decision table checked",
        "22 payload kinds x 16 colour codes x 4 data sync patterns (+ random combinations) are assembled as TransmissionGenerator does, "
        "serialised to 33 bytes, parsed and re-serialised; voice bursts around all voice syncs and around embedded signalling for every "
        "(colour, PI, LCSS) with random embedded bits; TLC judges data type, colour, payload fields and byte identity, recomputes the slot-type "
        "word, the SYNC pattern, the BPTC-coded / rate-1 info bits from the payload, and compares Burst.__init__'s classification with the "
        "decision table of the spec for all 33 centre x burst-type rows; no SYNC pattern is a valid EMB word (design level).",
        "Payload values are sampled (C03 covers the field space); rate-3/4 info bits are not re-derived here (C10); payload field equality is computed by the harness (value-based) and judged as a boolean.",
    ),
    "C14": (
        "DESIGN.md 5/C14",
        "TLC: canonical septet forms as oracle + reader state machine (MBXMLVar.tla), Read(Canonical v) = v on all values < 2^16 and the boundaries; observed write/read calls of a dense sweep, boundaries, random values, fractions, coordinates and date-times judged by TLC",
        "The canonical uintvar / sintvar / float-fraction octets are specified in TLA+ on 16-bit limbs and the reader as a state machine; TLC "
        "proves Read(Canonical(v)) = v for all v < 2^16 and all septet-length boundaries and m*128^k, then compares the octets the real writers "
        "produced (dense sweep, boundaries, random 32-bit, both signs, negative zero, fractions k/128^p for p = 1..3) with the canonical form "
        "and the read-back value / index; coordinate and info-time writers are inverted with the XML view's formulas (info-time octets also "
        "against the 14/4/5/5/6/6 layout).",
        "Float and coordinate equalities are computed in IEEE doubles by the harness (TLC judges the booleans and the octets); coordinate domain is what the writers accept (non-negative).",
    ),
    "C15": (
        "DESIGN.md 5/C15",
        "TLC frames every observed buffer and walks its token chains with learned token tables (MBXMLDoc.tla on MBXMLVar.tla) and judges MBXML.from_bytes / as_bytes on repository samples and generated documents",
        "The buffer grammar (documents with announced lengths, inline / inherited constants table, token chains whose value encodings "
        "follow from the per-document token tables learned through LRRP.get_configuration) is specified in TLA+; for every buffer - the "
        "repository's LRRP samples alone and 2-3 per buffer, documents assembled from token objects of all 18 LRRP tables with boundary "
        "and random canonical values, documents built through the token lookup API - TLC computes the framing and the token ids itself and "
        "compares document count, ids, token ids, re-serialised bytes and (for built documents) token values.",
        "Documents are sampled; the default constants table cannot be expressed on the wire and is outside; value equality computed by the harness.",
    ),
    "C16": (
        "DESIGN.md 5/C16",
        "TLC judges TMS / ARS messages built with the real classes against a complete TLA+ serialiser and the length rule (MotorolaMsg.tla)",
        "The TMS and ARS formats (length rule, header bit fields, sequence-number / encoding header chain, length-value fields, second headers, "
        "CSBK trailer) are written as a serialiser in TLA+; for all sequence numbers 0..127 x encodings x flags x address and text lengths and "
        "all implemented ARS PDU types x flags x field lengths x events x refresh times x failure reasons x trailer, the library builds, "
        "serialises, parses and re-serialises; TLC checks the leading length, field equality, byte fixed point and compares the octets with "
        "its own serialisation.",
        "Field projection and the documented normalisations are in the harness (small); text contents sampled.",
    ),
    "C12": (
        "DESIGN.md 5/C12",
        "TLC recomputes the framing facts (HyteraFraming.tla is the oracle: service byte, length field endianness, checksum, terminator, HRNP length / ones-complement checksum, HSTRP option chain) for PDUs of all 32 implemented opcodes, alone and nested",
        "For every implemented opcode of RRS, LP, TMP and RCP the library builds PDUs from in-range fields, serialises, parses and re-serialises "
        "them, nests them in HRNP and in HSTRP with 0..3 options; TLC recomputes service byte, length field (little endian for RCP), checksum, "
        "terminator and reported length of the HDAP frame, the HRNP length and checksum, the HSTRP header and TLV option chain with continuation "
        "bits, and judges byte identity of all round trips and field equality.",
        "Payload layouts of the individual opcodes are covered by the round trips only (no per-opcode layout in the spec); field values sampled with boundaries.",
    ),
    "C13": (
        "DESIGN.md 5/C13",
        "TLC decodes every 72-octet frame itself (IPSC.tla: layout, well-formedness, ids, colour, timeslot, burst octets, burst class) and judges both decoders and the serialiser",
        "The repository's captured frames and generated well-formed frames over sequence numbers, packet / slot / frame / call types, all colour "
        "codes, both timeslots, boundary and random ids, random reserved bytes and payloads valid for the indicated burst kind are decoded by "
        "Burst.from_hytera_ipsc from raw bytes and from the generic-parser object; TLC computes ids, colour, timeslot, sequence, burst octets and "
        "burst class from the frame, requires both decoders to agree with it and with each other, and the re-serialised frame to equal the "
        "original 72 octets.",
        "Frames with unknown packet / frame types (folded by design) are not generated; ids/colour 'as encoded' are read from the decoded IPSC object.",
    ),
}

NOT_YET = {}


def main():
    props = [json.loads(l) for l in open(os.path.join(HERE, "properties.jsonl"))]
    checks = []
    na = []
    for p in props:
        pid = p["id"]
        if pid in CHECKS:
            ref, tech, text, note = CHECKS[pid]
            checks.append({
                "property_id": pid,
                "quick_cmd": f"./check {pid} --tier quick",
                "thorough_cmd": f"./check {pid} --tier thorough",
                "evidence_file": f"/verif/evidence/{pid}.json",
                "replay_cmd_template": f"./check {pid} --replay {{path}}",
                "engine": "tlc",
                "level_claimed": {"category": "model_checking", "text": text, "design_ref": ref},
                "level_note": (note + " " + EXTRA_NOTES.get(pid, "")).strip(),
                "technique": tech,
            })
        else:
            na.append({"property_id": pid,
                       "reason": NOT_YET.get(pid, "check not built yet in this round (planned, see DESIGN.md section 5); not claimed until its TLA+ spec and conformance harness exist")})
    m = {
        "version": 1,
        "setup_cmd": "./tools/setup.sh",
        "hooks": {
            "guard": "OKDMR_VERIF",
            "enable": "no source hooks: the library is sequential, all observation goes through public attributes, observer callbacks and fake transports; the harness imports /repo (or $VERIF_REPO) directly",
            "baseline_off_cmd": BASELINE,
            "source_commits": [],
            "add_only": True,
        },
        "engines": [{"name": "tlc", "path": "/verif/harness/core.py",
                     "serves_properties": sorted(CHECKS),
                     "kind_free_text": "TLA+ specifications in /verif/spec checked with TLC 1.8 (exhaustive bounded models, -simulate, batch trace validation); Python drivers replay TLC edges into the implementation and record implementation traces for TLC"}],
        "checks": checks,
        "notes": "Entry point ./check Cxx --tier quick|thorough. Known findings: /verif/known_findings.json. Design: /verif/DESIGN.md.",
        "not_applicable": na,
    }
    with open(os.path.join(HERE, "MANIFEST.json"), "w") as f:
        json.dump(m, f, indent=1)
    print(f"{len(checks)} checks, {len(na)} not claimed")


if __name__ == "__main__":
    main()
