#!/bin/bash
# re-base a kept seeded change on the current /repo:  tools/seed_rebase.sh <id> [already-edited-scratch-dir]
# applies seeded/<id>/patch.diff with fuzz to a scratch copy (or takes a copy edited by hand), regenerates patch.diff against /repo,
# re-verifies (demo passes clean, fails changed; repository test suite passes changed; ./check reports it) and rewrites the patch
id=$1; P=${id:0:3}; HAND=$2
W=$(mktemp -d /tmp/rebase_XXXXXX); mkdir $W/a $W/b; cp -r /repo/okdmr $W/a/
if [ -n "$HAND" ]; then cp -r $HAND/okdmr $W/b/; else cp -r /repo/okdmr $W/b/; (cd $W/b && patch -p1 -s -F3 --no-backup-if-mismatch < /verif/seeded/$id/patch.diff) || { echo "$id: does not apply even with fuzz"; rm -rf $W; exit 3; }; fi
find $W -name __pycache__ -prune -exec rm -rf {} +
(cd $W && diff -ruN a/okdmr b/okdmr | sed -E 's#^(---|\+\+\+) ([ab]/okdmr[^\t]*)\t.*#\1 \2#' | grep -v '^diff -ruN' > new.diff)
[ -s $W/new.diff ] || { echo "$id: empty diff"; rm -rf $W; exit 3; }
(cd $W/a && PYTHONPATH=$W/a PYTHONDONTWRITEBYTECODE=1 timeout 600 /venv/bin/python /verif/seeded/$id/demo.py >/dev/null 2>&1); c=$?
(cd $W/b && PYTHONPATH=$W/b PYTHONDONTWRITEBYTECODE=1 timeout 600 /venv/bin/python /verif/seeded/$id/demo.py >/dev/null 2>&1); m=$?
(cd $W/b && PYTHONPATH=$W/b PYTHONDONTWRITEBYTECODE=1 timeout 1800 /venv/bin/python -m pytest -q -p no:cacheprovider --timeout=900 okdmr/tests > $W/tests.log 2>&1); t=$?
out=$(cd /verif && VERIF_OUT=$W VERIF_REPO=$W/b ./check $P --tier quick 2>&1); rc=$?
echo "$id: demo_clean=$c demo_changed=$m tests=$t ($(tail -1 $W/tests.log)) check_rc=$rc $(echo "$out" | grep -m1 'violation detail' | cut -c1-160)"
if [ $c = 0 ] && [ $m != 0 ] && [ $t = 0 ] && [ $rc = 1 ]; then
  cp $W/new.diff /verif/seeded/$id/patch.diff
  (cd /repo && git apply --check /verif/seeded/$id/patch.diff) && echo "$id: re-based, applies to /repo"
  /venv/bin/python - "$id" "$out" <<'PY'
import json, sys
i, out = sys.argv[1], sys.argv[2]
p = f"/verif/seeded/{i}/meta.json"; m = json.load(open(p))
m["rebased"] = "re-based on the fixes recorded after the defect hunt (same change on the repaired code); demonstration, test suite and check re-verified"
m["violation_details"] = [l.strip()[:400] for l in out.splitlines() if l.strip().startswith("violation detail:")][:6]
json.dump(m, open(p, "w"), indent=1)
PY
else echo "$id: NOT re-based (kept as it was)"; fi
rm -rf $W
