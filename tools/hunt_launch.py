#!/usr/bin/env python3
"""prepare scratch worktrees for defect hunting on the unchanged tree:  tools/hunt_launch.py <wtroot> <Cxx> [...]
The sub-agent gets the property text and a worktree, nothing from /verif."""
import json
import os
import subprocess
import sys

root, ids = sys.argv[1], sys.argv[2:]
props = {json.loads(l)["id"]: json.loads(l) for l in open("/verif/properties.jsonl")}
tmpl = open("/verif/tools/hunt_prompt.txt").read()
known = json.load(open("/verif/known_findings.json"))["findings"]
design = open("/verif/DESIGN.md").read().splitlines()


def already(pid):
    """second and later hunts: what is known already (repaired on this tree, or open, or a stated reading) - look elsewhere"""
    out = []
    for f in known:
        if f["property"] == pid:
            out.append("- (" + f["status"] + ") " + f["text"][:420])
    a, b = design.index("### 9.1 Readings of the statements the checks commit to"), [i for i, l in enumerate(design) if l.startswith("### 9.2")][0]
    for line in design[a:b]:
        if line.startswith("| ") and pid in [c.strip() for c in line.split("|")[1].split(",")]:
            out.append("- (how the statement is read; behaviour inside this reading is not a finding) " + line.split("|", 2)[2].strip(" |")[:1200])
    return "\n".join(out)


for pid in ids:
    wt = f"{root}/{pid}"
    if not os.path.isdir(wt):
        subprocess.run(["git", "-C", "/repo", "worktree", "add", "--detach", "-q", wt, "HEAD"], check=True)
    os.makedirs(f"{wt}/_hunt", exist_ok=True)
    json.dump(props[pid], open(f"{wt}/_hunt/property.json", "w"), indent=1)
    extra = already(pid) if os.environ.get("HUNT_ROUND", "1") != "1" else ""
    open(f"{wt}/_hunt/TASK.md", "w").write(tmpl.replace("{WT}", wt) + (
        "\n\nAn earlier review of this property already produced the following. Defects marked (fixed) are repaired on the tree you see; do not "
        "report them or their close relatives again - look for something DIFFERENT (other code paths, other argument forms, other histories, "
        "other public entry points in the anchored files):\n" + extra + "\n" if extra else ""))
print("prepared", ids)
