#!/usr/bin/env python3
"""prepare scratch worktrees for defect hunting on the unchanged tree:  tools/hunt_launch.py <wtroot> <Cxx> [...]
The sub-agent gets the property text and a worktree, nothing from /verif."""
import json
import os
import subprocess
import sys

root, ids = sys.argv[1], sys.argv[2:]
props = {json.loads(l)["id"]: json.loads(l) for l in open("/verif/properties.jsonl")}
tmpl = open("/verif/tools/hunt_prompt.txt").read()
for pid in ids:
    wt = f"{root}/{pid}"
    subprocess.run(["git", "-C", "/repo", "worktree", "add", "--detach", "-q", wt, "HEAD"], check=True)
    os.makedirs(f"{wt}/_hunt", exist_ok=True)
    json.dump(props[pid], open(f"{wt}/_hunt/property.json", "w"), indent=1)
    open(f"{wt}/_hunt/TASK.md", "w").write(tmpl.replace("{WT}", wt))
print("prepared", ids)
