#!/venv/bin/python
"""tools/addfix.py <id> <Cxx> <commit> <site> <class> <key_regex> <text>  - append a 'fixed:' entry to known_findings.json (by hand, never at run time)"""
import json, sys
i, prop, commit, site, cls, rx, text = sys.argv[1:8]
p = '/verif/known_findings.json'
d = json.load(open(p))
assert all(f['id'] != i for f in d['findings']), "duplicate id"
d['findings'].append({"id": i, "property": prop, "status": "fixed", "commit": commit, "site": site, "class": cls, "match": {"key_regex": rx},
                      "text": f"fixed: property={prop} {commit} {text}"})
json.dump(d, open(p, 'w'), indent=1, ensure_ascii=False); open(p, 'a').write("\n")
print(len(d['findings']), "entries")
