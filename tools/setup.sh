#!/bin/sh
# Offline setup: nothing is compiled or fetched. Checks tool presence, parses every TLA+ module.
set -e
cd "$(dirname "$0")/.."
mkdir -p evidence replays
java -version 2>&1 | head -1
/venv/bin/python -c "import bitarray, numpy; print('python ok')"
fail=0
for f in spec/*.tla; do
  case "$f" in spec/Trace_*|spec/MC_*|spec/Sim_*) continue;; esac
  if ! (cd spec && java -cp /opt/veriftools/tla/tla2tools.jar:/opt/veriftools/tla/CommunityModules-deps.jar tla2sany.SANY "$(basename "$f")" >/tmp/sany.$$ 2>&1); then
     echo "SANY failed on $f"; cat /tmp/sany.$$; fail=1
  fi
done
rm -f /tmp/sany.$$
[ $fail -eq 0 ] && echo "setup ok"
exit $fail
