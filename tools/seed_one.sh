#!/bin/bash
# one kept seeded change against its check on a scratch copy:  tools/seed_one.sh <id> [seed]     (prints rc and the first violation)
id=$1; P=${id:0:3}; SEED=${2:-}
SCR=$(mktemp -d /tmp/sweep_XXXXXX); cp -r ${BASE:-/repo}/okdmr $SCR/
if ! (cd $SCR && patch -p1 -s < /verif/seeded/$id/patch.diff) >/dev/null 2>&1; then echo "$id rc=NOAPPLY"; rm -rf $SCR; exit 0; fi
out=$(cd /verif && VERIF_OUT=$SCR VERIF_REPO=$SCR ./check $P --tier quick ${SEED:+--seed $SEED} 2>&1); rc=$?
echo "$id rc=$rc $(echo "$out" | grep -m1 'violation detail' | cut -c1-200)"
rm -rf $SCR
