#!/bin/bash
# later rounds: the sub-agent's a/b deliverables in <wtroot>/<Cxx>/_seed become variants <v1>/<v2>, then are evaluated
#   tools/seed_round.sh <Cxx> <wtroot> <v1> <v2>
P=$1; ROOT=$2; V1=$3; V2=$4; S=$ROOT/$P/_seed
for pair in a:$V1 b:$V2; do
  o=${pair%%:*}; n=${pair##*:}
  for f in patch_$o.diff demo_$o.py notes_$o.md; do [ -f $S/$f ] && mv $S/$f $S/${f/_$o./_$n.}; done
done
for v in $V1 $V2; do [ -f $S/patch_$v.diff ] && /verif/tools/seed_eval.sh $P $v $ROOT/$P | grep -v '^VIOLATION\|^OUTSIDE'; done
