#!/bin/bash
# run the repository's pinned suite (guard off) and print the summary line
cd /repo && /venv/bin/python -m pytest -q -p no:cacheprovider --timeout=900 --continue-on-collection-errors 2>&1 | tail -2
