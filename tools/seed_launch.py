#!/usr/bin/env python3
"""prepare scratch worktrees and task files for a round of seeding:  tools/seed_launch.py <wtroot> <Cxx> [<Cxx> ...]
Each <wtroot>/<Cxx> is a detached worktree of /repo with _seed/property.json and _seed/TASK.md (the prompt of
tools/seed_prompt.txt plus what earlier rounds already tried for that property).  The sub-agent gets nothing from /verif."""
import glob
import json
import os
import subprocess
import sys

root, ids = sys.argv[1], sys.argv[2:]
props = {json.loads(l)["id"]: json.loads(l) for l in open("/verif/properties.jsonl")}
tmpl = open("/verif/tools/seed_prompt.txt").read()
IDEAS = ("Ideas that have NOT been used much: behaviour that differs for the SECOND instance of a class or the second storage / handler object "
         "(class-level vs instance-level state that is not a cache); operations in an unusual but legal order (close before connect, end before "
         "begin, the same message twice, both timeslots interleaved); an error path that leaves partial state behind; an observer / callback that "
         "calls back into the object; inputs with extra trailing octets or exactly one octet too short; legal negative, float or very large "
         "values; dependence on dict / set iteration order, locale, time zone or time of day; a value that is legal in one field but collides with "
         "a sentinel (None, 0, -1, empty) used on another path; a documented default that changes only when an optional argument is passed "
         "positionally; arithmetic done in floats instead of integers near a power of two. Whatever you choose must violate the STATEMENT.\n")
for pid in ids:
    wt = f"{root}/{pid}"
    subprocess.run(["git", "-C", "/repo", "worktree", "add", "--detach", "-q", wt, "HEAD"], check=True)
    os.makedirs(f"{wt}/_seed", exist_ok=True)
    json.dump(props[pid], open(f"{wt}/_seed/property.json", "w"), indent=1)
    tried = []
    for f in sorted(glob.glob(f"/verif/seeded/{pid}[a-z]/meta.json")):
        m = json.load(open(f))
        tried.append(f"- in {m['files'][0]}: a change that needs: {m['needs_to_manifest']}")
    extra = ("\n\nAlready tried in earlier rounds (do NOT repeat these mechanisms or close variants; caching / memoisation, shared buffers, shared "
             "defaults, bitarray endianness, in-place edits of caller buffers, stripped text edges and plain off-by-one at a field maximum have been "
             "done):\n" + "\n".join(tried) + "\n" + IDEAS)
    open(f"{wt}/_seed/TASK.md", "w").write(tmpl.replace("{WT}", wt) + extra)
print("prepared", ids)
