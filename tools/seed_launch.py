#!/usr/bin/env python3
"""prepare scratch worktrees and task files for a round of seeding:  tools/seed_launch.py <wtroot> <Cxx> [<Cxx> ...]
Each <wtroot>/<Cxx> is a detached worktree of /repo with _seed/property.json and _seed/TASK.md (the prompt of
tools/seed_prompt.txt plus what earlier rounds already tried for that property).  The sub-agent gets nothing from /verif."""
import glob
import json
import os
import subprocess
import sys

root, ids = sys.argv[1], sys.argv[2:]
props = {json.loads(l)["id"]: json.loads(l) for l in open("/verif/properties.jsonl")}
tmpl = open("/verif/tools/seed_prompt.txt").read()
IDEAS = ("Work like a maintainer doing ONE plausible refactoring and getting one case wrong: a loop replaced by slicing / struct / int.from_bytes / "
         "bit shifts (width, signedness, byte order, off-by-one at the END of the range); numpy replaced by plain Python or the reverse (dtype "
         "overflow, truth value of arrays); a validation / assertion added that rejects a legal extreme or a legal combination; an __eq__ / "
         "__hash__ / dataclass conversion that changes what compares equal; a property that lazily computes and stores; logging or repr added on a "
         "path where repr can fail; an early return added for an 'empty' / 'nothing to do' case that is not actually empty; a default argument "
         "changed from a literal to a shared object; str.format / f-string widths for fixed-width text fields; rounding mode (round half even, "
         "floor vs trunc) at .5 and for negatives; a dict lookup with a default that hides a missing key; ordering assumptions (sorted vs insertion "
         "order); a copy replaced by a view. Prefer triggers that are legal, documented inputs the tests never use. Whatever you choose must "
         "violate the STATEMENT.\n")
for pid in ids:
    wt = f"{root}/{pid}"
    subprocess.run(["git", "-C", "/repo", "worktree", "add", "--detach", "-q", wt, "HEAD"], check=True)
    os.makedirs(f"{wt}/_seed", exist_ok=True)
    json.dump(props[pid], open(f"{wt}/_seed/property.json", "w"), indent=1)
    tried = []
    for f in sorted(glob.glob(f"/verif/seeded/{pid}[a-z]/meta.json")):
        m = json.load(open(f))
        tried.append(f"- in {m['files'][0]}: a change that needs: {m['needs_to_manifest']}")
    extra = ("\n\nAlready tried in earlier rounds (do NOT repeat these mechanisms or close variants; caching / memoisation, shared buffers, shared "
             "defaults, bitarray endianness, in-place edits of caller buffers, stripped text edges, class-level tables updated in place, sentinel collisions of 0 / midnight, tolerant verifiers, signed-vs-unsigned reads, `x or default`, identity-vs-equality, stored zip objects, bytes subclasses and plain off-by-one at a field maximum have been "
             "done):\n" + "\n".join(tried) + "\n" + IDEAS)
    open(f"{wt}/_seed/TASK.md", "w").write(tmpl.replace("{WT}", wt) + extra)
print("prepared", ids)
