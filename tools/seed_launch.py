#!/usr/bin/env python3
"""prepare scratch worktrees and task files for a round of seeding:  tools/seed_launch.py <wtroot> <Cxx> [<Cxx> ...]
Each <wtroot>/<Cxx> is a detached worktree of /repo with _seed/property.json and _seed/TASK.md (the prompt of
tools/seed_prompt.txt plus what earlier rounds already tried for that property).  The sub-agent gets nothing from /verif."""
import glob
import json
import os
import subprocess
import sys

root, ids = sys.argv[1], sys.argv[2:]
props = {json.loads(l)["id"]: json.loads(l) for l in open("/verif/properties.jsonl")}
tmpl = open("/verif/tools/seed_prompt.txt").read()
IDEAS = ("Ideas that have NOT been used much: `x or default` where 0 / empty / False is a legal value; a numeric field above 255 or 65535 written or read "
         "with the wrong byte order or as a signed number; the LAST field / element / octet sliced one short; truncation where rounding is meant "
         "(or the reverse) for negative numbers; inclusive vs exclusive bounds in a validation that rejects a legal extreme; two optional parts "
         "both present or both absent; the boundary between two length encodings; an enumeration alias or two members with the same value; "
         "a returned list / dict that is the internal one (caller edits it, next call sees it); a stored zip / map / generator object used twice; "
         "an exception swallowed by a broad except so that a wrong default is returned; comparison by identity where equality is meant (small "
         "ints and interned strings hide it); isinstance checks that exclude a subclass or bool-vs-int; state that survives an exception raised "
         "half way through an operation. Whatever you choose must violate the STATEMENT.\n")
for pid in ids:
    wt = f"{root}/{pid}"
    subprocess.run(["git", "-C", "/repo", "worktree", "add", "--detach", "-q", wt, "HEAD"], check=True)
    os.makedirs(f"{wt}/_seed", exist_ok=True)
    json.dump(props[pid], open(f"{wt}/_seed/property.json", "w"), indent=1)
    tried = []
    for f in sorted(glob.glob(f"/verif/seeded/{pid}[a-z]/meta.json")):
        m = json.load(open(f))
        tried.append(f"- in {m['files'][0]}: a change that needs: {m['needs_to_manifest']}")
    extra = ("\n\nAlready tried in earlier rounds (do NOT repeat these mechanisms or close variants; caching / memoisation, shared buffers, shared "
             "defaults, bitarray endianness, in-place edits of caller buffers, stripped text edges, class-level tables updated in place, sentinel collisions of 0 / midnight, tolerant verifiers and plain off-by-one at a field maximum have been "
             "done):\n" + "\n".join(tried) + "\n" + IDEAS)
    open(f"{wt}/_seed/TASK.md", "w").write(tmpl.replace("{WT}", wt) + extra)
print("prepared", ids)
