#!/bin/bash
# regression sweep: every kept seeded change against its check, on scratch copies (neither /repo nor the evidence of /verif is touched
# when run from a snapshot):   tools/seed_sweep.sh [base-repo] [jobs] [seed]
# prints one line per change: "<id> rc=<exit code of ./check Cxx --tier quick> violations=<n>"; a kept change must give rc=1
BASE=${1:-/repo}; JOBS=${2:-3}; SEED=${3:-}; HERE=$(cd "$(dirname "$0")/.." && pwd)
one() {
  d=$1; id=$(basename $d); P=${id:0:3}
  SCR=$(mktemp -d /tmp/sweep_XXXXXX)
  cp -r $BASE/okdmr $SCR/
  if ! (cd $SCR && patch -p1 -s < $d/patch.diff) >/dev/null 2>&1; then echo "$id rc=NOAPPLY"; rm -rf $SCR; return; fi
  out=$(cd $HERE && VERIF_OUT=$SCR VERIF_REPO=$SCR ./check $P --tier quick ${SEED:+--seed $SEED} 2>&1); rc=$?
  echo "$id rc=$rc $(echo "$out" | grep -o 'violations=[0-9]*' | tail -1)"
  rm -rf $SCR
}
export -f one; export BASE HERE SEED
ls -d $HERE/seeded/*/ | grep -E "${ONLY:-.}" | xargs -P $JOBS -I{} bash -c 'one {}'
