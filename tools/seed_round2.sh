#!/bin/bash
# round 2: the sub-agent's a/b deliverables in /tmp/wt2/<Cxx>/_seed become variants c/d
P=$1; S=/tmp/wt2/$P/_seed
for pair in a:c b:d; do
  o=${pair%%:*}; n=${pair##*:}
  for f in patch_$o.diff demo_$o.py notes_$o.md; do [ -f $S/$f ] && mv $S/$f $S/${f/_$o./_$n.}; done
done
for v in c d; do [ -f $S/patch_$v.diff ] && /verif/tools/seed_eval.sh $P $v /tmp/wt2/$P | grep -v '^VIOLATION'; done
