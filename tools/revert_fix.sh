#!/bin/bash
# usage: tools/revert_fix.sh <sha> <Cxx> [tier] [seed]
# the "reverted-fix pattern": scratch copy of /repo's okdmr with one fix: commit reversed, ./check Cxx against the copy
# (evidence / replays of the run go to the scratch directory, which is removed); a recorded fix must give exit 1
SHA=$1; PID=$2; TIER=${3:-quick}; SEED=${4:-}
SCR=$(mktemp -d /tmp/rev_XXXXXX)
cp -r "${BASE:-/repo}/okdmr" "$SCR/"
if ! git -C /repo show "$SHA" --format= -- okdmr | (cd "$SCR" && patch -R -p1 -s) ; then echo "$SHA does not revert cleanly"; rm -rf "$SCR"; exit 3; fi
VERIF_OUT="$SCR" VERIF_REPO="$SCR" /verif/check "$PID" --tier "$TIER" ${SEED:+--seed $SEED} > "$SCR/out.txt" 2>&1
RC=$?
grep -E "violation detail|VIOLATION|KNOWN-FINDING|MACHINERY|MODEL-DRIFT|violations=" "$SCR/out.txt" | cut -c1-400 | head -${LINES_MAX:-10}
echo "$SHA reverted, $PID $TIER: exit code $RC"
rm -rf "$SCR"
