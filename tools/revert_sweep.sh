#!/bin/bash
# regression sweep over the repaired defects: every fixed entry of known_findings.json with its commit reverted on a scratch copy
# must be reported by its check again:   tools/revert_sweep.sh [base-repo] [jobs]     ("<commit> <Cxx> rc=1" is what is wanted)
BASE=${1:-/repo}; JOBS=${2:-3}; HERE=$(cd "$(dirname "$0")/.." && pwd)
one() {
  sha=$1; P=$2
  SCR=$(mktemp -d /tmp/rev_XXXXXX); cp -r $BASE/okdmr $SCR/
  if ! git -C $BASE show $sha --format= -- okdmr | (cd $SCR && patch -R -p1 -s >/dev/null 2>&1); then echo "$sha $P rc=NOREVERT (later fixes build on it)"; rm -rf $SCR; return; fi
  out=$(cd $HERE && VERIF_OUT=$SCR VERIF_REPO=$SCR ./check $P --tier quick 2>&1); rc=$?
  echo "$sha $P rc=$rc $(echo "$out" | grep -m1 'violation detail' | cut -c1-140)"
  rm -rf $SCR
}
export -f one; export BASE HERE
/venv/bin/python - <<'PY' | xargs -P $JOBS -L 1 bash -c 'one $0 $1'
import json
for f in json.load(open("/verif/known_findings.json"))["findings"]:
    if f["status"] == "fixed":
        for sha in f["commit"].replace(",", " ").split():
            print(sha, f["property"])
PY
