#!/bin/bash
# second half of seed_eval.sh on its own: apply a confirmed change to /repo, run the quick check, undo   tools/seed_check.sh <Cxx> <v> <worktree>
P=$1; V=$2; WT=$3; S=$WT/_seed
git -C /repo apply "$S/patch_$V.diff" || { echo "seed $P/$V: patch does not apply to /repo"; exit 3; }
(cd /verif && VERIF_OUT=/tmp/seed_out timeout 3000 ./check "$P" --tier "${SEED_TIER:-quick}" >"$S/check_$V.log" 2>&1); rc=$?
git -C /repo checkout -q -- .
echo "seed $P/$V: check_rc=$rc violations=$(grep -c '^VIOLATION' "$S/check_$V.log") $(grep -m1 'violation detail' "$S/check_$V.log" | cut -c1-220)"
