#!/usr/bin/env python3
"""Keep a confirmed seeded change under /verif/seeded/<id>/ (patch.diff, demo.py, notes.md, meta.json).
   tools/seed_keep.py <Cxx> <variant> <caught yes|no|thorough> "<what it needs to manifest>" [worktree]"""
import json, os, re, shutil, sys
pid, v, caught, needs = sys.argv[1:5]
wt = sys.argv[5] if len(sys.argv) > 5 else f"/tmp/wt/{pid}"
s = f"{wt}/_seed"
dst = f"/verif/seeded/{pid}{v}"
os.makedirs(dst, exist_ok=True)
shutil.copy(f"{s}/patch_{v}.diff", f"{dst}/patch.diff")
shutil.copy(f"{s}/demo_{v}.py", f"{dst}/demo.py")
if os.path.exists(f"{s}/notes_{v}.md"):
    shutil.copy(f"{s}/notes_{v}.md", f"{dst}/notes.md")
log = open(f"{s}/check_{v}.log").read() if os.path.exists(f"{s}/check_{v}.log") else ""
viol = [l[:400] for l in log.splitlines() if l.startswith("VIOLATION")]
detail = [l.strip()[:400] for l in log.splitlines() if l.strip().startswith("violation detail:")]
files = re.findall(r"^\+\+\+ b/(\S+)", open(f"{dst}/patch.diff").read(), re.M)
tests = open(f"{s}/tests_{v}.log").read().strip().splitlines()[-1] if os.path.exists(f"{s}/tests_{v}.log") else ""
meta = {
    "id": f"{pid}{v}", "property": pid, "files": files, "origin": "fresh sub-agent given only the property text and a scratch worktree",
    "needs_to_manifest": needs,
    "confirmed_by": [
        f"scratch worktree: demo.py exits 0 on the clean tree; after `git apply patch.diff` the repository test suite still passes ({tests}) and demo.py exits non-zero",
        f"/repo: git -C /repo apply patch.diff; ./check {pid} --tier quick; git -C /repo checkout -- .",
    ],
    "caught_by_quick_check": caught,
    "violation_lines": viol[:6],
    "violation_details": detail[:6],
    "violations_reported": len(viol),
}
json.dump(meta, open(f"{dst}/meta.json", "w"), indent=1)
print("kept", dst, "violations:", len(viol))
