#!/bin/bash
# Evaluate one seeded change delivered by a sub-agent in a scratch worktree.
#   tools/seed_eval.sh <Cxx> <variant> [worktree]          (variant: a | b)
# 1. in the worktree: demo passes on the clean tree, patch applies, test suite passes, demo fails; undo
# 2. in /repo: git apply, ./check Cxx --tier quick, git checkout -- .   (as the brief prescribes)
# Prints one summary line; exit 0 iff the change is confirmed (step 1).  Nothing is kept in /repo.
set -u
P=$1; V=$2; WT=${3:-/tmp/wt/$P}
S=$WT/_seed
PATCH=$S/patch_$V.diff; DEMO=$S/demo_$V.py
[ -f "$PATCH" ] && [ -f "$DEMO" ] || { echo "seed $P/$V: missing files"; exit 3; }
cd "$WT" || exit 3
git -C "$WT" checkout -q -- . 2>/dev/null
run_demo() { (cd "$WT" && PYTHONPATH="$WT" PYTHONDONTWRITEBYTECODE=1 timeout 600 /venv/bin/python "$DEMO" >"$S/demo_$V.$1.log" 2>&1); echo $?; }
clean_rc=$(run_demo clean)
git -C "$WT" apply "$PATCH" || { echo "seed $P/$V: patch does not apply"; exit 3; }
(cd "$WT" && PYTHONPATH="$WT" PYTHONDONTWRITEBYTECODE=1 timeout 1800 /venv/bin/python -m pytest -q -p no:cacheprovider --timeout=900 okdmr/tests >"$S/tests_$V.log" 2>&1); tests_rc=$?
mut_rc=$(run_demo mutated)
git -C "$WT" checkout -q -- .
tests_tail=$(tail -1 "$S/tests_$V.log")
confirmed=no
[ "$clean_rc" = 0 ] && [ "$tests_rc" = 0 ] && [ "$mut_rc" != 0 ] && confirmed=yes
check_rc=-
if [ "$confirmed" = yes ] && [ "${SEED_SKIP_CHECK:-0}" != 1 ]; then
  git -C /repo apply "$PATCH" || { echo "seed $P/$V: patch does not apply to /repo"; exit 3; }
  (cd /verif && VERIF_OUT=/tmp/seed_out timeout 3000 ./check "$P" --tier "${SEED_TIER:-quick}" >"$S/check_$V.log" 2>&1); check_rc=$?
  git -C /repo checkout -q -- .
fi
echo "seed $P/$V: demo_clean=$clean_rc tests=$tests_rc ($tests_tail) demo_mutated=$mut_rc confirmed=$confirmed check_rc=$check_rc"
if [ "$check_rc" != - ]; then
  echo "  violations=$(grep -c '^VIOLATION' "$S/check_$V.log") drift=$(grep -c '^MODEL-DRIFT' "$S/check_$V.log")"
  grep -E '^VIOLATION' "$S/check_$V.log" | cut -c1-260 | head -4
  tail -2 "$S/check_$V.log" | cut -c1-300
fi
[ "$confirmed" = yes ]
